use super::runner::{Codec, Property};

pub mod c01;
pub mod c02;

pub mod c03;
pub mod c04;
pub mod c05;
pub mod c06;
pub mod c07;
pub mod c07_app;
pub mod c08;
pub mod c11;
pub mod c12;
pub mod c13;
pub mod c14;
pub mod c15;
pub mod c16;
pub mod c17;
pub mod c18;
pub mod c19;
pub mod gen_out;

pub fn all<C: Codec>() -> Vec<Property> {
    vec![
        c01::property::<C>(),
        c02::property::<C>(),
        c03::property::<C>(),
        c04::property::<C>(),
        c05::property::<C>(),
        c06::property::<C>(),
        c07::property::<C>(),
        c08::property::<C>(),
        c11::property::<C>(),
        c12::property::<C>(),
        c13::property::<C>(),
        c14::property::<C>(),
        c15::property::<C>(),
        c16::property::<C>(),
        c17::property::<C>(),
        c18::property::<C>(),
        c19::property::<C>(),
    ]
}
