#!/bin/bash
# usage: tools/all_seeds.sh [Cnn ...]   - applies every kept seeded change to /repo in turn, runs the quick check of its
# property, reverts, and prints one line per seed (CAUGHT / MISSED / SKIPPED). /repo's working tree must be clean.
cd /verif
want="$*"
for d in seeded/*/; do
  id=$(basename $d); prop=${id%-*}
  if [ -n "$want" ] && ! echo "$want" | grep -qw "$prop"; then continue; fi
  patch=$d/patch.diff; [ -f $d/patch.rebased.diff ] && patch=$d/patch.rebased.diff
  if ! git -C /repo apply --check /verif/$patch 2>/dev/null; then echo "SKIPPED $id (patch no longer applies: $(jq -r .caught_by_check $d/meta.json))"; continue; fi
  out=$(tools/try_seed.sh /verif/$patch $prop quick 2>&1)
  sig=$(echo "$out" | grep "signature:" | head -1 | sed 's/ *signature: //')
  if echo "$out" | grep -q "^exit=1"; then echo "CAUGHT  $id  $sig"; else echo "MISSED  $id  $(echo "$out" | tail -2 | head -1)"; fi
done
