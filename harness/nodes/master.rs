//! S-MAST / S-PAIR node: the real MasterTask (session, association map, every task type, real
//! transport/link) run by the real tcp::client::ClientTask (connect / retry loop, through hook
//! H3), with recording stubs for the user callbacks.

use crate::app::measurement::*;
use crate::app::parse::options::ParseOptions;
use crate::app::{
    BufferSize, ConnectStrategy, FunctionCode, Listener, MaybeAsync, ResponseHeader, RetryStrategy,
    Sequence, Timeout, Timestamp,
};
use crate::decode::{
    AppDecodeLevel, DecodeLevel, LinkDecodeLevel, PhysDecodeLevel, TransportDecodeLevel,
};
use crate::link::reader::LinkModes;
use crate::link::{EndpointAddress, LinkErrorMode};
use crate::master::*;
use crate::tcp::{
    ClientState, ConnectOptions, EndpointList, PostConnectionHandler, SimpleConnectHandler,
};
use crate::verif::kernel::{self, Sim};
use crate::verif::nodes::net::SimNetwork;
use crate::verif::refcodec::app::PointType;
use serde::{Deserialize, Serialize};
use std::sync::{Arc, Mutex};
use std::time::Duration;

#[derive(Clone, Debug, Serialize, Deserialize)]
pub struct AssocCfg {
    pub address: u16,
    pub response_timeout_ms: u64,
    /// class masks (bit0 = class1, bit1 = class2, bit2 = class3)
    pub disable_unsol: u8,
    pub enable_unsol: u8,
    /// bit0..2 = class 1..3, bit3 = class 0
    pub startup_integrity: u8,
    /// 0 none, 1 LAN, 2 non-LAN, 3 direct write
    pub auto_time_sync: u8,
    pub retry_min_ms: u64,
    pub retry_max_ms: u64,
    pub keep_alive_ms: Option<u64>,
    pub integrity_on_overflow: bool,
    pub event_scan: u8,
    pub max_queued: usize,
}

impl AssocCfg {
    pub fn quiet(address: u16) -> Self {
        Self {
            address,
            response_timeout_ms: 5000,
            disable_unsol: 0,
            enable_unsol: 0,
            startup_integrity: 0,
            auto_time_sync: 0,
            retry_min_ms: 1000,
            retry_max_ms: 10_000,
            keep_alive_ms: None,
            integrity_on_overflow: false,
            event_scan: 0,
            max_queued: 16,
        }
    }

    pub fn to_config(&self) -> AssociationConfig {
        let ec = |m: u8| EventClasses::new(m & 1 != 0, m & 2 != 0, m & 4 != 0);
        let mut c = AssociationConfig::quiet();
        c.response_timeout = Timeout::from_millis(self.response_timeout_ms).expect("timeout");
        c.disable_unsol_classes = ec(self.disable_unsol);
        c.enable_unsol_classes = ec(self.enable_unsol);
        c.startup_integrity_classes =
            Classes::new(self.startup_integrity & 8 != 0, ec(self.startup_integrity));
        c.auto_time_sync = match self.auto_time_sync {
            1 => Some(TimeSyncProcedure::Lan),
            2 => Some(TimeSyncProcedure::NonLan),
            3 => Some(TimeSyncProcedure::DirectWriteAbsTime),
            _ => None,
        };
        c.auto_tasks_retry_strategy = RetryStrategy::new(
            Duration::from_millis(self.retry_min_ms),
            Duration::from_millis(self.retry_max_ms),
        );
        c.keep_alive_timeout = self.keep_alive_ms.map(Duration::from_millis);
        c.auto_integrity_scan_on_buffer_overflow = self.integrity_on_overflow;
        c.event_scan_on_events_available = ec(self.event_scan);
        c.max_queued_user_requests = self.max_queued;
        c
    }
}

#[derive(Clone, Debug, Serialize, Deserialize)]
pub struct MasterCfg {
    pub master_addr: u16,
    pub tx: usize,
    /// receive buffer (0 = the library default of 2048)
    #[serde(default)]
    pub rx: usize,
    pub close_mode: bool,
    pub decode_all: bool,
    pub connect_min_ms: u64,
    pub connect_max_ms: u64,
    pub reconnect_ms: u64,
    pub connect_timeout_ms: Option<u64>,
    pub assocs: Vec<AssocCfg>,
    /// master wall clock at virtual time zero (ms since epoch)
    pub wall_clock_base: u64,
    /// the association handler has no clock (get_current_time returns None)
    #[serde(default)]
    pub no_clock: bool,
}

impl MasterCfg {
    pub fn basic() -> Self {
        Self {
            master_addr: 1,
            tx: 2048,
            rx: 0,
            close_mode: false,
            decode_all: false,
            connect_min_ms: 1000,
            connect_max_ms: 10_000,
            reconnect_ms: 1000,
            connect_timeout_ms: None,
            assocs: vec![AssocCfg::quiet(1024)],
            wall_clock_base: 1_700_000_000_000,
            no_clock: false,
        }
    }
}

/// one value handed to the ReadHandler
#[derive(Clone, Debug, PartialEq)]
pub struct RxMeas {
    pub ptype: PointType,
    pub index: u16,
    pub value: f64,
    pub bytes: Vec<u8>,
    pub flags: u8,
    /// (time ms, synchronized)
    pub time: Option<(u64, bool)>,
    pub is_event: bool,
    pub has_flags: bool,
    pub variation: String,
}

#[derive(Clone, Debug, PartialEq)]
pub enum MEv {
    BeginFragment {
        assoc: u16,
        read_type: String,
        seq: u8,
        uns: bool,
        fir: bool,
        fin: bool,
        iin: (u8, u8),
    },
    Meas {
        assoc: u16,
        m: RxMeas,
    },
    AbsTime {
        assoc: u16,
        t: u64,
    },
    Other {
        assoc: u16,
        what: String,
    },
    EndFragment {
        assoc: u16,
        seq: u8,
    },
    TaskStart {
        assoc: u16,
        task: String,
        func: u8,
        seq: u8,
    },
    TaskSuccess {
        assoc: u16,
        task: String,
        func: u8,
        seq: u8,
    },
    TaskFail {
        assoc: u16,
        task: String,
        err: String,
    },
    Unsolicited {
        assoc: u16,
        dup: bool,
        seq: u8,
    },
    Client(String),
    GetTime {
        assoc: u16,
        t: Option<u64>,
    },
    /// a user request completed: (user op id, outcome text, ok?)
    UserDone {
        id: u64,
        ok: bool,
        outcome: String,
    },
    /// FileReader callbacks of user request `id`: what = opened / block / aborted / completed
    File {
        id: u64,
        what: String,
        block: u32,
        len: usize,
        content_ok: bool,
        detail: String,
    },
}

#[derive(Default)]
pub struct MRecorder {
    pub log: Vec<(u64, u64, MEv)>,
    /// wall clock offset of the master (ms since epoch at virtual time 0); None = the handler returns None
    pub wall_base: Option<u64>,
}

impl MRecorder {
    pub fn push(&mut self, ev: MEv) {
        let (t, order) = match kernel::current() {
            Some(c) => {
                if c.log_enabled() {
                    c.log(format!("  master callback {:?}", ev));
                }
                (c.now_ms(), c.next_order())
            }
            None => (0, 0),
        };
        self.log.push((t, order, ev));
    }
}

pub type MRec = Arc<Mutex<MRecorder>>;

struct Reader {
    rec: MRec,
    assoc: u16,
    /// a handler handed to `read_with_handler` (its fragments are recorded with read type "Custom:...")
    custom: bool,
}

/// a recording handler for `AssociationHandle::read_with_handler`
pub fn custom_reader(rec: MRec, assoc: u16) -> Box<dyn ReadHandler> {
    Box::new(Reader {
        rec,
        assoc,
        custom: true,
    })
}

fn time_of(t: Option<Time>) -> Option<(u64, bool)> {
    t.map(|x| (x.timestamp().raw_value(), x.is_synchronized()))
}

impl Reader {
    fn meas(
        &mut self,
        info: HeaderInfo,
        ptype: PointType,
        index: u16,
        value: f64,
        flags: Flags,
        time: Option<Time>,
        bytes: Vec<u8>,
    ) {
        self.rec.lock().unwrap().push(MEv::Meas {
            assoc: self.assoc,
            m: RxMeas {
                ptype,
                index,
                value,
                bytes,
                flags: flags.value,
                time: time_of(time),
                is_event: info.is_event,
                has_flags: info.has_flags,
                variation: format!("{:?}", info.variation),
            },
        });
    }
}

impl ReadHandler for Reader {
    fn begin_fragment(&mut self, read_type: ReadType, header: ResponseHeader) -> MaybeAsync<()> {
        self.rec.lock().unwrap().push(MEv::BeginFragment {
            assoc: self.assoc,
            read_type: if self.custom {
                format!("Custom:{:?}", read_type)
            } else {
                format!("{:?}", read_type)
            },
            seq: header.control.seq.value(),
            uns: header.control.uns,
            fir: header.control.fir,
            fin: header.control.fin,
            iin: (header.iin.iin1.value, header.iin.iin2.value),
        });
        MaybeAsync::ready(())
    }
    fn end_fragment(&mut self, _read_type: ReadType, header: ResponseHeader) -> MaybeAsync<()> {
        self.rec.lock().unwrap().push(MEv::EndFragment {
            assoc: self.assoc,
            seq: header.control.seq.value(),
        });
        MaybeAsync::ready(())
    }
    fn handle_binary_input(
        &mut self,
        info: HeaderInfo,
        iter: &mut dyn Iterator<Item = (BinaryInput, u16)>,
    ) {
        for (v, i) in iter {
            self.meas(
                info,
                PointType::Binary,
                i,
                v.value as u8 as f64,
                v.flags,
                v.time,
                vec![],
            );
        }
    }
    fn handle_double_bit_binary_input(
        &mut self,
        info: HeaderInfo,
        iter: &mut dyn Iterator<Item = (DoubleBitBinaryInput, u16)>,
    ) {
        for (v, i) in iter {
            let x = match v.value {
                DoubleBit::Intermediate => 0.0,
                DoubleBit::DeterminedOff => 1.0,
                DoubleBit::DeterminedOn => 2.0,
                DoubleBit::Indeterminate => 3.0,
            };
            self.meas(info, PointType::DoubleBit, i, x, v.flags, v.time, vec![]);
        }
    }
    fn handle_binary_output_status(
        &mut self,
        info: HeaderInfo,
        iter: &mut dyn Iterator<Item = (BinaryOutputStatus, u16)>,
    ) {
        for (v, i) in iter {
            self.meas(
                info,
                PointType::BinaryOutputStatus,
                i,
                v.value as u8 as f64,
                v.flags,
                v.time,
                vec![],
            );
        }
    }
    fn handle_counter(&mut self, info: HeaderInfo, iter: &mut dyn Iterator<Item = (Counter, u16)>) {
        for (v, i) in iter {
            self.meas(
                info,
                PointType::Counter,
                i,
                v.value as f64,
                v.flags,
                v.time,
                vec![],
            );
        }
    }
    fn handle_frozen_counter(
        &mut self,
        info: HeaderInfo,
        iter: &mut dyn Iterator<Item = (FrozenCounter, u16)>,
    ) {
        for (v, i) in iter {
            self.meas(
                info,
                PointType::FrozenCounter,
                i,
                v.value as f64,
                v.flags,
                v.time,
                vec![],
            );
        }
    }
    fn handle_analog_input(
        &mut self,
        info: HeaderInfo,
        iter: &mut dyn Iterator<Item = (AnalogInput, u16)>,
    ) {
        for (v, i) in iter {
            self.meas(info, PointType::Analog, i, v.value, v.flags, v.time, vec![]);
        }
    }
    fn handle_analog_output_status(
        &mut self,
        info: HeaderInfo,
        iter: &mut dyn Iterator<Item = (AnalogOutputStatus, u16)>,
    ) {
        for (v, i) in iter {
            self.meas(
                info,
                PointType::AnalogOutputStatus,
                i,
                v.value,
                v.flags,
                v.time,
                vec![],
            );
        }
    }
    fn handle_octet_string<'a>(
        &mut self,
        info: HeaderInfo,
        iter: &'a mut dyn Iterator<Item = (&'a [u8], u16)>,
    ) {
        for (v, i) in iter {
            self.meas(
                info,
                PointType::OctetString,
                i,
                0.0,
                Flags::new(0),
                None,
                v.to_vec(),
            );
        }
    }
    fn handle_frozen_analog_input(
        &mut self,
        info: HeaderInfo,
        iter: &mut dyn Iterator<Item = (FrozenAnalogInput, u16)>,
    ) {
        let n = iter.count();
        self.rec.lock().unwrap().push(MEv::Other {
            assoc: self.assoc,
            what: format!("frozen analog x{} {:?}", n, info.variation),
        });
    }
    fn handle_analog_input_dead_band(
        &mut self,
        info: HeaderInfo,
        iter: &mut dyn Iterator<Item = (AnalogInputDeadBand, u16)>,
    ) {
        let n = iter.count();
        self.rec.lock().unwrap().push(MEv::Other {
            assoc: self.assoc,
            what: format!("dead band x{} {:?}", n, info.variation),
        });
    }
    fn handle_analog_output_command_event(
        &mut self,
        info: HeaderInfo,
        iter: &mut dyn Iterator<Item = (AnalogOutputCommandEvent, u16)>,
    ) {
        let n = iter.count();
        self.rec.lock().unwrap().push(MEv::Other {
            assoc: self.assoc,
            what: format!("ao command event x{} {:?}", n, info.variation),
        });
    }
    fn handle_binary_output_command_event(
        &mut self,
        info: HeaderInfo,
        iter: &mut dyn Iterator<Item = (BinaryOutputCommandEvent, u16)>,
    ) {
        let n = iter.count();
        self.rec.lock().unwrap().push(MEv::Other {
            assoc: self.assoc,
            what: format!("bo command event x{} {:?}", n, info.variation),
        });
    }
    fn handle_unsigned_integer(
        &mut self,
        info: HeaderInfo,
        iter: &mut dyn Iterator<Item = (UnsignedInteger, u16)>,
    ) {
        let n = iter.count();
        self.rec.lock().unwrap().push(MEv::Other {
            assoc: self.assoc,
            what: format!("unsigned x{} {:?}", n, info.variation),
        });
    }
    fn handle_abs_time(&mut self, _info: HeaderInfo, time: Timestamp) {
        self.rec.lock().unwrap().push(MEv::AbsTime {
            assoc: self.assoc,
            t: time.raw_value(),
        });
    }
}

struct AHandler {
    rec: MRec,
    assoc: u16,
}

impl AssociationHandler for AHandler {
    fn get_current_time(&self) -> Option<Timestamp> {
        let now = kernel::current().map(|c| c.now_ms()).unwrap_or(0);
        let mut r = self.rec.lock().unwrap();
        let t = r.wall_base.map(|b| b.wrapping_add(now));
        r.push(MEv::GetTime {
            assoc: self.assoc,
            t,
        });
        t.map(Timestamp::new)
    }
}

struct AInfo {
    rec: MRec,
    assoc: u16,
}

impl AssociationInformation for AInfo {
    fn task_start(&mut self, task_type: TaskType, fc: FunctionCode, seq: Sequence) {
        self.rec.lock().unwrap().push(MEv::TaskStart {
            assoc: self.assoc,
            task: format!("{:?}", task_type),
            func: fc.as_u8(),
            seq: seq.value(),
        });
    }
    fn task_success(&mut self, task_type: TaskType, fc: FunctionCode, seq: Sequence) {
        self.rec.lock().unwrap().push(MEv::TaskSuccess {
            assoc: self.assoc,
            task: format!("{:?}", task_type),
            func: fc.as_u8(),
            seq: seq.value(),
        });
    }
    fn task_fail(&mut self, task_type: TaskType, error: TaskError) {
        self.rec.lock().unwrap().push(MEv::TaskFail {
            assoc: self.assoc,
            task: format!("{:?}", task_type),
            err: format!("{:?}", error),
        });
    }
    fn unsolicited_response(&mut self, is_duplicate: bool, seq: Sequence) {
        self.rec.lock().unwrap().push(MEv::Unsolicited {
            assoc: self.assoc,
            dup: is_duplicate,
            seq: seq.value(),
        });
    }
}

struct CListener(MRec);

impl Listener<ClientState> for CListener {
    fn update(&mut self, value: ClientState) -> MaybeAsync<()> {
        self.0
            .lock()
            .unwrap()
            .push(MEv::Client(format!("{:?}", value)));
        MaybeAsync::ready(())
    }
}

pub struct MasterNode {
    pub channel: MasterChannel,
    pub assocs: Vec<AssociationHandle>,
    pub rec: MRec,
    pub net: SimNetwork,
    pub task: usize,
    pub cfg: MasterCfg,
}

impl MasterNode {
    /// build the real client task + master task and add the configured associations; the channel is left disabled
    pub async fn start(sim: &Sim, cfg: &MasterCfg, net: SimNetwork) -> MasterNode {
        let rec: MRec = Arc::new(Mutex::new(MRecorder {
            log: Vec::new(),
            wall_base: if cfg.no_clock { None } else { Some(cfg.wall_clock_base) },
        }));
        let mut mc = MasterChannelConfig::new(
            EndpointAddress::try_new(cfg.master_addr).expect("master address"),
        );
        mc.tx_buffer_size = BufferSize::new(cfg.tx).expect("tx size");
        if cfg.rx != 0 {
            mc.rx_buffer_size = BufferSize::new(cfg.rx).expect("rx size");
        }
        if cfg.decode_all {
            mc.decode_level = DecodeLevel::new(
                AppDecodeLevel::ObjectValues,
                TransportDecodeLevel::Payload,
                LinkDecodeLevel::Payload,
                PhysDecodeLevel::Data,
            );
        }
        let mut options = ConnectOptions::default();
        if let Some(t) = cfg.connect_timeout_ms {
            options.set_connect_timeout(Duration::from_millis(t));
        }
        let strategy = ConnectStrategy::new(
            Duration::from_millis(cfg.connect_min_ms),
            Duration::from_millis(cfg.connect_max_ms),
            Duration::from_millis(cfg.reconnect_ms),
        );
        let handler = SimpleConnectHandler::create(
            EndpointList::single("127.0.0.1:20000".to_string()),
            options,
            strategy,
        );
        let (mut client, channel) = crate::tcp::wire_master_client(
            LinkModes::stream(if cfg.close_mode {
                LinkErrorMode::Close
            } else {
                LinkErrorMode::Discard
            }),
            ParseOptions::get_static(),
            MasterChannelType::Stream,
            handler,
            mc,
            PostConnectionHandler::Tcp,
            Box::new(CListener(rec.clone())),
        );
        sim.set_net(Arc::new(net.clone()));
        let task = sim.spawn("master", async move {
            client.run().await;
        });
        let mut node = MasterNode {
            channel,
            assocs: Vec::new(),
            rec,
            net,
            task,
            cfg: cfg.clone(),
        };
        for a in &cfg.assocs {
            let h = node.add_association(sim, a).await;
            if let Some(h) = h {
                node.assocs.push(h);
            }
        }
        node
    }

    pub async fn add_association(&mut self, sim: &Sim, a: &AssocCfg) -> Option<AssociationHandle> {
        let addr = EndpointAddress::try_new(a.address).expect("association address");
        let mut ch = self.channel.clone();
        let rec = self.rec.clone();
        let config = a.to_config();
        let assoc = a.address;
        let slot: Arc<Mutex<Option<Option<AssociationHandle>>>> = Arc::new(Mutex::new(None));
        let s2 = slot.clone();
        sim.spawn("add-association", async move {
            let res = ch
                .add_association(
                    addr,
                    config,
                    Box::new(Reader {
                        rec: rec.clone(),
                        assoc,
                        custom: false,
                    }),
                    Box::new(AHandler {
                        rec: rec.clone(),
                        assoc,
                    }),
                    Box::new(AInfo { rec, assoc }),
                )
                .await;
            *s2.lock().unwrap() = Some(res.ok());
        });
        for _ in 0..10 {
            sim.settle().await;
            if let Some(r) = slot.lock().unwrap().take() {
                return r;
            }
        }
        None
    }

    pub fn events_since(&self, n: usize) -> Vec<(u64, u64, MEv)> {
        self.rec.lock().unwrap().log[n..].to_vec()
    }

    pub fn event_count(&self) -> usize {
        self.rec.lock().unwrap().log.len()
    }
}

/// content of octet `i` of block `b` of every file the scripted outstation serves
pub fn file_octet(block: u32, i: usize) -> u8 {
    (block
        .wrapping_mul(31)
        .wrapping_add(i as u32 * 7)
        .wrapping_add(3)) as u8
}

/// recording FileReader; aborts in `opened` (abort_at == Some(0)) or at block abort_at - 1
pub struct FReader {
    pub rec: MRec,
    pub id: u64,
    pub abort_at: Option<u32>,
}

impl crate::master::FileReader for FReader {
    fn opened(&mut self, size: u32) -> crate::master::FileAction {
        self.rec.lock().unwrap().push(MEv::File {
            id: self.id,
            what: "opened".to_string(),
            block: 0,
            len: size as usize,
            content_ok: true,
            detail: String::new(),
        });
        if self.abort_at == Some(0) {
            crate::master::FileAction::Abort
        } else {
            crate::master::FileAction::Continue
        }
    }

    fn block_received(
        &mut self,
        block_num: u32,
        data: &[u8],
    ) -> crate::app::MaybeAsync<crate::master::FileAction> {
        let content_ok = data
            .iter()
            .enumerate()
            .all(|(i, x)| *x == file_octet(block_num, i));
        self.rec.lock().unwrap().push(MEv::File {
            id: self.id,
            what: "block".to_string(),
            block: block_num,
            len: data.len(),
            content_ok,
            detail: String::new(),
        });
        let action = if self.abort_at == Some(block_num + 1) {
            crate::master::FileAction::Abort
        } else {
            crate::master::FileAction::Continue
        };
        crate::app::MaybeAsync::ready(action)
    }

    fn aborted(&mut self, err: crate::master::FileError) {
        self.rec.lock().unwrap().push(MEv::File {
            id: self.id,
            what: "aborted".to_string(),
            block: 0,
            len: 0,
            content_ok: true,
            detail: format!("{:?}", err),
        });
    }

    fn completed(&mut self) {
        self.rec.lock().unwrap().push(MEv::File {
            id: self.id,
            what: "completed".to_string(),
            block: 0,
            len: 0,
            content_ok: true,
            detail: String::new(),
        });
    }
}
