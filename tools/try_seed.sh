#!/bin/bash
# usage: tools/try_seed.sh <patch.diff> <Cnn> [quick|thorough]
# applies a seeded change to /repo's working tree, runs the check, and reverts straight afterwards. Evidence and replays of
# such runs go to the git-ignored /verif/soak/try so that the committed evidence (unchanged tree) is not overwritten.
patch="$1"; prop="$2"; tier="${3:-quick}"
if ! git -C /repo diff --quiet; then echo "/repo working tree is dirty" >&2; exit 2; fi
git -C /repo apply "$patch" || { echo "patch does not apply" >&2; exit 2; }
mkdir -p /verif/soak/try/evidence /verif/soak/try/replays; cp /verif/known_findings.json /verif/soak/try/
cd /verif && VERIF_ROOT=/verif/soak/try ./check "$prop" "$tier"
rc=$?
git -C /repo checkout -- .
echo "exit=$rc"
exit $rc
