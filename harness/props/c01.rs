//! C01 - bytes from the peer can never crash or wedge a master or an outstation.
//! Scenario "outstation" (S-OUT): a hostile master against the real outstation; scenario "master" (S-MAST): hostile
//! outstations against the real master. Panics, spins and hangs are caught by the engines; the oracles here add the
//! "keeps serving" probe at the end of every run.

use crate::verif::nodes::master::{AssocCfg, MasterCfg};
use crate::verif::nodes::outstation::CtrlAnswers;
use crate::verif::props::c12::gen_request;
use crate::verif::props::gen_out::{gen_event_cfg, gen_points, gen_update};
use crate::verif::refcodec::app::{self as refapp, Range, ReqHeader};
use crate::verif::refcodec::link::{self as reflink, RefFrame};
use crate::verif::rng::{mix, Rng};
use crate::verif::runner::{erase, Codec, Outcome, Property, Scenario, Tier, Violation};
use crate::verif::smast::{self, MOp, MastRun, Reply, SmastCase, UserKind};
use crate::verif::sout::{self, ConfSel, Dest, Op, Oracle, SeqSel, SoutCase, Step, Who, World};
use std::collections::BTreeMap;

pub struct HostileMaster;
pub struct HostileOutstation;

pub fn property<C: Codec>() -> Property {
    Property {
        id: "C01",
        scenarios: vec![
            erase::<C, _>(HostileMaster),
            erase::<C, _>(HostileOutstation),
        ],
    }
}

const EXTREMES: [u16; 8] = [0, 1, 2, 254, 255, 256, 65534, 65535];

/// object headers whose count / range / qualifier fields sit at the edges of their ranges
pub fn gen_extreme_objects(rng: &mut Rng, with_data: bool) -> Vec<u8> {
    let mut out = Vec::new();
    let n = rng.urange(1, 3);
    for _ in 0..n {
        if rng.chance(1, 6) {
            // a device attribute (group 0): [data type][length][payload] with every data type, extreme lengths and a payload that
            // matches the length, falls short of it or exceeds it
            out.push(0);
            out.push(*rng.pick(&[0u8, 1, 196, 201, 211, 240, 245, 248, 249, 250, 252, 253, 254, 255]));
            let set = *rng.pick(&[0u8, 0, 0, 1, 255]);
            match rng.below(5) {
                0 => {
                    out.push(0x01);
                    out.extend_from_slice(&(set as u16).to_le_bytes());
                    out.extend_from_slice(&(*rng.pick(&[set as u16, 256, 65535])).to_le_bytes());
                }
                1 => {
                    out.push(0x17);
                    out.push(*rng.pick(&[1u8, 1, 2, 0]));
                    out.push(set);
                }
                2 => out.push(0x06),
                _ => {
                    out.push(0x00);
                    out.push(set);
                    out.push(if rng.chance(1, 8) { set.wrapping_add(1) } else { set });
                }
            }
            if with_data || rng.chance(1, 3) {
                let ty = *rng.pick(&[1u8, 2, 3, 4, 5, 6, 7, 254, 255, 0, 8, 100]);
                let len = *rng.pick(&[0u8, 1, 2, 3, 4, 5, 6, 7, 8, 9, 16, 254, 255]);
                out.push(ty);
                out.push(len);
                let real = if ty == 255 { len as usize + 256 } else { len as usize };
                let n = match rng.below(4) {
                    0 => real.saturating_sub(1),
                    1 => real + rng.urange(1, 3),
                    _ => real,
                };
                out.extend(rng.bytes(n));
            }
            continue;
        }
        let (group, var) = *rng.pick(&[
            (1u8, 1u8),
            (1, 2),
            (2, 1),
            (2, 2),
            (3, 1),
            (10, 2),
            (12, 1),
            (20, 1),
            (21, 1),
            (22, 1),
            (30, 1),
            (30, 5),
            (32, 1),
            (34, 1),
            (40, 1),
            (41, 1),
            (41, 2),
            (50, 1),
            (50, 3),
            (52, 2),
            (60, 1),
            (60, 2),
            (70, 5),
            (80, 1),
            (110, 0),
            (110, 1),
            (110, 4),
            (110, 255),
            (111, 1),
            (111, 255),
            (0, 254),
            (0, 255),
            (0, 240),
            (112, 1),
            (113, 1),
            (120, 1),
        ]);
        out.push(group);
        out.push(var);
        let a = *rng.pick(&EXTREMES);
        let b = *rng.pick(&EXTREMES);
        let (start, stop) = if rng.chance(5, 6) {
            (a.min(b), a.max(b))
        } else {
            (a.max(b), a.min(b))
        };
        let qual = *rng.pick(&[
            0x00u8, 0x01, 0x06, 0x07, 0x08, 0x17, 0x28, 0x5B, 0x02, 0x03, 0x09, 0x19, 0x2A, 0xFF,
        ]);
        out.push(qual);
        let mut count = 0usize;
        match qual {
            0x00 => {
                out.push(start as u8);
                out.push(stop as u8);
                count = (stop as u8).wrapping_sub(start as u8) as usize + 1;
            }
            0x01 => {
                out.extend_from_slice(&start.to_le_bytes());
                out.extend_from_slice(&stop.to_le_bytes());
                count = stop.wrapping_sub(start) as usize + 1;
            }
            0x07 | 0x17 => {
                out.push(a as u8);
                count = a as u8 as usize;
            }
            0x08 | 0x28 => {
                out.extend_from_slice(&a.to_le_bytes());
                count = a as usize;
            }
            0x5B => {
                out.push(*rng.pick(&[0u8, 1, 2, 255]));
                out.extend_from_slice(&(*rng.pick(&EXTREMES)).to_le_bytes());
                count = 1;
            }
            _ => {}
        }
        if with_data || rng.chance(1, 3) {
            // some object data: nothing, a little, or as much as the count asks for (capped)
            let want = match rng.below(4) {
                0 => 0,
                1 => rng.urange(1, 12),
                2 => (count * rng.urange(1, 12)).min(1500),
                _ => rng.urange(0, 300),
            };
            // octet strings at the end of the index space: prefix the last index
            if group >= 110 && qual == 0x01 && stop == 65535 {
                let len = var as usize;
                let k = count.min(4);
                out.extend(rng.bytes(len * k));
            } else {
                out.extend(rng.bytes(want));
            }
        }
    }
    out
}

/// a mutation of well-formed fragment octets
pub fn mutate(rng: &mut Rng, bytes: &[u8]) -> Vec<u8> {
    let mut b = bytes.to_vec();
    match rng.below(7) {
        0 => {
            // flip a few bits
            for _ in 0..rng.urange(1, 4) {
                if !b.is_empty() {
                    let i = rng.urange(0, b.len() - 1);
                    b[i] ^= 1 << rng.below(8);
                }
            }
        }
        1 => {
            let n = rng.urange(0, b.len());
            b.truncate(n);
        }
        2 => {
            let n = rng.urange(1, 40);
            b.extend(rng.bytes(n));
        }
        3 => {
            // force one octet to an extreme
            if b.len() > 2 {
                let i = rng.urange(2, b.len() - 1);
                b[i] = *rng.pick(&[0u8, 1, 0x7F, 0x80, 0xFE, 0xFF]);
            }
        }
        4 => {
            // force two octets (a 16-bit field) to 0xFFFF
            if b.len() > 4 {
                let i = rng.urange(2, b.len() - 2);
                b[i] = 0xFF;
                b[i + 1] = 0xFF;
            }
        }
        5 => {
            // duplicate the object part
            if b.len() > 2 {
                let tail = b[2..].to_vec();
                b.extend(tail);
            }
        }
        _ => {
            // replace the objects by extreme headers
            b.truncate(2.min(b.len()));
            b.extend(gen_extreme_objects(rng, true));
        }
    }
    b
}

/// One to three frames that deframe perfectly (valid CRCs) but are hostile one level up: every link function code and flag
/// combination (confirmed user data with FCB/FCV, reset link, test link, ACK/NACK/LINK_STATUS/NOT_SUPPORTED from the wrong
/// side, the own side's DIR bit), reserved / broadcast / self / foreign addresses, no transport octet at all, a transport octet
/// and nothing else, segments that begin in the middle of a fragment, repeat or skip sequence numbers, or never finish
pub fn gen_odd_valid_frames(rng: &mut Rng, dest: u16, src: u16, from_master: bool) -> Vec<u8> {
    let mut out = Vec::new();
    let mut tseq = rng.below(64) as u8;
    for _ in 0..rng.urange(1, 3) {
        let dir = if from_master { 0x80u8 } else { 0x00 };
        let ctrl = match rng.below(12) {
            0 => rng.u8(),
            1 => dir | 0x40,                                  // RESET_LINK_STATES
            2 => dir | 0x42 | ((rng.below(2) as u8) << 5),      // TEST_LINK_STATES
            3 | 4 => dir | 0x43 | ((rng.below(4) as u8) << 4), // CONFIRMED_USER_DATA with FCB/FCV in all combinations
            5 => dir | 0x49,                                  // REQUEST_LINK_STATUS
            6 => dir | rng.below(2) as u8,                    // ACK / NACK
            7 => dir | 0x0B,                                  // LINK_STATUS
            8 => dir | 0x0F,                                  // NOT_SUPPORTED
            9 => (dir ^ 0x80) | 0x44,                         // unconfirmed user data with the DIR bit of the receiving side
            _ => dir | 0x44,
        };
        let d = match rng.below(8) {
            0 => 0xFFFC,
            1 => 0xFFF0 + rng.below(12) as u16,
            2 => 0xFFFD + rng.below(3) as u16,
            3 => rng.u16(),
            _ => dest,
        };
        let sr = match rng.below(8) {
            0 => 0xFFF0 + rng.below(16) as u16,
            1 => rng.u16(),
            2 => dest,
            _ => src,
        };
        let payload: Vec<u8> = match rng.below(8) {
            0 => Vec::new(),
            1 => vec![rng.u8()],
            2 => {
                // a middle or last segment without a first one
                let mut p = vec![(rng.below(2) as u8) << 7 | (tseq & 0x3F)];
                let k = rng.urange(0, 249);
                p.extend(rng.bytes(k));
                p
            }
            3 => {
                // a first segment that never finishes, maximal size
                let mut p = vec![0x40 | (tseq & 0x3F)];
                p.extend(rng.bytes(249));
                p
            }
            _ => {
                let flags = (rng.below(4) as u8) << 6;
                let mut p = vec![flags | (tseq & 0x3F)];
                // something that looks like an application fragment
                p.push(0xC0 | rng.below(16) as u8);
                let func = *rng.pick(&[0u8, 1, 2, 3, 4, 5, 13, 20, 21, 23, 24, 129, 130]);
                p.push(func);
                // (never the two octets of the closing probe itself: a byte-identical earlier fragment - by broadcast, say - makes
                // the probe a retransmission, which is answered like the original, i.e. possibly not at all)
                let k = rng.urange(if func == 23 { 1 } else { 0 }, 40);
                p.extend(rng.bytes(k));
                p
            }
        };
        tseq = match rng.below(4) {
            0 => tseq,
            1 => tseq.wrapping_add(2),
            _ => tseq.wrapping_add(1),
        };
        out.extend(reflink::build_frame(&RefFrame { ctrl, dest: d, src: sr, payload }));
    }
    out
}

/// link-level garbage: random octets, a frame with a wrong CRC, or a frame cut short (header CRC intact)
pub fn gen_wire_garbage(rng: &mut Rng, dest: u16, src: u16, from_master: bool) -> Vec<u8> {
    if rng.chance(1, 3) {
        return gen_odd_valid_frames(rng, dest, src, from_master);
    }
    let n = rng.urange(0, 200);
    let frame = reflink::build_frame(&RefFrame {
        ctrl: if from_master { 0xC4 } else { 0x44 },
        dest,
        src,
        payload: {
            let mut p = vec![0xC0 | rng.below(64) as u8];
            p.extend(rng.bytes(n));
            p
        },
    });
    match rng.below(6) {
        0 => {
            let k = rng.urange(1, 300);
            rng.bytes(k)
        }
        1 => {
            let mut f = frame;
            if !f.is_empty() {
                let i = rng.urange(0, f.len() - 1);
                f[i] ^= 1 << rng.below(8);
            }
            f
        }
        2 | 3 => {
            // header (with valid CRC) and only part of the body
            let keep = rng.urange(1, frame.len().saturating_sub(1).max(1));
            frame[..keep].to_vec()
        }
        4 => {
            // maximal announced length, no body at all
            let mut hdr = vec![0x05, 0x64, 0xFF, if from_master { 0xC4 } else { 0x44 }];
            hdr.extend_from_slice(&dest.to_le_bytes());
            hdr.extend_from_slice(&src.to_le_bytes());
            let c = reflink::crc(&hdr);
            hdr.extend_from_slice(&c.to_le_bytes());
            hdr
        }
        _ => {
            let mut v = vec![0x05, 0x64];
            let k = rng.urange(0, 8);
            v.extend(rng.bytes(k));
            v
        }
    }
}

// ---------------------------------------------------------------------------------------------------------------------
// hostile master against the real outstation

impl Scenario for HostileMaster {
    type Case = SoutCase;

    fn name(&self) -> &'static str {
        "outstation"
    }

    fn runs(&self, tier: Tier) -> u64 {
        match tier {
            Tier::Quick => 60_000,
            Tier::Thorough => 1_600_000,
        }
    }

    fn rule(&self) -> String {
        "a hostile master against the real outstation over the real link and transport layers: well-formed requests of every function code, mutations \
         of them (bit flips, truncation, extension, fields forced to 0 / 1 / 255 / 65535, ranges ending at 65535, maximal counts, free-format and \
         octet-string headers), arbitrary application octets inside valid framing up to the receive buffer, link-level garbage (random octets, bad CRCs, \
         frames cut short, maximal announced lengths) - injected while the outstation is idle, waiting for a solicited or unsolicited confirmation, in the \
         middle of a multi-fragment response, or holding a selection; every chunking; decode levels none / everything (with a formatting subscriber so every \
         Display path runs); receive buffers 249..2048, transmit buffers 249..2048, event buffers that overflow; both link error modes; reconnects \
         in the middle of a frame. At the end of every run the outstation must answer a link status request and a well-formed request (on the same \
         session unless link-level garbage was sent in Close mode, then on the next). non-trivial = hostile input reached the outstation while it was not \
         idle; distinct = hash of (input classes, states, configuration class)"
            .to_string()
    }

    fn real_components(&self) -> Vec<&'static str> {
        vec![
            "outstation::task / session / database / event buffer",
            "tcp::server_task::ServerTask",
            "transport::real (reader, writer, assembler)",
            "link::layer / reader / parser / format",
            "app::parse (all object parsers, Display at every decode level)",
        ]
    }

    fn stub_components(&self) -> Vec<&'static str> {
        vec![
            "physical layer (simulated, hook H2)",
            "hostile master (reference codec + mutators)",
            "outstation application / control handler (recording stubs)",
        ]
    }

    fn generate(&self, rng: &mut Rng, _tier: Tier) -> SoutCase {
        let mut cfg = gen_event_cfg(rng);
        cfg.points = gen_points(rng, 5, 4, true, true);
        if rng.chance(1, 3) {
            // a point at the very end of the index space
            if let Some(p) = cfg.points.first().cloned() {
                let mut q = p;
                q.index = 65535;
                cfg.points.push(q);
            }
        }
        cfg.decode_all = rng.chance(1, 3);
        cfg.rx = *rng.pick(&[249usize, 300, 512, 2048]);
        cfg.event_buffers = if rng.bool() { [3; 8] } else { [20; 8] };
        cfg.close_mode = rng.bool();
        let own = cfg.outstation_addr;
        let master = cfg.master_addr;
        let mut clock = 1000u64;
        let mut script: Vec<Op> = vec![Op::Connect];
        let mut wire_garbage_in_session = false;
        let mut connected = true;
        let rounds = rng.urange(3, 14);
        for _ in 0..rounds {
            // put the outstation into some state first
            match rng.below(8) {
                0 | 1 => {
                    for _ in 0..rng.urange(1, 6) {
                        script.push(Op::Update(gen_update(rng, &cfg.points, &mut clock)));
                    }
                }
                2 => {
                    // event read: the response asks for confirmation
                    for _ in 0..rng.urange(1, 4) {
                        script.push(Op::Update(gen_update(rng, &cfg.points, &mut clock)));
                    }
                    script.push(Op::Request {
                        func: refapp::FUNC_READ,
                        seq: SeqSel::Next,
                        headers: vec![
                            ReqHeader::all(60, 2),
                            ReqHeader::all(60, 3),
                            ReqHeader::all(60, 4),
                        ],
                        flags: None,
                        from: Who::Master,
                        to: Dest::Own,
                    });
                }
                3 => {
                    // integrity read: several fragments with small transmit buffers
                    script.push(Op::Request {
                        func: refapp::FUNC_READ,
                        seq: SeqSel::Next,
                        headers: vec![
                            ReqHeader::all(60, 2),
                            ReqHeader::all(60, 3),
                            ReqHeader::all(60, 4),
                            ReqHeader::all(60, 1),
                        ],
                        flags: None,
                        from: Who::Master,
                        to: Dest::Own,
                    });
                }
                4 => script.push(Op::Request {
                    func: refapp::FUNC_ENABLE_UNSOL,
                    seq: SeqSel::Next,
                    headers: vec![
                        ReqHeader::all(60, 2),
                        ReqHeader::all(60, 3),
                        ReqHeader::all(60, 4),
                    ],
                    flags: None,
                    from: Who::Master,
                    to: Dest::Own,
                }),
                5 => script.push(Op::Confirm {
                    uns: rng.bool(),
                    seq: if rng.bool() {
                        ConfSel::Expected
                    } else {
                        ConfSel::Fixed(rng.below(16) as u8)
                    },
                    from: Who::Master,
                }),
                6 if connected && !wire_garbage_in_session => {
                    // a poll, then a peer that keeps chattering - confirmations that confirm nothing, more often than the
                    // confirm time-out - for longer than two time-outs: whatever the outstation was waiting for, the poll is
                    // answered ("never stalls")
                    script.push(Op::Request {
                        func: refapp::FUNC_READ,
                        seq: SeqSel::Next,
                        headers: vec![ReqHeader::all(60, 2), ReqHeader::all(60, 3), ReqHeader::all(60, 4)],
                        flags: None,
                        from: Who::Master,
                        to: Dest::Own,
                    });
                    let gap = (cfg.confirm_timeout_ms * 2 / 5).max(1);
                    for _ in 0..rng.urange(6, 9) {
                        script.push(Op::Confirm {
                            uns: rng.chance(3, 4),
                            seq: ConfSel::Offset(rng.range(2, 14) as u8),
                            from: Who::Master,
                        });
                        script.push(Op::Sleep(gap));
                    }
                }
                _ => {}
            }
            // then the hostile input
            let burst = rng.urange(1, 4);
            for _ in 0..burst {
                match rng.below(12) {
                    0..=2 => script.push(gen_request(rng, &cfg.points, cfg.rx)),
                    3 | 4 => {
                        // a mutated well-formed request
                        if let Op::Request { func, headers, .. } =
                            gen_request(rng, &cfg.points, cfg.rx)
                        {
                            let bytes = refapp::build_request(
                                refapp::Ctrl::request(rng.below(16) as u8),
                                func,
                                &headers,
                            );
                            script.push(Op::Raw {
                                bytes: mutate(rng, &bytes),
                                from: Who::Master,
                                to: Dest::Own,
                            });
                        }
                    }
                    5 | 6 => {
                        let func = if rng.chance(1, 3) {
                            rng.u8()
                        } else {
                            *rng.pick(&[
                                1u8, 2, 3, 4, 5, 6, 7, 9, 13, 20, 21, 22, 23, 24, 25, 27, 31, 0,
                            ])
                        };
                        let mut bytes = vec![0xC0 | rng.below(16) as u8, func];
                        bytes.extend(gen_extreme_objects(rng, func != 1));
                        bytes.truncate(cfg.rx);
                        script.push(Op::Raw {
                            bytes,
                            from: Who::Master,
                            to: if rng.chance(1, 10) {
                                Dest::Bcast(0xFFFF - rng.below(3) as u16)
                            } else {
                                Dest::Own
                            },
                        });
                    }
                    7 => {
                        // as many arbitrary octets as the receive buffer takes
                        let n = if rng.bool() {
                            cfg.rx
                        } else {
                            rng.urange(0, cfg.rx)
                        };
                        script.push(Op::Raw {
                            bytes: rng.bytes(n),
                            from: if rng.chance(1, 8) {
                                Who::Foreign(rng.u16())
                            } else {
                                Who::Master
                            },
                            to: Dest::Own,
                        });
                    }
                    8 | 9 => {
                        script.push(Op::WireBytes(gen_wire_garbage(rng, own, master, true)));
                        wire_garbage_in_session = true;
                    }
                    10 => {
                        script.push(Op::Disconnect { eof: rng.bool() });
                        script.push(Op::Connect);
                        wire_garbage_in_session = false;
                    }
                    _ => script.push(Op::Repeat),
                }
            }
            script.push(Op::Sleep(match rng.below(4) {
                0 => 0,
                1 => rng.range(1, 50),
                2 => cfg.confirm_timeout_ms + 1,
                _ => rng.range(1, 7000),
            }));
        }
        // the probe: is it still serving?
        script.push(Op::Sleep(
            cfg.confirm_timeout_ms + cfg.unsol_retry_delay_ms + cfg.select_timeout_ms + 2000,
        ));
        if wire_garbage_in_session {
            if cfg.close_mode {
                script.push(Op::Disconnect { eof: false });
                script.push(Op::Connect);
            } else {
                // a resynchronising parser may be sitting on a partial frame: push it out with harmless frames
                let mut pad = Vec::new();
                for _ in 0..40 {
                    pad.extend(reflink::build_frame(&RefFrame {
                        ctrl: 0xC9,
                        dest: own,
                        src: master,
                        payload: Vec::new(),
                    }));
                }
                script.push(Op::WireBytes(pad));
                script.push(Op::Sleep(10));
            }
        }
        let _ = &mut connected;
        // "in whatever chunking": some requests arrive in two pieces with a wake-up of the outstation task in between
        crate::verif::props::gen_out::sprinkle_splits(rng, &mut script);
        script.push(Op::LinkStatusRequest);
        script.push(Op::Request {
            func: refapp::FUNC_DELAY_MEASURE,
            seq: SeqSel::Next,
            headers: vec![],
            flags: None,
            from: Who::Master,
            to: Dest::Own,
        });
        script.push(Op::Sleep(cfg.confirm_timeout_ms + 1000));
        SoutCase {
            cfg,
            ctrl: CtrlAnswers::Random {
                seed: rng.next_u64(),
                success_eighths: 6,
            },
            chunk: rng.below(5) as u8,
            chunk_seed: rng.next_u64(),
            script,
        }
    }

    fn shrink(&self, case: &SoutCase) -> Vec<SoutCase> {
        sout::shrink_case(case)
    }

    fn execute(&self, case: &SoutCase, log: bool) -> Outcome {
        sout::execute("C01", case, case.chunk_seed, log, |c| ProbeOracle::new(c))
    }
}

pub struct ProbeOracle {
    probe_link: Option<usize>,
    probe_app: Option<usize>,
    link_answered: bool,
    app_answered: bool,
    app_seq: Option<u8>,
    nontrivial: bool,
    fp: u64,
    busy: bool,
    counters: BTreeMap<String, u64>,
    confirm_timeout: u64,
    /// link-level garbage has reached the outstation on this connection (a later frame may be lost to resynchronisation)
    garbage_on_link: bool,
    /// a well-formed READ from the master that has not been answered yet: (sequence number, when it was sent)
    unanswered_read: Option<(u8, u64)>,
    /// application fragments sent to the outstation on this connection (the closing probe is not judged if it repeats one:
    /// a retransmission is answered like the original)
    sent_on_connection: Vec<Vec<u8>>,
    probe_repeats_earlier_fragment: bool,
}

impl ProbeOracle {
    pub fn new(case: &SoutCase) -> Self {
        // the probe is the last link status request and the DELAY_MEASURE right after it
        let n = case.script.len();
        let mut probe_link = None;
        let mut probe_app = None;
        if n >= 3 && outstation_epilogue_intact(case) {
            if let (Op::LinkStatusRequest, Op::Request { func: 23, .. }, Op::Sleep(_)) = (
                &case.script[n - 3],
                &case.script[n - 2],
                &case.script[n - 1],
            ) {
                probe_link = Some(n - 3);
                probe_app = Some(n - 2);
            }
        }
        Self {
            probe_link,
            probe_app,
            link_answered: false,
            app_answered: false,
            app_seq: None,
            nontrivial: false,
            fp: 0,
            busy: false,
            counters: BTreeMap::new(),
            confirm_timeout: case.cfg.confirm_timeout_ms,
            garbage_on_link: false,
            unanswered_read: None,
            sent_on_connection: Vec::new(),
            probe_repeats_earlier_fragment: false,
        }
    }
}

impl Oracle for ProbeOracle {
    fn step(&mut self, world: &World, step: &Step) -> Option<Violation> {
        // "never stalls": a well-formed READ from the configured master is answered at once, or - when it arrives while an
        // unsolicited response awaits its confirmation - when that wait ends, one confirm time-out after the unsolicited response
        // was sent at the latest, whatever else the peer sends in the meantime that is not a request (judged while only
        // confirmations and pauses follow the READ on a connection that has seen no link-level garbage)
        if step.connected || step.disconnected {
            self.garbage_on_link = false;
            self.unanswered_read = None;
            self.sent_on_connection.clear();
        }
        if let Some(sent) = &step.sent {
            if Some(step.op_index) == self.probe_app.map(|i| i + 1) && self.sent_on_connection.contains(&sent.bytes) {
                self.probe_repeats_earlier_fragment = true;
            }
            self.sent_on_connection.push(sent.bytes.clone());
        }
        match &step.op {
            Op::WireBytes(_) => {
                self.garbage_on_link = true;
                self.unanswered_read = None;
            }
            Op::Request { func: 1, flags: None, from: Who::Master, to: Dest::Own, .. }
                if step.link_up && !self.garbage_on_link && step.sent.is_some() =>
            {
                let seq = step.sent.as_ref().and_then(|s| s.bytes.first().map(|c| c & 0x0F)).unwrap_or(0);
                self.unanswered_read = Some((seq, step.t_start));
            }
            Op::Confirm { .. } | Op::Sleep(_) | Op::SleepRel { .. } => {}
            _ => self.unanswered_read = None,
        }
        if let Some((seq, t0)) = self.unanswered_read {
            let answered = step.received.iter().any(|f| {
                f.bytes.len() >= 4 && f.bytes[1] == 129 && f.bytes[0] & 0x9F == 0x80 | seq
            });
            if answered {
                self.unanswered_read = None;
                *self.counters.entry("probe.read_answered_in_time".to_string()).or_insert(0) += 1;
            } else if step.t_end > t0 + self.confirm_timeout + 50 {
                return Some(Violation::new(
                    "C01/outstation-stalled",
                    "read-not-answered-within-a-confirm-timeout",
                    format!(
                        "step {}: the READ (seq {}) sent at {} ms had not been answered by {} ms (confirm time-out {} ms) although only confirmations and pauses followed it",
                        step.op_index, seq, t0, step.t_end, self.confirm_timeout
                    ),
                ));
            }
        }
        // track whether the outstation is in the middle of something when hostile input arrives
        let hostile = matches!(step.op, Op::Raw { .. } | Op::WireBytes(_) | Op::Repeat)
            || matches!(&step.op, Op::Request { flags: Some(_), .. });
        if hostile
            && (self.busy || world.sol_confirm_seq.is_some() || world.unsol_confirm_seq.is_some())
        {
            self.nontrivial = true;
            *self
                .counters
                .entry("probe.hostile_input_while_busy".to_string())
                .or_insert(0) += 1;
        }
        if hostile {
            *self
                .counters
                .entry("probe.hostile_inputs".to_string())
                .or_insert(0) += 1;
        }
        self.busy = step
            .received
            .iter()
            .any(|f| f.bytes.first().map(|c| c & 0x20 != 0).unwrap_or(false));
        self.fp = mix(&[
            self.fp,
            match &step.op {
                Op::Raw { bytes, .. } => 100 + bytes.get(1).copied().unwrap_or(0) as u64,
                Op::WireBytes(_) => 2,
                Op::Request { func, .. } => 300 + *func as u64,
                Op::Disconnect { .. } => 4,
                _ => 0,
            },
            self.busy as u64,
        ]);
        // the probe: the last link status request and the last plain DELAY_MEASURE of the script
        if self.probe_link.is_some() {
            if matches!(step.op, Op::LinkStatusRequest) {
                self.link_answered = false;
            }
            if step.link_frames.iter().any(|(_, f)| f.ctrl & 0x4F == 0x0B) {
                self.link_answered = true;
            }
            if let Op::Request {
                func: 23,
                flags: None,
                from: Who::Master,
                to: Dest::Own,
                headers,
                ..
            } = &step.op
            {
                if headers.is_empty() {
                    self.app_seq = step
                        .sent
                        .as_ref()
                        .and_then(|s| s.bytes.first().map(|c| c & 0x0F));
                    self.app_answered = false;
                }
            }
            if let Some(seq) = self.app_seq {
                // the answer to DELAY_MEASURE: a solicited response with that sequence number carrying g52v2
                if step.received.iter().any(|f| {
                    f.bytes.len() >= 6
                        && f.bytes[1] == 129
                        && f.bytes[0] & 0x0F == seq
                        && f.bytes[0] & 0x10 == 0
                        && f.bytes[4] == 52
                }) {
                    self.app_answered = true;
                }
            }
        }
        None
    }

    fn finish(&mut self, _world: &World) -> Option<Violation> {
        if self.probe_link.is_none() {
            return None;
        }
        *self
            .counters
            .entry("probe.serving_probe_evaluated".to_string())
            .or_insert(0) += 1;
        if !self.link_answered {
            return Some(Violation::new(
                "C01/outstation-stopped-serving",
                "link-status",
                "after the hostile input had stopped and every timeout had lapsed, a link status request was not answered".to_string(),
            ));
        }
        if !self.app_answered && self.probe_repeats_earlier_fragment {
            *self.counters.entry("probe.closing_probe_was_a_retransmission".to_string()).or_insert(0) += 1;
        } else if !self.app_answered {
            return Some(Violation::new(
                "C01/outstation-stopped-serving",
                "request",
                "after the hostile input had stopped and every timeout had lapsed, a well-formed DELAY_MEASURE request was not answered".to_string(),
            ));
        }
        None
    }

    fn nontrivial(&self) -> bool {
        self.nontrivial
    }

    fn fingerprint(&self) -> u64 {
        self.fp
    }

    fn counters(&self) -> Vec<(String, u64)> {
        self.counters.iter().map(|(k, v)| (k.clone(), *v)).collect()
    }
}

// ---------------------------------------------------------------------------------------------------------------------
// hostile outstations against the real master

impl Scenario for HostileOutstation {
    type Case = SmastCase;

    fn name(&self) -> &'static str {
        "master"
    }

    fn runs(&self, tier: Tier) -> u64 {
        match tier {
            Tier::Quick => 30_000,
            Tier::Thorough => 800_000,
        }
    }

    fn rule(&self) -> String {
        "hostile outstations against the real master over the real link and transport layers: while a read (single or multi-fragment), command, \
         time synchronisation, restart, file transfer, start-up task or poll is outstanding and while the master is idle, the peer sends responses and \
         unsolicited responses with mutated or extreme object headers, arbitrary application octets inside valid framing, wrong function codes and flags, \
         and link-level garbage (random octets, bad CRCs, frames cut short); every chunking and latency; decode levels none / everything; both link error \
         modes. At the end of every run a user read that is answered faithfully must succeed (after the automatic reconnect when the session was ended). \
         non-trivial = hostile input arrived while a task was outstanding; distinct = hash of (task kinds, input classes)"
            .to_string()
    }

    fn real_components(&self) -> Vec<&'static str> {
        vec![
            "master::task / association / tasks::* / extract",
            "tcp::client::ClientTask",
            "transport::real",
            "link::layer / reader / parser",
            "app::parse (Display at every decode level)",
        ]
    }

    fn stub_components(&self) -> Vec<&'static str> {
        vec![
            "TCP sockets (H3)",
            "hostile outstations (reference codec + mutators)",
            "user callbacks (recording stubs)",
        ]
    }

    fn generate(&self, rng: &mut Rng, _tier: Tier) -> SmastCase {
        let mut cfg = MasterCfg::basic();
        cfg.close_mode = rng.bool();
        cfg.decode_all = rng.chance(1, 3);
        // "any legal buffer-size configuration ... in both roles" (the master's receive buffer cannot be smaller than 2048)
        cfg.rx = *rng.pick(&[0usize, 0, 2048, 4096]);
        cfg.tx = *rng.pick(&[2048usize, 2048, 249, 512]);
        cfg.reconnect_ms = 100;
        cfg.connect_min_ms = 100;
        cfg.connect_max_ms = 1000;
        let timeout = *rng.pick(&[500u64, 1000, 2000]);
        let mut a = AssocCfg::quiet(1024);
        a.response_timeout_ms = timeout;
        if rng.chance(1, 3) {
            a.startup_integrity = 0x0F;
            a.disable_unsol = 7;
            a.enable_unsol = 7;
            a.auto_time_sync = rng.below(3) as u8;
            a.event_scan = *rng.pick(&[0u8, 7]);
            a.retry_min_ms = 500;
            a.retry_max_ms = 1000;
        }
        a.keep_alive_ms = *rng.pick(&[None, None, Some(2000u64)]);
        cfg.assocs = vec![a];
        if rng.chance(1, 4) {
            let mut b = AssocCfg::quiet(1025);
            b.response_timeout_ms = timeout;
            cfg.assocs.push(b);
        }
        let mut script = vec![MOp::Enable, MOp::Sleep(rng.range(0, 20))];
        if rng.chance(1, 3) {
            script.push(MOp::AddPoll {
                assoc: 0,
                classes: 7,
                period_ms: 700,
            });
        }
        let mut wire = false;
        let rounds = rng.urange(3, 12);
        for _ in 0..rounds {
            // something for the master to be busy with
            match rng.below(8) {
                0 | 1 => {
                    if rng.bool() {
                        let n = rng.urange(2, 4);
                        script.push(MOp::ReadShape {
                            assoc: 0,
                            fragments: (0..n).map(|_| rng.range(1, 4) as u8).collect(),
                        });
                    }
                    script.push(MOp::User {
                        assoc: 0,
                        kind: UserKind::ReadClasses(0x0F),
                    });
                }
                2 => script.push(MOp::User {
                    assoc: 0,
                    kind: crate::verif::props::c16::gen_command(rng),
                }),
                3 => script.push(MOp::User {
                    assoc: 0,
                    kind: UserKind::TimeSync(rng.range(1, 3) as u8),
                }),
                4 => script.push(MOp::User {
                    assoc: 0,
                    kind: UserKind::FileRead {
                        blocks: rng.range(1, 3) as u8,
                        block_size: rng.range(1, 30) as u8,
                        abort_at: None,
                        auth: rng.chance(1, 3),
                    },
                }),
                5 => script.push(MOp::User {
                    assoc: 0,
                    kind: UserKind::Restart { cold: rng.bool() },
                }),
                _ => {}
            }
            if rng.chance(1, 2) {
                script.push(MOp::Sleep(rng.range(0, 30)));
            }
            let burst = rng.urange(1, 4);
            for _ in 0..burst {
                let src = if rng.chance(1, 8) { rng.u16() } else { 1024 };
                match rng.below(12) {
                    0 | 1 => {
                        // a response-shaped fragment with extreme objects
                        let func = *rng.pick(&[129u8, 129, 130, 131, 0, 1]);
                        let ctrl = (rng.below(16) as u8) << 4 | rng.below(16) as u8;
                        let mut bytes = vec![
                            if rng.bool() {
                                0xC0 | (ctrl & 0x0F)
                            } else {
                                ctrl
                            },
                            func,
                            *rng.pick(&[0u8, 0x80, 0x10, 0xFF]),
                            *rng.pick(&[0u8, 0x08, 0x07, 0xFF]),
                        ];
                        bytes.extend(gen_extreme_objects(rng, true));
                        script.push(MOp::Raw { src, bytes });
                    }
                    2 => {
                        let n = rng.urange(0, 2048);
                        script.push(MOp::Raw {
                            src,
                            bytes: rng.bytes(n),
                        });
                    }
                    3 | 4 => {
                        // the next replies are the right ones, damaged
                        let replies = (0..rng.urange(1, 3))
                            .map(|_| match rng.below(6) {
                                0 => Reply::Objects(gen_extreme_objects(rng, true)),
                                1 => Reply::Truncate(rng.urange(0, 30)),
                                2 => Reply::Flags((rng.below(16) as u8) << 4),
                                3 => Reply::Func(rng.u8()),
                                4 => Reply::Iin(rng.u8(), rng.u8()),
                                _ => {
                                    let n = rng.urange(0, 300);
                                    Reply::Objects(rng.bytes(n))
                                }
                            })
                            .collect();
                        script.push(MOp::Replies { assoc: 0, replies });
                    }
                    5 | 6 => {
                        script.push(MOp::Wire(gen_wire_garbage(rng, 1, 1024, false)));
                        wire = true;
                    }
                    7 => script.push(MOp::Unsol {
                        assoc: 0,
                        seq: rng.below(16) as u8,
                        data: rng.bool(),
                        con: rng.bool(),
                    }),
                    8 => {
                        // an unsolicited response with hostile objects
                        let mut bytes = vec![0xF0 | rng.below(16) as u8, 130, 0, 0];
                        bytes.extend(gen_extreme_objects(rng, true));
                        script.push(MOp::Raw { src, bytes });
                    }
                    9 => script.push(MOp::Cut { eof: rng.bool() }),
                    _ => {
                        // a mutated faithful-looking response
                        let base = vec![
                            0xC0 | rng.below(16) as u8,
                            129,
                            0,
                            0,
                            30,
                            1,
                            0x00,
                            0,
                            1,
                            0x01,
                            1,
                            0,
                            0,
                            0,
                            0x01,
                            2,
                            0,
                            0,
                            0,
                        ];
                        script.push(MOp::Raw {
                            src,
                            bytes: mutate(rng, &base),
                        });
                    }
                }
            }
            script.push(MOp::Sleep(match rng.below(4) {
                0 => 0,
                1 => rng.range(1, 50),
                2 => timeout + 1,
                _ => rng.range(1, 3000),
            }));
        }
        // the probe
        script.push(MOp::ClearReplies);
        script.push(MOp::SetIin {
            assoc: 0,
            iin1: 0,
            iin2: 0,
        });
        // "in whatever chunking": some fragments arrive in two pieces with a channel message reaching the master in between
        crate::verif::smast::sprinkle_split_replies(rng, &mut script);
        script.push(MOp::Sleep(timeout * 8 + 6000));
        if wire {
            // a parser sitting on a frame that was cut short takes what follows for its body: push it to its verdict
            // (resynchronisation in Discard mode, end of the session and reconnect in Close mode)
            script.push(MOp::LinkPadding { assoc: 0, n: 40 });
        }
        script.push(MOp::Sleep(timeout * 8 + 3000));
        script.push(MOp::ReadShape {
            assoc: 0,
            fragments: vec![2],
        });
        script.push(MOp::User {
            assoc: 0,
            kind: UserKind::ReadClasses(0x01),
        });
        SmastCase {
            cfg,
            chunk: rng.below(5) as u8,
            chunk_seed: rng.next_u64(),
            latency: if rng.chance(1, 3) {
                (rng.below(30), rng.below(30))
            } else {
                (0, 0)
            },
            script,
            tail_ms: 30_000,
        }
    }

    fn shrink(&self, case: &SmastCase) -> Vec<SmastCase> {
        smast::shrink_case(case)
    }

    fn execute(&self, case: &SmastCase, log: bool) -> Outcome {
        smast::execute("C01", case, log, analyse_master)
    }
}

pub fn analyse_master(
    case: &SmastCase,
    run: &MastRun,
) -> (Option<Violation>, bool, u64, Vec<(String, u64)>) {
    use crate::verif::models::mast_hist::{master_time_history, H};
    let hist = master_time_history(case, run);
    let mut counters: BTreeMap<String, u64> = BTreeMap::new();
    let mut violation = None;
    // the probe is the last user request of the script
    let n = case.script.len();
    let timeout = case
        .cfg
        .assocs
        .first()
        .map(|a| a.response_timeout_ms)
        .unwrap_or(1000);
    let probe = match case.script.last() {
        Some(MOp::User {
            kind: UserKind::ReadClasses(0x01),
            ..
        }) if n >= 2
            && matches!(case.script[n - 2], MOp::ReadShape { .. })
            && master_epilogue_intact(&case.script, timeout) =>
        {
            run.user_kinds.last().map(|u| u.0)
        }
        _ => None,
    };
    let mut running = 0i32;
    let mut nontrivial = false;
    let mut fp = 0u64;
    // never stalls: whatever the peer sends, a task ends no later than one response timeout after its last own progress
    // (a request written, a response fragment accepted)
    let mut progress: BTreeMap<u16, u64> = BTreeMap::new();
    let timeout_of = |a: u16| {
        case.cfg
            .assocs
            .iter()
            .find(|x| x.address == a)
            .map(|x| x.response_timeout_ms)
            .unwrap_or(1000)
    };
    for (_, h) in &hist {
        match h {
            H::TaskStart { func, assoc, t, .. } => {
                running += 1;
                fp = mix(&[fp, *func as u64]);
                progress.insert(*assoc, *t);
            }
            H::Request { dest, t, .. } => {
                if let Some(p) = progress.get_mut(dest) {
                    *p = (*p).max(t.saturating_sub(case.latency.0));
                }
            }
            H::End { assoc, t, .. } => {
                if let Some(p) = progress.get_mut(assoc) {
                    *p = (*p).max(*t);
                }
            }
            H::File { t, .. } => {
                // a file block handed to the reader is progress of the transfer task (single association scripts)
                for p in progress.values_mut() {
                    *p = (*p).max(*t);
                }
            }
            H::TaskSuccess { assoc, t, .. } | H::TaskFail { assoc, t, .. } => {
                running = (running - 1).max(0);
                if let Some(p) = progress.remove(assoc) {
                    let limit = p + timeout_of(*assoc) + 2;
                    if *t > limit && violation.is_none() {
                        violation = Some(Violation::new(
                            "C01/master-task-stalled",
                            "",
                            format!(
                                "a task of association {} made its last progress at {} ms (response timeout {} ms) but only ended at {} ms while the peer kept sending",
                                assoc,
                                p,
                                timeout_of(*assoc),
                                t
                            ),
                        ));
                    }
                }
            }
            H::Client { .. } => {
                running = 0;
                progress.clear();
            }
            H::MasterRx { bytes, .. } => {
                let hostile = refapp::decode_fragment(bytes).is_err()
                    || bytes.len() < 4
                    || !matches!(bytes[1], 129 | 130);
                if hostile {
                    *counters
                        .entry("probe.hostile_fragment_reached_the_application_layer".to_string())
                        .or_insert(0) += 1;
                    if running > 0 {
                        nontrivial = true;
                        *counters
                            .entry("probe.hostile_fragment_while_task_outstanding".to_string())
                            .or_insert(0) += 1;
                    }
                    fp = mix(&[
                        fp,
                        1000 + bytes.get(1).copied().unwrap_or(0) as u64,
                        (running > 0) as u64,
                    ]);
                }
            }
            _ => {}
        }
    }
    if let (Some(id), true) = (probe, violation.is_none()) {
        *counters
            .entry("probe.serving_probe_evaluated".to_string())
            .or_insert(0) += 1;
        let done = hist.iter().find_map(|(_, h)| match h {
            H::UserDone {
                id: x,
                ok,
                outcome,
                t,
            } if *x == id => Some((*ok, outcome.clone(), *t)),
            _ => None,
        });
        match done {
            Some((true, _, _)) => {}
            Some((false, outcome, t)) => {
                violation = Some(Violation::new(
                    "C01/master-stopped-serving",
                    outcome.split('(').next().unwrap_or("").to_string(),
                    format!("after the hostile input had stopped and every timeout had lapsed, a user read answered faithfully failed with {} at {} ms", outcome, t),
                ));
            }
            None => {
                violation = Some(Violation::new(
                    "C01/master-stopped-serving",
                    "no-outcome",
                    "after the hostile input had stopped and every timeout had lapsed, a user read never completed".to_string(),
                ));
            }
        }
    }
    let out: Vec<(String, u64)> = counters.into_iter().collect();
    (violation, nontrivial, fp, out)
}

/// the probe only says something if the script still ends the way the generator ends it (the minimiser removes operations):
/// reply policies cleared, indications cleared, a long pause, padding after any link-level garbage, another long pause
fn master_epilogue_intact(script: &[MOp], timeout: u64) -> bool {
    let n = script.len();
    if n < 6 {
        return false;
    }
    let last_wire = script.iter().rposition(|o| matches!(o, MOp::Wire(_)));
    // walk back from the probe
    let mut i = n - 3; // before ReadShape, User
    let long = |o: &MOp, min: u64| matches!(o, MOp::Sleep(ms) if *ms >= min);
    if !long(&script[i], timeout * 8 + 3000) {
        return false;
    }
    i -= 1;
    if last_wire.is_some() {
        if !matches!(script[i], MOp::LinkPadding { n, .. } if n >= 40) {
            return false;
        }
        if i == 0 {
            return false;
        }
        i -= 1;
    }
    if !long(&script[i], timeout * 8 + 6000) || i < 2 {
        return false;
    }
    if !matches!(
        script[i - 1],
        MOp::SetIin {
            iin1: 0,
            iin2: 0,
            ..
        }
    ) || !matches!(script[i - 2], MOp::ClearReplies)
    {
        return false;
    }
    // nothing hostile after the epilogue began
    match last_wire {
        Some(w) => w < i - 2,
        None => true,
    }
}

/// same for the outstation scenario: long pause, fresh session or padding after link-level garbage, link status request,
/// DELAY_MEASURE, pause
fn outstation_epilogue_intact(case: &SoutCase) -> bool {
    let s = &case.script;
    let n = s.len();
    if n < 4 {
        return false;
    }
    let cfg = &case.cfg;
    if !matches!(s[n - 1], Op::Sleep(ms) if ms >= cfg.confirm_timeout_ms + 1000) {
        return false;
    }
    if !matches!(&s[n - 2], Op::Request { func: 23, flags: None, from: Who::Master, to: Dest::Own, headers, .. } if headers.is_empty())
        || !matches!(s[n - 3], Op::LinkStatusRequest)
    {
        return false;
    }
    let mut i = n - 4;
    // link-level garbage since the last (re)connect?
    let pause = cfg.confirm_timeout_ms + cfg.unsol_retry_delay_ms + cfg.select_timeout_ms + 2000;
    let is_pad = |o: &Op| matches!(o, Op::WireBytes(b) if b.len() == 400 && b[..2] == [0x05, 0x64] && b[3] == 0xC9);
    let had_reconnect_or_pad;
    if matches!(s[i], Op::Sleep(10)) && i >= 1 && is_pad(&s[i - 1]) {
        had_reconnect_or_pad = true;
        if i < 2 {
            return false;
        }
        i -= 2;
    } else if matches!(s[i], Op::Connect) && i >= 1 && matches!(s[i - 1], Op::Disconnect { .. }) {
        had_reconnect_or_pad = true;
        if i < 2 {
            return false;
        }
        i -= 2;
    } else {
        had_reconnect_or_pad = false;
    }
    if !matches!(s[i], Op::Sleep(ms) if ms >= pause) {
        return false;
    }
    // garbage in the session the probe runs on needs the padding / the fresh session
    let last_connect = s[..i]
        .iter()
        .rposition(|o| matches!(o, Op::Connect))
        .unwrap_or(0);
    let garbage = s[last_connect..i]
        .iter()
        .any(|o| matches!(o, Op::WireBytes(_)));
    // the connection must be up
    let last_disc = s[..i]
        .iter()
        .rposition(|o| matches!(o, Op::Disconnect { .. }));
    let up = match last_disc {
        Some(d) => {
            s[d..i].iter().any(|o| matches!(o, Op::Connect))
                || had_reconnect_or_pad && matches!(s[n - 5], Op::Connect)
        }
        None => true,
    };
    let enabled = !s.iter().any(|o| matches!(o, Op::Disable));
    (had_reconnect_or_pad || !garbage)
        && up
        && enabled
        && s.iter().any(|o| matches!(o, Op::Connect))
}
