//! S-OUT engine: script language, driver and observation records shared by every property that is
//! decided against the real outstation (C03, C04, C05, C07-app, C11, C12, C13, C14, C01-out).
//!
//! A script is a list of `Op`s executed by the driver in virtual time against an `OutNode`; after
//! each op every other task is run until idle, then whatever the outstation transmitted and every
//! user callback it made is collected into a `Step`, which the property's oracle inspects.

use crate::outstation::database::UpdateInfo;
use crate::verif::io::{self, ChunkMode, CloseKind};
use crate::verif::kernel::Sim;
use crate::verif::nodes::outstation::{Cb, CtrlAnswers, OutCfg, OutNode, UpdateOp};
use crate::verif::nodes::peer::{PeerLink, RxFragment};
use crate::verif::refcodec::app::{self as refapp, Ctrl, ReqHeader};
use crate::verif::runner::Violation;
use serde::{Deserialize, Serialize};
use std::collections::VecDeque;
use std::sync::{Arc, Mutex};

#[derive(Clone, Debug, Serialize, Deserialize, PartialEq)]
pub enum SeqSel {
    /// the peer's running application sequence number (then incremented)
    Next,
    /// the sequence number used by the previous request (no increment)
    Same,
    /// a fixed value (the running counter continues from it)
    Fixed(u8),
}

#[derive(Clone, Debug, Serialize, Deserialize, PartialEq)]
pub enum ConfSel {
    /// the sequence number of the latest response (solicited or unsolicited per `uns`) that asked for confirmation
    Expected,
    /// expected + offset (mod 16)
    Offset(u8),
    Fixed(u8),
}

#[derive(Clone, Debug, Serialize, Deserialize, PartialEq)]
pub enum Who {
    Master,
    Foreign(u16),
}

#[derive(Clone, Debug, Serialize, Deserialize, PartialEq)]
pub enum Dest {
    Own,
    SelfAddr,
    Bcast(u16),
    Other(u16),
}

#[derive(Clone, Debug, Serialize, Deserialize, PartialEq)]
pub enum TimeBase {
    ConfirmTimeout,
    SelectTimeout,
    RetryDelay,
}

#[derive(Clone, Debug, Serialize, Deserialize, PartialEq)]
pub enum Op {
    Update(UpdateOp),
    /// apply the update at the (skip+1)-th coming database lock point whose site contains `site`
    UpdateAtLock {
        site: String,
        skip: u8,
        update: UpdateOp,
    },
    Request {
        func: u8,
        seq: SeqSel,
        headers: Vec<ReqHeader>,
        /// override of the FIR/FIN/CON/UNS bits (high nibble of the control octet)
        flags: Option<u8>,
        from: Who,
        to: Dest,
    },
    /// raw application fragment octets
    Raw {
        bytes: Vec<u8>,
        from: Who,
        to: Dest,
    },
    Confirm {
        uns: bool,
        seq: ConfSel,
        from: Who,
    },
    /// re-send the previous Request/Raw octets unchanged
    Repeat,
    /// a two-octet fragment with the next sequence number and a function code the outstation does not know, from the configured
    /// master: it is answered with an error and is not a request the outstation processes - a `Repeat` after it re-sends the
    /// request sent before it
    UnknownFunction(u8),
    Sleep(u64),
    /// sleep until `base + delta` after the reference instant (`since_last_tx`: last transmission of the outstation, else now)
    SleepRel {
        base: TimeBase,
        delta_ms: i64,
        since_last_tx: bool,
    },
    Disconnect {
        eof: bool,
    },
    Connect,
    SetAppIin(u8),
    /// `OutstationHandle::set_decode_level` (everything / nothing): a message on the outstation task's channel, which wakes the
    /// session loop wherever it is waiting
    SetDecodeLevel(bool),
    /// cancellation fault for the next `Request`: its link frame arrives in two pieces (cut after this many octets) and between
    /// them a channel message wakes the outstation task, which drops and recreates its pending read
    SplitNext(usize),
    LinkStatusRequest,
    /// raw octets on the wire (not framed)
    WireBytes(Vec<u8>),
    Disable,
    Enable,
}

#[derive(Clone, Debug, Serialize, Deserialize)]
pub struct SoutCase {
    pub cfg: OutCfg,
    pub ctrl: CtrlAnswers,
    pub chunk: u8,
    pub chunk_seed: u64,
    pub script: Vec<Op>,
}

/// one entry of the exact order of database critical sections and user transactions
#[derive(Clone, Debug, PartialEq)]
pub enum TL {
    /// the session is about to take the database lock at this site (site, world-wide order)
    Lock(&'static str, u64),
    /// a user transaction applied this update (at_lock = injected at a lock point)
    Update {
        op: UpdateOp,
        info: UpdateInfo,
        at_lock: bool,
        t_ms: u64,
        order: u64,
    },
}

#[derive(Clone, Debug)]
pub struct SentFragment {
    pub bytes: Vec<u8>,
    pub src: u16,
    pub dest: u16,
    pub t_ms: u64,
}

#[derive(Clone, Debug)]
pub struct Step {
    pub op_index: usize,
    pub op: Op,
    pub t_start: u64,
    pub t_end: u64,
    /// application fragment sent to the outstation by this op (if any)
    pub sent: Option<SentFragment>,
    /// fragments the outstation transmitted during this step, in order
    pub received: Vec<RxFragment>,
    /// user callbacks made during this step, in order
    pub callbacks: Vec<(u64, Cb)>,
    /// world-wide sequence numbers of `callbacks` (comparable with `RxFragment::order`)
    pub callback_orders: Vec<u64>,
    /// sequence number taken when the op's fragment was handed to the wire
    pub sent_order: u64,
    /// timeline entries added during this step
    pub timeline: Vec<TL>,
    /// link-level frames (non-data) written by the outstation during this step
    pub link_frames: Vec<(u64, crate::verif::refcodec::link::RefFrame)>,
    /// a new connection was established / the connection was cut in this step
    pub connected: bool,
    pub disconnected: bool,
    /// the connection was up when the op was executed (a fragment sent while down never arrives)
    pub link_up: bool,
}

/// The newest event id that existed when the session took the database lock to write the fragment transmitted at world
/// order `rx_order` in this step (`newest_before_step` = newest id before the step's transactions). `None` = the fragment was
/// not written in this step (a copy of an earlier one) or no event existed: no restriction.
pub fn newest_event_at_write(
    step: &Step,
    rx_order: u64,
    newest_before_step: Option<u64>,
) -> Option<u64> {
    let mut cur = newest_before_step;
    let mut at_write: Option<Option<u64>> = None;
    for tl in &step.timeline {
        match tl {
            TL::Update { info, order, .. } if *order < rx_order => match info {
                UpdateInfo::Created(id) => cur = Some(cur.map(|c| c.max(*id)).unwrap_or(*id)),
                UpdateInfo::Overflow { created, .. } => {
                    cur = Some(cur.map(|c| c.max(*created)).unwrap_or(*created))
                }
                _ => {}
            },
            TL::Lock(site, order)
                if *order < rx_order
                    && (*site == "write_unsolicited" || *site == "write_response_headers") =>
            {
                at_write = Some(cur)
            }
            _ => {}
        }
    }
    at_write.flatten()
}

pub trait Oracle {
    fn step(&mut self, world: &World, step: &Step) -> Option<Violation>;
    fn finish(&mut self, _world: &World) -> Option<Violation> {
        None
    }
    fn nontrivial(&self) -> bool;
    fn fingerprint(&self) -> u64;
    fn counters(&self) -> Vec<(String, u64)> {
        Vec::new()
    }
}

/// Splits a driver step at the user transactions that were injected at lock points in the middle of it, so that an oracle
/// which applies a step's transactions before looking at its callbacks and fragments sees everything in the order it
/// happened: every returned sub-step has its injected transactions at the front. The first sub-step keeps the operation
/// (and normally the fragment sent), later ones are empty waits; `connected` / `disconnected` go with the first.
pub fn split_at_lock_updates(step: &Step) -> Vec<Step> {
    let mut first_other: Option<u64> = None;
    let mut note = |o: u64| first_other = Some(first_other.map(|f: u64| f.min(o)).unwrap_or(o));
    for o in &step.callback_orders {
        note(*o);
    }
    for r in &step.received {
        note(r.order);
    }
    if step.sent.is_some() {
        note(step.sent_order);
    }
    // begin_confirm .. end_confirm brackets stay whole: the lock point of the clearing lies inside the bracket (the
    // application is told first, then the lock is taken), a transaction injected there counts as just before it
    let mut open: Option<u64> = None;
    let mut brackets: Vec<(u64, u64)> = Vec::new();
    for (i, (_, cb)) in step.callbacks.iter().enumerate() {
        let o = step.callback_orders.get(i).copied().unwrap_or(0);
        match cb {
            Cb::BeginConfirm => open = Some(o),
            Cb::EndConfirm { .. } => {
                if let Some(b) = open.take() {
                    brackets.push((b, o));
                }
            }
            _ => {}
        }
    }
    // a fragment is written (under the database lock) before it is transmitted, and other lock points lie in between
    // (get_events_info for the IIN): a transaction injected there happened after the fragment's contents were fixed, so it
    // counts as just after the transmission
    let mut write_windows: Vec<(u64, u64)> = Vec::new();
    for r in &step.received {
        let written = step
            .timeline
            .iter()
            .filter_map(|tl| match tl {
                TL::Lock(site, o)
                    if *o < r.order && (*site == "write_unsolicited" || *site == "write_response_headers") =>
                {
                    Some(*o)
                }
                _ => None,
            })
            .max();
        if let Some(w) = written {
            if !step.received.iter().any(|x| x.order > w && x.order < r.order) {
                write_windows.push((w, r.order));
            }
        }
    }
    // effective position of every injected transaction
    let effective = |order: u64| -> u64 {
        if let Some((b, _)) = brackets.iter().find(|(b, e)| order > *b && order < *e) {
            return *b;
        }
        if let Some((_, tx)) = write_windows.iter().find(|(w, tx)| order > *w && order < *tx) {
            return *tx + 1;
        }
        order
    };
    let mut cuts: Vec<u64> = Vec::new();
    for tl in &step.timeline {
        if let TL::Update { at_lock: true, order, .. } = tl {
            if first_other.map(|f| *order > f).unwrap_or(false) {
                cuts.push(effective(*order));
            }
        }
    }
    if cuts.is_empty() {
        return vec![step.clone()];
    }
    cuts.sort();
    cuts.dedup();
    let n = cuts.len() + 1;
    let part_of = |o: u64| cuts.iter().filter(|c| **c <= o).count();
    let mut out: Vec<Step> = (0..n)
        .map(|k| Step {
            op_index: step.op_index,
            op: if k == 0 { step.op.clone() } else { Op::Sleep(0) },
            t_start: step.t_start,
            t_end: step.t_end,
            sent: None,
            received: Vec::new(),
            callbacks: Vec::new(),
            callback_orders: Vec::new(),
            sent_order: step.sent_order,
            timeline: Vec::new(),
            link_frames: if k == 0 { step.link_frames.clone() } else { Vec::new() },
            // (the operation acts first, the outstation reacts: both marks belong to the first part)
            connected: k == 0 && step.connected,
            disconnected: k == 0 && step.disconnected,
            link_up: step.link_up,
        })
        .collect();
    if step.sent.is_some() {
        // what the peer sent stays visible to the parts that follow it (a release is judged against the CONFIRM that caused it)
        for k in part_of(step.sent_order)..n {
            out[k].sent = step.sent.clone();
        }
    }
    for r in &step.received {
        out[part_of(r.order)].received.push(r.clone());
    }
    for (i, cb) in step.callbacks.iter().enumerate() {
        let o = step.callback_orders.get(i).copied().unwrap_or(0);
        let k = part_of(o);
        out[k].callbacks.push(cb.clone());
        out[k].callback_orders.push(o);
    }
    for tl in &step.timeline {
        let o = match tl {
            TL::Lock(_, o) => *o,
            TL::Update { at_lock: true, order, .. } if first_other.map(|f| *order > f).unwrap_or(false) => {
                effective(*order)
            }
            TL::Update { order, .. } => *order,
        };
        out[part_of(o)].timeline.push(tl.clone());
    }
    out
}

/// runs a second oracle alongside the main one on the same history; `keep` selects (and may re-label) the second oracle's
/// violations that also violate the main property
pub struct WithSecond<A: Oracle, B: Oracle> {
    pub a: A,
    pub b: B,
    pub keep: fn(Violation) -> Option<Violation>,
}

impl<A: Oracle, B: Oracle> Oracle for WithSecond<A, B> {
    fn step(&mut self, world: &World, step: &Step) -> Option<Violation> {
        let va = self.a.step(world, step);
        let vb = self.b.step(world, step);
        va.or_else(|| vb.and_then(self.keep))
    }
    fn finish(&mut self, world: &World) -> Option<Violation> {
        let va = self.a.finish(world);
        let vb = self.b.finish(world);
        va.or_else(|| vb.and_then(self.keep))
    }
    fn nontrivial(&self) -> bool {
        self.a.nontrivial()
    }
    fn fingerprint(&self) -> u64 {
        self.a.fingerprint()
    }
    fn counters(&self) -> Vec<(String, u64)> {
        self.a.counters()
    }
}

struct LockQueue {
    pending: VecDeque<(String, u8, UpdateOp)>,
    /// how many pending entries were queued before the operation now running (they have had their chance when it ends)
    aged: usize,
    timeline: Vec<TL>,
    tracker: crate::verif::nodes::outstation::StaticTracker,
}

/// driver state visible to oracles
pub struct World {
    pub cfg: OutCfg,
    pub app_seq: u8,
    pub last_req_seq: u8,
    pub last_request: Option<(Vec<u8>, u16, u16)>,
    /// seq of the latest solicited response asking for confirmation (and whether still unanswered)
    pub sol_confirm_seq: Option<u8>,
    pub unsol_confirm_seq: Option<u8>,
    pub last_tx_ms: u64,
    pub session_no: u32,
    pub steps_done: usize,
}

pub struct RunSummary {
    pub violation: Option<Violation>,
    pub steps: usize,
}

fn resolve_dest(cfg: &OutCfg, d: &Dest) -> u16 {
    match d {
        Dest::Own => cfg.outstation_addr,
        Dest::SelfAddr => 0xFFFC,
        Dest::Bcast(a) => *a,
        Dest::Other(a) => *a,
    }
}

fn resolve_src(cfg: &OutCfg, w: &Who) -> u16 {
    match w {
        Who::Master => cfg.master_addr,
        Who::Foreign(a) => *a,
    }
}

/// run a script against a fresh outstation; the oracle is consulted after every op
pub async fn drive(sim: &Sim, case: &SoutCase, oracle: &mut dyn Oracle) -> RunSummary {
    let mut node = OutNode::start(sim, &case.cfg, case.ctrl.clone());
    let chunk = ChunkMode::from_index(case.chunk as u64);
    let mut peer = PeerLink::new(true);
    let lockq: Arc<Mutex<LockQueue>> = Arc::new(Mutex::new(LockQueue {
        pending: VecDeque::new(),
        aged: 0,
        timeline: Vec::new(),
        tracker: crate::verif::nodes::outstation::StaticTracker::new(&node.cfg),
    }));
    {
        let lockq = lockq.clone();
        let db = node.handle.get_database_handle();
        sim.set_lock_hook(Box::new(move |site| {
            if site == "transaction" {
                return;
            }
            let mut q = lockq.lock().unwrap();
            // apply every queued update whose turn has come (they run before the session takes the lock,
            // so they precede the Lock entry in the timeline)
            let mut i = 0;
            while i < q.pending.len() {
                let matches = q.pending[i].0.is_empty() || site.contains(q.pending[i].0.as_str());
                if matches {
                    if q.pending[i].1 == 0 {
                        let (_, _, op) = q.pending.remove(i).unwrap();
                        if i < q.aged {
                            q.aged -= 1;
                        }
                        let (op, info) = { let tr = &mut q.tracker; db.transaction(|d| tr.apply(&op, d)) };
                        let t = crate::verif::kernel::current()
                            .map(|c| c.now_ms())
                            .unwrap_or(0);
                        if let Some(core) = crate::verif::kernel::current() {
                            core.count("fault.update_at_lock_point", 1);
                            if core.log_enabled() {
                                core.log(format!(
                                    "  user transaction at lock point '{}': {:?} -> {:?}",
                                    site, op, info
                                ));
                            }
                        }
                        let order = crate::verif::kernel::current()
                            .map(|c| c.next_order())
                            .unwrap_or(0);
                        q.timeline.push(TL::Update {
                            op,
                            info,
                            at_lock: true,
                            t_ms: t,
                            order,
                        });
                        continue;
                    } else {
                        q.pending[i].1 -= 1;
                    }
                }
                i += 1;
            }
            let order = crate::verif::kernel::current()
                .map(|c| c.next_order())
                .unwrap_or(0);
            q.timeline.push(TL::Lock(site, order));
        }));
    }

    let mut world = World {
        cfg: case.cfg.clone(),
        app_seq: 0,
        last_req_seq: 0,
        last_request: None,
        sol_confirm_seq: None,
        unsol_confirm_seq: None,
        last_tx_ms: 0,
        session_no: 0,
        steps_done: 0,
    };

    // initial connection
    node.connect(chunk, case.chunk_seed).await;
    world.session_no = 1;
    sim.settle().await;

    let mut cb_seen = 0usize;
    let mut link_seen = 0usize;
    let mut violation = None;
    let mut split_next: Option<usize> = None;

    // a synthetic step 0 captures what happens right after the connection (e.g. the null unsolicited response)
    let mut ops: Vec<Op> = Vec::with_capacity(case.script.len() + 1);
    ops.push(Op::Sleep(0));
    ops.extend(case.script.iter().cloned());

    for (i, op) in ops.iter().enumerate() {
        let t_start = sim.now_ms();
        let link_up = node.connected;
        let sent_order = sim.core().next_order();
        let mut sent = None;
        let mut connected = i == 0;
        let mut disconnected = false;
        // leftovers queued for lock points that never came are applied now (a timed user actor)
        {
            // (an update queued by the operation just before this one has not had an operation to fire in yet: it stays)
            let leftovers: Vec<(String, u8, UpdateOp)> = {
                let mut q = lockq.lock().unwrap();
                let n = q.aged.min(q.pending.len());
                let out: Vec<_> = q.pending.drain(..n).collect();
                q.aged = q.pending.len();
                out
            };
            for (_, _, u) in leftovers {
                let (u, info) = { let mut q = lockq.lock().unwrap(); let tr = &mut q.tracker; node.handle.transaction(|d| tr.apply(&u, d)) };
                sim.log(|| format!("user transaction (queued for a lock point that did not come): {:?} -> {:?}", u, info));
                lockq.lock().unwrap().timeline.push(TL::Update {
                    op: u,
                    info,
                    at_lock: false,
                    t_ms: sim.now_ms(),
                    order: sim.core().next_order(),
                });
            }
        }
        match op {
            Op::Update(u) => {
                let (u, info) = { let mut q = lockq.lock().unwrap(); let tr = &mut q.tracker; node.handle.transaction(|d| tr.apply(u, d)) };
                sim.log(|| format!("user transaction: {:?} -> {:?}", u, info));
                lockq.lock().unwrap().timeline.push(TL::Update {
                    op: u.clone(),
                    info,
                    at_lock: false,
                    t_ms: sim.now_ms(),
                    order: sim.core().next_order(),
                });
            }
            Op::UpdateAtLock { site, skip, update } => {
                lockq
                    .lock()
                    .unwrap()
                    .pending
                    .push_back((site.clone(), *skip, update.clone()));
            }
            Op::Request {
                func,
                seq,
                headers,
                flags,
                from,
                to,
            } => {
                let s = match seq {
                    SeqSel::Next => {
                        let s = world.app_seq;
                        world.app_seq = (world.app_seq + 1) & 0x0F;
                        s
                    }
                    SeqSel::Same => world.last_req_seq,
                    SeqSel::Fixed(x) => {
                        world.app_seq = (x + 1) & 0x0F;
                        x & 0x0F
                    }
                };
                world.last_req_seq = s;
                let mut ctrl = Ctrl::request(s);
                if let Some(f) = flags {
                    ctrl = Ctrl::from_u8((f & 0xF0) | s);
                }
                let bytes = refapp::build_request(ctrl, *func, headers);
                let src = resolve_src(&world.cfg, from);
                let dest = resolve_dest(&world.cfg, to);
                match split_next.take() {
                    Some(cut) if node.connected => {
                        let wire = peer.encode_fragment(src, dest, &bytes);
                        let cut = cut.clamp(1, wire.len().saturating_sub(1).max(1));
                        io::chan_push(&node.to_out, sim.now_ms(), wire[..cut].to_vec());
                        sim.settle().await;
                        let mut h = node.handle.clone();
                        let level = node.cfg.to_config().decode_level;
                        // two ways of waking the session loop: a message on its channel and the database change notification
                        // (an empty transaction changes nothing and notifies all the same)
                        sim.spawn("wake-while-frame-is-partial", async move {
                            let _ = h.set_decode_level(level).await;
                        });
                        sim.settle().await;
                        node.handle.transaction(|_| ());
                        sim.settle().await;
                        io::chan_push(&node.to_out, sim.now_ms(), wire[cut..].to_vec());
                        world.last_request = Some((bytes.to_vec(), src, dest));
                        sim.count("fault.read_future_cancelled");
                        sim.log(|| format!("peer({}) -> {} fragment in two pieces (cut {}) with a wake-up in between: {}", src, dest, cut, io::hex(&bytes)));
                    }
                    _ => send_fragment(sim, &mut node, &mut peer, &mut world, &bytes, src, dest),
                }
                sent = Some(SentFragment {
                    bytes,
                    src,
                    dest,
                    t_ms: sim.now_ms(),
                });
            }
            Op::SplitNext(cut) => split_next = Some(*cut),
            Op::UnknownFunction(func) => {
                let s = world.app_seq;
                world.app_seq = (world.app_seq + 1) & 0x0F;
                let bytes = vec![0xC0 | s, *func];
                let (src, dest) = (world.cfg.master_addr, world.cfg.outstation_addr);
                let keep = world.last_request.clone();
                send_fragment(sim, &mut node, &mut peer, &mut world, &bytes, src, dest);
                world.last_request = keep;
                sent = Some(SentFragment {
                    bytes,
                    src,
                    dest,
                    t_ms: sim.now_ms(),
                });
            }
            Op::Raw { bytes, from, to } => {
                let src = resolve_src(&world.cfg, from);
                let dest = resolve_dest(&world.cfg, to);
                if !bytes.is_empty() {
                    world.last_req_seq = bytes[0] & 0x0F;
                }
                send_fragment(sim, &mut node, &mut peer, &mut world, bytes, src, dest);
                sent = Some(SentFragment {
                    bytes: bytes.clone(),
                    src,
                    dest,
                    t_ms: sim.now_ms(),
                });
            }
            Op::Confirm { uns, seq, from } => {
                let expected = if *uns {
                    world.unsol_confirm_seq
                } else {
                    world.sol_confirm_seq
                }
                .unwrap_or(0);
                let s = match seq {
                    ConfSel::Expected => expected,
                    ConfSel::Offset(o) => (expected + o) & 0x0F,
                    ConfSel::Fixed(x) => x & 0x0F,
                };
                let bytes = refapp::build_confirm(*uns, s);
                let src = resolve_src(&world.cfg, from);
                let dest = world.cfg.outstation_addr;
                let wire = peer.encode_fragment(src, dest, &bytes);
                io::chan_push(&node.to_out, sim.now_ms(), wire);
                sim.log(|| {
                    format!(
                        "peer -> outstation CONFIRM uns={} seq={} from {}",
                        uns, s, src
                    )
                });
                sent = Some(SentFragment {
                    bytes,
                    src,
                    dest,
                    t_ms: sim.now_ms(),
                });
            }
            Op::Repeat => {
                if let Some((bytes, src, dest)) = world.last_request.clone() {
                    let wire = peer.encode_fragment(src, dest, &bytes);
                    io::chan_push(&node.to_out, sim.now_ms(), wire);
                    sim.log(|| {
                        format!(
                            "peer -> outstation REPEAT of previous request ({} octets)",
                            bytes.len()
                        )
                    });
                    sim.count("fault.dup_msg");
                    sent = Some(SentFragment {
                        bytes,
                        src,
                        dest,
                        t_ms: sim.now_ms(),
                    });
                }
            }
            Op::Sleep(ms) => {
                if *ms > 0 {
                    sim.sleep_ms(*ms).await;
                }
            }
            Op::SleepRel {
                base,
                delta_ms,
                since_last_tx,
            } => {
                let b = match base {
                    TimeBase::ConfirmTimeout => world.cfg.confirm_timeout_ms,
                    TimeBase::SelectTimeout => world.cfg.select_timeout_ms,
                    TimeBase::RetryDelay => world.cfg.unsol_retry_delay_ms,
                } as i64;
                let reference = if *since_last_tx {
                    world.last_tx_ms
                } else {
                    sim.now_ms()
                } as i64;
                let target = reference + b + delta_ms;
                let now = sim.now_ms() as i64;
                if target > now {
                    sim.sleep_ms((target - now) as u64).await;
                }
            }
            Op::Disconnect { eof } => {
                if node.connected {
                    node.disconnect(if *eof {
                        CloseKind::Eof
                    } else {
                        CloseKind::Reset
                    });
                    peer.reset();
                    disconnected = true;
                    sim.count("fault.cut");
                    sim.log(|| "connection cut".to_string());
                }
            }
            Op::Connect => {
                if node.connected {
                    // a new accept pre-empts the running session; the old connection is dropped by the server
                    sim.count("fault.preempt");
                    disconnected = true;
                }
                node.connect(chunk, case.chunk_seed.wrapping_add(world.session_no as u64))
                    .await;
                peer.reset();
                world.session_no += 1;
                world.sol_confirm_seq = None;
                world.unsol_confirm_seq = None;
                connected = true;
                sim.log(|| "new connection".to_string());
            }
            Op::SetAppIin(bits) => {
                let mut r = node.rec.lock().unwrap();
                r.app_iin.need_time = bits & 1 != 0;
                r.app_iin.local_control = bits & 2 != 0;
                r.app_iin.device_trouble = bits & 4 != 0;
                r.app_iin.config_corrupt = bits & 8 != 0;
            }
            Op::SetDecodeLevel(all) => {
                let mut h = node.handle.clone();
                let level = if *all {
                    crate::decode::DecodeLevel::new(
                        crate::decode::AppDecodeLevel::ObjectValues,
                        crate::decode::TransportDecodeLevel::Payload,
                        crate::decode::LinkDecodeLevel::Payload,
                        crate::decode::PhysDecodeLevel::Data,
                    )
                } else {
                    crate::decode::DecodeLevel::nothing()
                };
                sim.spawn("set-decode-level", async move {
                    let _ = h.set_decode_level(level).await;
                });
                sim.count("fault.channel_message_while_waiting");
            }
            Op::LinkStatusRequest => {
                let wire = peer
                    .encode_link_status_request(world.cfg.master_addr, world.cfg.outstation_addr);
                io::chan_push(&node.to_out, sim.now_ms(), wire);
            }
            Op::WireBytes(b) => {
                io::chan_push(&node.to_out, sim.now_ms(), b.clone());
                sim.count("fault.noise");
            }
            Op::Disable => {
                let mut h = node.handle.clone();
                let _ = h.disable().await;
                sim.count("fault.disable");
            }
            Op::Enable => {
                let mut h = node.handle.clone();
                let _ = h.enable().await;
            }
        }
        sim.settle().await;

        // collect observations
        let received = if node.connected || disconnected {
            peer.poll(&node.from_out)
        } else {
            Vec::new()
        };
        for r in &received {
            world.last_tx_ms = r.t_ms;
            if let Some(f) = &r.frag {
                if f.ctrl.con {
                    if f.ctrl.uns {
                        world.unsol_confirm_seq = Some(f.ctrl.seq);
                    } else {
                        world.sol_confirm_seq = Some(f.ctrl.seq);
                    }
                }
            }
            sim.log(|| {
                format!(
                    "outstation -> peer fragment at {} ms: {}",
                    r.t_ms,
                    io::hex(&r.bytes)
                )
            });
        }
        let callbacks = node.callbacks_since(cb_seen);
        let callback_orders = node.callback_orders_since(cb_seen);
        cb_seen += callbacks.len();
        let link_frames = peer.link_frames[link_seen..].to_vec();
        link_seen = peer.link_frames.len();
        let timeline: Vec<TL> = std::mem::take(&mut lockq.lock().unwrap().timeline);
        let step = Step {
            op_index: i,
            op: op.clone(),
            t_start,
            t_end: sim.now_ms(),
            sent,
            received,
            callbacks,
            callback_orders,
            sent_order,
            timeline,
            link_frames,
            connected,
            disconnected,
            link_up,
        };
        world.steps_done = i + 1;
        if let Some(v) = oracle.step(&world, &step) {
            violation = Some(v);
            break;
        }
    }
    if violation.is_none() {
        violation = oracle.finish(&world);
    }
    sim.clear_lock_hook();
    // shut the node down so that its task ends
    let mut h = node.handle.clone();
    let _ = h.shutdown().await;
    node.disconnect(CloseKind::Reset);
    sim.settle().await;
    RunSummary {
        violation,
        steps: world.steps_done,
    }
}

fn send_fragment(
    sim: &Sim,
    node: &mut OutNode,
    peer: &mut PeerLink,
    world: &mut World,
    bytes: &[u8],
    src: u16,
    dest: u16,
) {
    let wire = peer.encode_fragment(src, dest, bytes);
    io::chan_push(&node.to_out, sim.now_ms(), wire);
    world.last_request = Some((bytes.to_vec(), src, dest));
    sim.log(|| format!("peer({}) -> {} fragment: {}", src, dest, io::hex(bytes)));
}

// ---------------------------------------------------------------------------------------------
// glue: run an S-OUT case in a fresh world and turn the result into a runner::Outcome

use crate::verif::kernel::{self, Exit, RunParams};
use crate::verif::runner::Outcome;

pub struct OracleReport {
    pub nontrivial: bool,
    pub fingerprint: u64,
    pub counters: Vec<(String, u64)>,
}

pub fn execute<O, F>(
    prop: &'static str,
    case: &SoutCase,
    sched_seed: u64,
    log: bool,
    make_oracle: F,
) -> Outcome
where
    O: Oracle + 'static,
    F: FnOnce(&SoutCase) -> O + 'static,
{
    let mut outcome = Outcome::default();
    let result: Arc<Mutex<Option<(RunSummary, OracleReport)>>> = Arc::new(Mutex::new(None));
    let r2 = result.clone();
    let case2 = case.clone();
    let params = RunParams {
        log,
        sched_seed,
        tokio_seed: sched_seed ^ 0x9E37_79B9,
        step_cap: 400_000,
        ..Default::default()
    };
    let decode_all = case.cfg.decode_all;
    let run = move || {
        kernel::run_world(params, move |sim| async move {
            let mut oracle = make_oracle(&case2);
            let summary = drive(&sim, &case2, &mut oracle).await;
            let rep = OracleReport {
                nontrivial: oracle.nontrivial(),
                fingerprint: oracle.fingerprint(),
                counters: oracle.counters(),
            };
            *r2.lock().unwrap() = Some((summary, rep));
        })
    };
    // with decoding enabled a formatting subscriber is installed so that every Display path runs
    let report = if decode_all || log {
        crate::verif::trace_sub::with_subscriber(run)
    } else {
        run()
    };
    outcome.sim_ms = report.sim_ms;
    outcome.steps = report.steps;
    outcome.trace_hash = report.trace_hash;
    outcome.log = report.log;
    for (k, v) in &report.counters {
        if k.starts_with("fault.") || k.starts_with("probe.") {
            outcome.count(k, *v);
        }
    }
    outcome.count(
        "fault.rechunk",
        report.counters.get("phys_reads").copied().unwrap_or(0),
    );
    match &report.exit {
        Exit::Done => {}
        Exit::Panic(task, msg, loc) => {
            if loc.contains("/verif/") {
                outcome.harness_error =
                    Some(format!("harness panic in {}: {} at {}", task, msg, loc));
            } else {
                let short = loc.rsplit("/dnp3/src/").next().unwrap_or(loc).to_string();
                outcome.violation = Some(Violation::new(
                    &format!("{}/panic", prop),
                    short,
                    format!("task '{}' panicked: {} at {}", task, msg, loc),
                ));
            }
            return outcome;
        }
        Exit::Spin(task) => {
            outcome.violation = Some(Violation::new(
                &format!("{}/spin", prop),
                task.clone(),
                format!("task '{}' was polled more than the spin budget without virtual time advancing or input being consumed", task),
            ));
            return outcome;
        }
        other => {
            outcome.harness_error = Some(format!(
                "run ended with {:?} (script too long for the step/time cap?)",
                other
            ));
            return outcome;
        }
    }
    if let Some((summary, rep)) = result.lock().unwrap().take() {
        outcome.violation = summary.violation;
        outcome.nontrivial = rep.nontrivial;
        outcome.fingerprint = rep.fingerprint;
        for (k, v) in rep.counters {
            outcome.count(&k, v);
        }
    } else {
        outcome.harness_error = Some("driver produced no result".to_string());
    }
    outcome
}

/// shrink candidates shared by S-OUT scenarios: drop script ops, then simplify the configuration
pub fn shrink_case(case: &SoutCase) -> Vec<SoutCase> {
    let mut out = Vec::new();
    for s in crate::verif::runner::shrink_vec(&case.script) {
        let mut c = case.clone();
        c.script = s;
        out.push(c);
    }
    if case.chunk != 0 {
        let mut c = case.clone();
        c.chunk = 0;
        out.push(c);
    }
    if case.cfg.decode_all {
        let mut c = case.clone();
        c.cfg.decode_all = false;
        out.push(c);
    }
    if case.cfg.points.len() > 1 {
        for pts in crate::verif::runner::shrink_vec(&case.cfg.points) {
            if pts.is_empty() {
                continue;
            }
            let mut c = case.clone();
            c.cfg.points = pts;
            out.push(c);
        }
    }
    for (i, op) in case.script.iter().enumerate() {
        if let Op::Sleep(ms) = op {
            if *ms > 1 {
                let mut c = case.clone();
                c.script[i] = Op::Sleep(ms / 2);
                out.push(c);
            }
        }
        if let Op::UpdateAtLock { update, .. } = op {
            let mut c = case.clone();
            c.script[i] = Op::Update(update.clone());
            out.push(c);
        }
    }
    out
}
