//! C02 - end to end, the master's picture converges to the outstation's database (engine S-PAIR).

use crate::verif::models::ledger::{default_static, wire_flags, EvState, Ledger, StaticVal};
use crate::verif::nodes::master::{AssocCfg, MEv, MasterCfg, RxMeas};
use crate::verif::nodes::outstation::{CtrlAnswers, OutCfg, UpdateOp};
use crate::verif::props::gen_out::{gen_points, gen_update};
use crate::verif::refcodec::app::PointType;
use crate::verif::rng::{mix, Rng};
use crate::verif::runner::{erase, Codec, Outcome, Property, Scenario, Tier, Violation};
use crate::verif::smast::UserKind;
use crate::verif::spair::{self, POp, PairCase, PairRun};
use std::collections::BTreeMap;

/// `unsol_only`: no polls at all after start-up - convergence rests on unsolicited reporting alone
pub struct ConvergeScenario {
    pub unsol_only: bool,
}

pub fn property<C: Codec>() -> Property {
    Property {
        id: "C02",
        scenarios: vec![
            erase::<C, _>(ConvergeScenario { unsol_only: false }),
            erase::<C, _>(ConvergeScenario { unsol_only: true }),
        ],
    }
}

impl Scenario for ConvergeScenario {
    type Case = PairCase;

    fn name(&self) -> &'static str {
        if self.unsol_only {
            "unsolicited-only"
        } else {
            "converge"
        }
    }

    fn runs(&self, tier: Tier) -> u64 {
        match tier {
            Tier::Quick => 9_000,
            Tier::Thorough => 240_000,
        }
    }

    fn rule(&self) -> String {
        let flavour = if self.unsol_only {
            "(this scenario: unsolicited reporting for every class, no poll after the start-up integrity poll, every update creates an event - the final \
             values must arrive through unsolicited responses alone, also when a transaction lands exactly where the outstation task goes to sleep) "
        } else {
            ""
        };
        format!("{}{}", flavour, "the real master and the real outstation connected through the simulated network: databases of 2..8 point types with random classes and \
         static/event variations, update transactions with random values, flags, times and update options at arbitrary virtual times, master with \
         start-up integrity poll, periodic integrity poll, unsolicited reporting on or off, user reads and commands; small and large event buffers and \
         fragment sizes, both link error modes; the connection is cut (reset / end of file), stalled in either direction, refused on reconnect, and \
         re-chunked on both sockets; after the script a quiet tail lets everything settle; non-trivial = a cut or stall happened while events were \
         buffered or a response was in flight; distinct = hash of (configuration class, fault kinds, numbers of updates / events / deliveries)")
    }

    fn real_components(&self) -> Vec<&'static str> {
        vec![
            "master: task, association, tasks::read/auto, extract, read handler dispatch",
            "outstation: session, database, event buffer, unsolicited state machine",
            "tcp::client::ClientTask, tcp::server_task::ServerTask",
            "transport::real, link::layer/reader/parser/format, app::parse, app::format",
        ]
    }

    fn stub_components(&self) -> Vec<&'static str> {
        vec![
            "TCP sockets and listener (simulated network through hook H3: latency, chunking, stalls, cuts, refusals)",
            "user callbacks on both sides (recording stubs)",
            "user threads (simulated tasks calling the public API)",
        ]
    }

    fn generate(&self, rng: &mut Rng, _tier: Tier) -> PairCase {
        let mut ocfg = OutCfg::basic();
        let ntypes = rng.urange(2, 8);
        ocfg.points = gen_points(rng, ntypes, 3, false, true);
        // half of the outstations write the new state of an operated output to the database from inside the control callback:
        // events then arise while the session itself is busy with a request
        ocfg.controls_update_db = rng.bool();
        if ocfg.controls_update_db {
            for index in 0..3u16 {
                if !ocfg.points.iter().any(|p| p.ptype == PointType::BinaryOutputStatus && p.index == index) {
                    ocfg.points.push(crate::verif::nodes::outstation::PointCfg {
                        ptype: PointType::BinaryOutputStatus,
                        index,
                        class: rng.range(1, 3) as u8,
                        svar: *rng.pick(crate::verif::nodes::outstation::static_vars(PointType::BinaryOutputStatus)),
                        evar: *rng.pick(crate::verif::nodes::outstation::event_vars(PointType::BinaryOutputStatus)),
                        deadband: 0,
                    });
                }
            }
        }
        ocfg.unsolicited = self.unsol_only || rng.bool();
        if self.unsol_only {
            for p in ocfg.points.iter_mut() {
                if p.class == 0 {
                    p.class = 1;
                }
            }
        }
        ocfg.confirm_timeout_ms = *rng.pick(&[1000u64, 3000]);
        ocfg.unsol_retry_delay_ms = *rng.pick(&[500u64, 3000]);
        ocfg.event_buffers = if rng.chance(1, 3) { [3; 8] } else { [50; 8] };
        ocfg.sol_tx = *rng.pick(&[249usize, 2048]);
        ocfg.unsol_tx = *rng.pick(&[249usize, 2048]);
        ocfg.close_mode = rng.bool();
        let mut mcfg = MasterCfg::basic();
        mcfg.close_mode = rng.bool();
        mcfg.reconnect_ms = *rng.pick(&[100u64, 1000]);
        mcfg.connect_min_ms = mcfg.reconnect_ms;
        mcfg.connect_max_ms = 2000;
        let mut a = AssocCfg::quiet(1024);
        a.response_timeout_ms = 2000;
        a.startup_integrity = 0x0F;
        a.disable_unsol = 7;
        a.enable_unsol = if self.unsol_only {
            7
        } else if ocfg.unsolicited {
            *rng.pick(&[7u8, 7, 3])
        } else {
            0
        };
        a.retry_min_ms = 500;
        a.retry_max_ms = 2000;
        a.integrity_on_overflow = rng.bool();
        mcfg.assocs = vec![a];
        let mut script = vec![POp::Enable];
        if !self.unsol_only {
            script.push(POp::AddPoll {
                classes: 0x0F,
                period_ms: *rng.pick(&[2000u64, 5000]),
            });
        }
        let unsol_only = self.unsol_only;
        let tune = move |mut u: UpdateOp| -> UpdateOp {
            if unsol_only {
                // every change is reported: the event is the only way it reaches the master
                u.update_static = true;
                u.event_mode = 1;
            }
            u
        };
        let mut clock = 1_000_000u64;
        let rounds = rng.urange(3, 14);
        for _ in 0..rounds {
            match rng.below(13) {
                12 => {
                    // events of one type await their confirmation (the confirm is held up) while another type overflows and is
                    // still full when the confirm arrives
                    let types: Vec<PointType> = {
                        let mut t: Vec<PointType> = ocfg.points.iter().map(|p| p.ptype).collect();
                        t.dedup();
                        t
                    };
                    if types.len() >= 2 {
                        let a = *rng.pick(&types);
                        let b = *rng.pick(&types);
                        let of = |t: PointType| -> Vec<crate::verif::nodes::outstation::PointCfg> {
                            ocfg.points.iter().filter(|p| p.ptype == t).cloned().collect()
                        };
                        let (pa, pb) = (of(a), of(b));
                        script.push(POp::Stall {
                            to_master: false,
                            ms: rng.range(200, ocfg.confirm_timeout_ms + 500),
                        });
                        script.push(POp::Update(vec![tune(gen_update(rng, &pa, &mut clock))]));
                        script.push(POp::Sleep(rng.range(1, 100)));
                        let n = rng.urange(2, 70);
                        script.push(POp::Update(
                            (0..n)
                                .map(|_| tune(gen_update(rng, &pb, &mut clock)))
                                .collect(),
                        ));
                    }
                }
                0..=3 => {
                    let n = if rng.chance(1, 6) {
                        rng.urange(20, 80)
                    } else {
                        rng.urange(1, 4)
                    };
                    script.push(POp::Update(
                        (0..n)
                            .map(|_| tune(gen_update(rng, &ocfg.points, &mut clock)))
                            .collect(),
                    ));
                }
                4 => {
                    // a transaction from another thread exactly when the outstation task reaches a lock or wait point
                    let site = *rng.pick(&crate::verif::props::gen_out::LOCK_SITES);
                    let n = rng.urange(1, 3);
                    script.push(POp::UpdateAtLock {
                        site: site.to_string(),
                        skip: rng.below(4) as u32,
                        ops: (0..n)
                            .map(|_| tune(gen_update(rng, &ocfg.points, &mut clock)))
                            .collect(),
                    });
                }
                5 => {
                    if rng.bool() {
                        script.push(POp::Cut { eof: rng.bool() });
                    } else {
                        // the connection dies right after something was written: the last fragment(s) never arrive
                        script.push(POp::CutAfterWrites {
                            to_master: rng.chance(3, 4),
                            nth: rng.range(1, 5) as u32,
                            eof: rng.chance(1, 4),
                        });
                    }
                }
                6 => script.push(POp::Stall {
                    to_master: rng.bool(),
                    ms: rng.range(100, 6000),
                }),
                7 => script.push(POp::NetPlan(vec![1])),
                8 => {
                    if !unsol_only {
                        script.push(POp::User(UserKind::ReadClasses(*rng.pick(&[0x0Fu8, 0x07]))));
                    }
                }
                9 => script.push(POp::User(UserKind::Command {
                    sbo: rng.bool(),
                    headers: vec![vec![(0, rng.below(3) as u16, false)]],
                })),
                10 => {
                    if !unsol_only {
                        script.push(POp::DemandPoll(0));
                    }
                }
                _ => {
                    script.push(POp::Disable);
                    if rng.bool() {
                        // the database changes while the channel is disabled without leaving an event: only the integrity poll
                        // of the new connection can tell the master
                        let n = rng.urange(1, 3);
                        script.push(POp::Update(
                            (0..n)
                                .map(|_| {
                                    let mut u = gen_update(rng, &ocfg.points, &mut clock);
                                    u.update_static = true;
                                    u.event_mode = 2;
                                    u.flags_only = false;
                                    u
                                })
                                .collect(),
                        ));
                    }
                    script.push(POp::Sleep(rng.range(0, 1500)));
                    script.push(POp::Enable);
                }
            }
            script.push(POp::Sleep(match rng.below(5) {
                0 => 0,
                1 => rng.range(1, 30),
                2 => rng.range(1, 800),
                3 => rng.range(1, 4000),
                _ => 6000,
            }));
        }
        PairCase {
            mcfg,
            ocfg,
            ctrl: CtrlAnswers::AllSuccess,
            chunk: (rng.below(5) as u8, rng.below(5) as u8),
            chunk_seed: rng.next_u64(),
            latency: if rng.chance(1, 2) {
                (rng.below(40), rng.below(40))
            } else {
                (0, 0)
            },
            script,
            tail_ms: 90_000,
        }
    }

    fn shrink(&self, case: &PairCase) -> Vec<PairCase> {
        spair::shrink_case(case)
    }

    fn execute(&self, case: &PairCase, log: bool) -> Outcome {
        spair::execute("C02", case, log, analyse)
    }
}

/// does what the master's handler received equal this recorded value (as far as the variation carried it)?
fn same(
    ptype: PointType,
    m: &RxMeas,
    value: f64,
    bytes: &[u8],
    flags: u8,
    time: Option<u64>,
    check_time: bool,
) -> bool {
    if ptype == PointType::OctetString {
        return m.bytes == bytes;
    }
    if m.value != value {
        return false;
    }
    // a packed single- or double-bit variation carries no flag octet because the outstation only uses it for points whose
    // flags are exactly ONLINE (anything else is promoted to the variation with flags): receiving it says "ONLINE"
    let packed = !m.has_flags
        && matches!(
            m.variation.as_str(),
            "Group1Var1" | "Group3Var1" | "Group10Var1"
        );
    if packed {
        let mask = if ptype == PointType::DoubleBit {
            0x3F
        } else {
            0x7F
        };
        if (wire_flags(ptype, flags, value) & mask) != 0x01 {
            return false;
        }
    }
    if m.has_flags {
        let mask = match ptype {
            PointType::Binary | PointType::BinaryOutputStatus => 0x7F,
            PointType::DoubleBit => 0x3F,
            _ => 0xFF,
        };
        if (m.flags & mask) != (wire_flags(ptype, flags, value) & mask) {
            return false;
        }
    }
    if check_time {
        if let Some((t, _)) = m.time {
            if t != time.unwrap_or(0) {
                return false;
            }
        }
    }
    true
}

pub fn analyse(
    case: &PairCase,
    run: &PairRun,
) -> (Option<Violation>, bool, u64, Vec<(String, u64)>) {
    let mut counters: BTreeMap<String, u64> = BTreeMap::new();
    let mut bump = |k: &str, n: u64| *counters.entry(k.to_string()).or_insert(0) += n;
    let mut violation: Option<Violation> = None;
    let mut ledger = Ledger::new(&case.ocfg);
    // history of the static value of every point: (virtual ms from which it held, value)
    let mut held: BTreeMap<(PointType, u16), Vec<(u64, StaticVal)>> = BTreeMap::new();
    for p in &case.ocfg.points {
        held.entry((p.ptype, p.index))
            .or_insert_with(|| vec![(0, default_static(p.ptype))]);
    }
    // updates and the outstation's "event cleared" callbacks in the order they happened
    enum E<'a> {
        Update(u64, &'a UpdateOp, crate::outstation::database::UpdateInfo),
        Cleared(u64),
    }
    // when the outstation released each event after its confirmation (virtual ms)
    let mut cleared_at: BTreeMap<u64, u64> = BTreeMap::new();
    for (t, _, cb) in &run.out_log {
        if let crate::verif::nodes::outstation::Cb::EventCleared(id) = cb {
            cleared_at.entry(*id).or_insert(*t);
        }
    }
    let mut evs: Vec<(u64, E)> = run
        .updates
        .iter()
        .map(|(t, o, op, info)| (*o, E::Update(*t, op, *info)))
        .collect();
    for (_, o, cb) in &run.out_log {
        if let crate::verif::nodes::outstation::Cb::EventCleared(id) = cb {
            evs.push((*o, E::Cleared(*id)));
        }
    }
    evs.sort_by_key(|e| e.0);
    for (_, e) in &evs {
        match e {
            E::Update(t, op, info) => {
                if let Err(e) = ledger.apply_update(op, *info, *t) {
                    violation.get_or_insert(Violation::new("C02/event-buffer-bookkeeping", "", e));
                }
                if op.update_static && ledger.points.contains_key(&(op.ptype, op.index)) {
                    held.entry((op.ptype, op.index)).or_default().push((
                        *t,
                        StaticVal {
                            value: op.value,
                            bytes: op.bytes.clone(),
                            flags: op.flags,
                            time: op.time,
                        },
                    ));
                }
            }
            E::Cleared(id) => {
                if let Some(ev) = ledger.events.get_mut(id) {
                    if ev.state == EvState::Live {
                        ev.state = EvState::Released;
                    }
                }
            }
        }
    }
    // walk the master's log: read tasks give the window of static data, measurements are checked for provenance
    let mut read_started: Option<u64> = None;
    let mut delivered_events: Vec<(u64, RxMeas)> = Vec::new();
    // position in the master's log of each delivery (several can share a virtual millisecond)
    let mut delivered_event_pos: Vec<u64> = Vec::new();
    let mut last_static_pos: BTreeMap<(PointType, u16), u64> = BTreeMap::new();
    let mut last_static: BTreeMap<(PointType, u16), (u64, RxMeas)> = BTreeMap::new();
    let mut connected = false;
    let mut connected_since = 0u64;
    let mut n_static = 0u64;
    for (seq_no, (t, _, ev)) in run.master_log.iter().enumerate() {
        let seq_no = seq_no as u64;
        match ev {
            MEv::Client(state) => {
                let now = state == "Connected";
                if now && !connected {
                    connected_since = *t;
                }
                connected = now;
            }
            MEv::TaskStart { func: 1, .. } => read_started = Some(*t),
            MEv::TaskSuccess { func: 1, .. } | MEv::TaskFail { .. } => {}
            MEv::Meas { m, .. } => {
                let key = (m.ptype, m.index);
                if !ledger.points.contains_key(&key) {
                    violation.get_or_insert(Violation::new(
                        "C02/value-for-a-point-that-does-not-exist",
                        format!("{:?}", m.ptype),
                        format!("{} ms: the master's handler received {:?}[{}] = {} but the outstation has no such point", t, m.ptype, m.index, m.value),
                    ));
                    continue;
                }
                if m.is_event {
                    // provenance: an event created for exactly this point, no later than now
                    let found = ledger.events.values().any(|e| {
                        e.ptype == m.ptype
                            && e.index == m.index
                            && e.created_ms <= *t
                            && same(m.ptype, m, e.value, &e.bytes, e.flags, Some(e.time), true)
                    });
                    if !found {
                        violation.get_or_insert(Violation::new(
                            "C02/event-never-created",
                            format!("{:?}", m.ptype),
                            format!(
                                "{} ms: the master's handler received the event {:?}[{}] value {} flags {:#x} time {:?} ({}), but no such event was ever created for that point",
                                t, m.ptype, m.index, m.value, m.flags, m.time, m.variation
                            ),
                        ));
                    }
                    // "nothing ... resurrected": an event the outstation released after its confirmation is not reported again. The
                    // delivery precedes the confirmation it triggers, so one that comes a second and more after the release of every
                    // event it could be is a second report
                    if found {
                        let alive = ledger.events.values().any(|e| {
                            e.ptype == m.ptype
                                && e.index == m.index
                                && e.created_ms <= *t
                                && same(m.ptype, m, e.value, &e.bytes, e.flags, Some(e.time), true)
                                && cleared_at.get(&e.id).map(|c| *c + 1000 >= *t).unwrap_or(true)
                        });
                        if !alive {
                            violation.get_or_insert(Violation::new(
                                "C02/event-resurrected",
                                format!("{:?}", m.ptype),
                                format!(
                                    "{} ms: the master's handler received the event {:?}[{}] value {} flags {:#x} time {:?} ({}), but every such event had been confirmed and released by the outstation more than a second earlier",
                                    t, m.ptype, m.index, m.value, m.flags, m.time, m.variation
                                ),
                            ));
                        }
                    }
                    delivered_events.push((*t, m.clone()));
                    delivered_event_pos.push(seq_no);
                } else {
                    n_static += 1;
                    // provenance + freshness: a value the point held at some moment between the request and now
                    let from = read_started.unwrap_or(0).saturating_sub(1);
                    let hist = held.get(&key).cloned().unwrap_or_default();
                    let mut ok = false;
                    for (k, (since, v)) in hist.iter().enumerate() {
                        let until = hist.get(k + 1).map(|n| n.0).unwrap_or(u64::MAX);
                        // held during [since, until]: overlaps [from, t]?
                        if *since <= *t
                            && until >= from
                            && same(m.ptype, m, v.value, &v.bytes, v.flags, v.time, true)
                        {
                            ok = true;
                            break;
                        }
                    }
                    if !ok {
                        let ever = hist.iter().any(|(_, v)| {
                            same(m.ptype, m, v.value, &v.bytes, v.flags, v.time, true)
                        });
                        violation.get_or_insert(Violation::new(
                            if ever { "C02/stale-static-value" } else { "C02/static-value-never-held" },
                            format!("{:?}", m.ptype),
                            format!(
                                "{} ms: the master's handler received the static value {:?}[{}] = {} flags {:#x} ({}) in answer to a read started at {:?} ms; the point held {:?}",
                                t,
                                m.ptype,
                                m.index,
                                m.value,
                                m.flags,
                                m.variation,
                                read_started,
                                hist.iter().map(|(s, v)| (*s, v.value, v.flags)).collect::<Vec<_>>()
                            ),
                        ));
                    }
                    last_static.insert(key, (*t, m.clone()));
                    last_static_pos.insert(key, seq_no);
                }
            }
            _ => {}
        }
    }
    bump("probe.static_values_delivered", n_static);
    bump("probe.events_delivered", delivered_events.len() as u64);
    bump("probe.events_created", ledger.events.len() as u64);
    bump(
        "probe.events_discarded",
        ledger
            .events
            .values()
            .filter(|e| e.state == EvState::Discarded)
            .count() as u64,
    );

    // after the quiet tail: faults have stopped, the network is whole
    let last_fault = case
        .script
        .iter()
        .enumerate()
        .filter(|(_, op)| {
            matches!(
                op,
                POp::Cut { .. }
                    | POp::CutAfterWrites { .. }
                    | POp::Stall { .. }
                    | POp::NetPlan(_)
                    | POp::Disable
                    | POp::Enable
                    | POp::Update(_)
                    | POp::UpdateAtLock { .. }
            )
        })
        .filter_map(|(i, op)| {
            run.op_marks.iter().find(|m| m.0 == i).map(|m| match op {
                POp::Stall { ms, .. } => m.1 + ms,
                _ => m.1,
            })
        })
        .max()
        .unwrap_or(0)
        .max(run.updates.iter().map(|u| u.0).max().unwrap_or(0));
    let unsol_only = !case
        .script
        .iter()
        .any(|op| matches!(op, POp::AddPoll { .. }));
    let enabled_at_end = case.script.iter().rev().find_map(|op| match op {
        POp::Enable => Some(true),
        POp::Disable => Some(false),
        _ => None,
    }) == Some(true);
    let settled = enabled_at_end
        && connected
        && run.end_ms.saturating_sub(last_fault) >= 60_000
        && run.end_ms.saturating_sub(connected_since) >= 30_000;
    // "once any sequence of ... connection interruptions stops": a minute after the last fault the master must be connected
    // again (its reconnect delay is at most two seconds) and stay so; a session that never comes back, or keeps flapping,
    // is itself a failure to converge
    if !settled
        && violation.is_none()
        && enabled_at_end
        && run.end_ms.saturating_sub(last_fault) >= 60_000
    {
        bump("probe.not_settled_at_end", 1);
        violation = Some(Violation::new(
            "C02/connection-not-re-established",
            if connected { "flapping" } else { "down" },
            format!(
                "the last fault or update was at {} ms, the run ended at {} ms with the channel enabled: connected = {}, since {} ms",
                last_fault, run.end_ms, connected, connected_since
            ),
        ));
    }
    if settled && violation.is_none() {
        bump("probe.convergence_checked", 1);
        // (e) every event that was not discarded reached the handler at least once
        let mut pool: Vec<&RxMeas> = delivered_events.iter().map(|d| &d.1).collect();
        for e in ledger
            .events
            .values()
            .filter(|e| e.state != EvState::Discarded)
        {
            let pos = pool.iter().position(|m| {
                m.ptype == e.ptype
                    && m.index == e.index
                    && same(e.ptype, m, e.value, &e.bytes, e.flags, Some(e.time), true)
            });
            match pos {
                Some(i) => {
                    // identical events are matched one to one (re-deliveries only add to the pool)
                    pool.swap_remove(i);
                }
                None => {
                    violation.get_or_insert(Violation::new(
                        "C02/event-never-delivered",
                        format!("{:?}", e.ptype),
                        format!(
                            "event {} ({:?}[{}] = {} flags {:#x} time {}, class {}, created at {} ms) was not reported as discarded and never reached the master's handler ({} events delivered in all)",
                            e.id,
                            e.ptype,
                            e.index,
                            e.value,
                            e.flags,
                            e.time,
                            e.class,
                            e.created_ms,
                            delivered_events.len()
                        ),
                    ));
                    break;
                }
            }
        }
        // (d') without polls: the last thing delivered for a point (event or static) is its current value, unless the newest
        // event of that point fell victim to an overflow
        if unsol_only {
            // points whose current value was written without leaving an event (an update with events suppressed): nothing but an
            // integrity poll can carry it, and an older event of the point may legitimately arrive after that poll (its
            // confirmation was lost) - for them the last STATIC value delivered counts
            let mut silent_final: std::collections::BTreeSet<(PointType, u16)> = Default::default();
            for (_, _, op, info) in &run.updates {
                if !op.update_static || matches!(info, crate::outstation::database::UpdateInfo::NoPoint) {
                    continue;
                }
                if matches!(info, crate::outstation::database::UpdateInfo::NoEvent) {
                    silent_final.insert((op.ptype, op.index));
                } else {
                    silent_final.remove(&(op.ptype, op.index));
                }
            }
            for (key, v) in &ledger.mirror {
                if silent_final.contains(key) {
                    match last_static.get(key) {
                        Some((_, m)) if same(key.0, m, v.value, &v.bytes, v.flags, v.time, true) => {}
                        other => {
                            violation.get_or_insert(Violation::new(
                                "C02/master-picture-differs-at-the-end",
                                format!("unsolicited-silent-update {:?}", key.0),
                                format!(
                                    "{:?}[{}]: the outstation holds value {} flags {:#x}, written without an event; the last static value the master's handler received for it is {:?}",
                                    key.0,
                                    key.1,
                                    v.value,
                                    v.flags,
                                    other.map(|(t, m)| (t, m.value, m.flags))
                                ),
                            ));
                        }
                    }
                    continue;
                }
                let newest = ledger
                    .events
                    .values()
                    .filter(|e| e.ptype == key.0 && e.index == key.1)
                    .max_by_key(|e| e.id);
                // ... unless the master is configured to run an integrity poll when the outstation reports the overflow
                let integrity_on_overflow = case
                    .mcfg
                    .assocs
                    .first()
                    .map(|a| a.integrity_on_overflow)
                    .unwrap_or(false);
                if newest
                    .map(|e| e.state == EvState::Discarded)
                    .unwrap_or(false)
                    && !integrity_on_overflow
                {
                    continue;
                }
                let last_ev_i = delivered_events
                    .iter()
                    .rposition(|d| d.1.ptype == key.0 && d.1.index == key.1);
                let last_ev = last_ev_i.map(|i| &delivered_events[i]);
                let last_st = last_static.get(key);
                let ev_later = match (last_ev_i, last_static_pos.get(key)) {
                    (Some(i), Some(p)) => delivered_event_pos[i] > *p,
                    _ => true,
                };
                let last = match (last_ev, last_st) {
                    (Some(e), Some(s)) => Some(if ev_later { (e.0, &e.1) } else { (s.0, &s.1) }),
                    (Some(e), None) => Some((e.0, &e.1)),
                    (None, Some(s)) => Some((s.0, &s.1)),
                    (None, None) => None,
                };
                if let Some((t, m)) = last {
                    if !same(key.0, m, v.value, &v.bytes, v.flags, v.time, true) {
                        violation.get_or_insert(Violation::new(
                            "C02/master-picture-differs-at-the-end",
                            format!("unsolicited {:?}", key.0),
                            format!(
                                "{:?}[{}]: the outstation holds value {} flags {:#x}; the last thing the master's handler received for it (at {} ms, {}) is {} flags {:#x}; unsolicited reporting is on and nothing has happened for {} ms",
                                key.0,
                                key.1,
                                v.value,
                                v.flags,
                                t,
                                m.variation,
                                m.value,
                                m.flags,
                                run.end_ms - last_fault
                            ),
                        ));
                    }
                }
            }
        }
        // (d) for every point the last static value delivered is the current one
        for (key, v) in ledger.mirror.iter().filter(|_| !unsol_only) {
            match last_static.get(key) {
                None => {
                    violation.get_or_insert(Violation::new(
                        "C02/point-never-delivered",
                        format!("{:?}", key.0),
                        format!("{:?}[{}] never reached the master's handler as static data although integrity polls ran until {} ms", key.0, key.1, run.end_ms),
                    ));
                }
                Some((t, m)) => {
                    if !same(key.0, m, v.value, &v.bytes, v.flags, v.time, true) {
                        violation.get_or_insert(Violation::new(
                            "C02/master-picture-differs-at-the-end",
                            format!("{:?}", key.0),
                            format!(
                                "{:?}[{}]: the outstation holds value {} flags {:#x}, the last static value delivered to the master (at {} ms, {}) is {} flags {:#x}",
                                key.0, key.1, v.value, v.flags, t, m.variation, m.value, m.flags
                            ),
                        ));
                    }
                }
            }
        }
    }
    let faults = case
        .script
        .iter()
        .filter(|op| {
            matches!(
                op,
                POp::Cut { .. } | POp::Stall { .. } | POp::NetPlan(_) | POp::Disable
            )
        })
        .count() as u64;
    let nontrivial = faults > 0 && !ledger.events.is_empty();
    let fp = mix(&[
        case.ocfg.unsolicited as u64,
        (case.ocfg.event_buffers[0] == 3) as u64,
        faults.min(6),
        (ledger.events.len() as u64).min(20),
        (delivered_events.len() as u64).min(40),
        run.connections.min(6),
        case.ocfg.points.len() as u64,
    ]);
    let out: Vec<(String, u64)> = counters.into_iter().collect();
    (violation, nontrivial, fp, out)
}
