//! S-MAST engine: the real master (MasterNode) against a scripted outstation that speaks through
//! the reference codec only. The scripted outstation is a simulated task: it reacts to whatever
//! the master transmits, whenever it transmits it, following a queue of reply policies that the
//! script fills. Everything is logged with virtual time and a world-wide order number; the
//! property oracles analyse the recorded history afterwards.

use crate::master::{
    AssociationHandle, Classes, CommandBuilder, CommandMode, CommandSupport, EventClasses,
    ReadRequest, TimeSyncProcedure,
};
use crate::verif::io::{self, ChanRef, ChunkMode, CloseKind};
use crate::verif::kernel::{self, Sim};
use crate::verif::nodes::master::{MEv, MasterCfg, MasterNode};
use crate::verif::nodes::net::{Accepted, ConnectPlan, SimNetwork};
use crate::verif::nodes::peer::PeerLink;
use crate::verif::refcodec::app::{self as refapp, Ctrl};
use crate::verif::refcodec::link::RefFrame;
use serde::{Deserialize, Serialize};
use std::collections::VecDeque;
use std::future::Future;
use std::pin::Pin;
use std::sync::{Arc, Mutex};
use std::task::{Context, Poll};
use std::time::Duration;

/// how the scripted outstation treats the next request it receives
#[derive(Clone, Debug, Serialize, Deserialize, PartialEq)]
pub enum Reply {
    Faithful,
    Silent,
    /// faithful, but `ms` later
    Late(u64),
    /// only a response with sequence number +delta
    WrongSeq(u8),
    /// a stale response (+delta) and then the right one
    StaleThenFaithful(u8),
    /// only a response from another outstation address
    WrongSource(u16),
    /// a response from another source and then the right one
    ForeignThenFaithful(u16),
    /// FIR/FIN/CON/UNS nibble of the (first) response fragment
    Flags(u8),
    Func(u8),
    /// OR these bits into the IIN octets of this response only
    Iin(u8, u8),
    /// as `Iin`, and the response also asks for a confirmation
    IinCon(u8, u8),
    /// the inner reply with the CON bit set on every solicited response it transmits (two deviations at once)
    ConPlus(Box<Reply>),
    /// cut the response to n octets
    Truncate(usize),
    /// replace the objects by these octets
    Objects(Vec<u8>),
    /// send the response twice
    Dup,
    /// an unsolicited response first (seq, with data?, CON?), then the faithful reply
    UnsolThenFaithful {
        seq: u8,
        data: bool,
        con: bool,
    },
    /// control echo altered (C16)
    Echo(EchoMutation),
    /// file transfer: block number of the returned block changed by this much
    FileBlock(i8),
    /// file transfer: status code of an open / close response
    FileStatus(u8),
    /// faithful, with CON set on the (final) fragment
    WithCon,
    /// cut the connection instead of answering
    Cut,
    /// the faithful reply, then end of file: the master can still read the reply but its next write fails
    FaithfulThenEof,
}

#[derive(Clone, Debug, Serialize, Deserialize, PartialEq)]
pub enum EchoMutation {
    /// set the status octet of object n (counted over the whole echo) to this value
    Status {
        object: usize,
        status: u8,
    },
    /// flip one bit in the value field of object n
    ValueBit {
        object: usize,
        bit: u8,
    },
    DropLastObject,
    DuplicateLastObject,
    SwapFirstTwoObjects,
    DropLastHeader,
    /// change the index of object n
    Index {
        object: usize,
    },
    /// switch the prefix size of a header (0x17 <-> 0x28)
    Qualifier,
    /// append a copy of the last header
    AddHeader,
    /// exchange the first two headers
    SwapFirstTwoHeaders,
    /// change the index of object n in its high octet only (16-bit prefixes)
    IndexHigh {
        object: usize,
    },
    /// give header n another variation whose objects have the same size (g41v1 <-> g41v3)
    Variation {
        header: usize,
    },
    /// switch the prefix size of header n
    QualifierOf {
        header: usize,
    },
}

#[derive(Clone, Debug, Serialize, Deserialize, PartialEq)]
pub enum UserKind {
    /// READ of these classes (bit0..2 = class 1..3, bit3 = class 0)
    ReadClasses(u8),
    /// `read_with_handler`: the response goes to a handler supplied with the request instead of the association's
    ReadCustom(u8),
    /// `get_file_auth_key`
    FileAuth,
    /// `open_file` for writing (true) or reading (false)
    FileOpen(bool),
    /// `write_file_block` (block number, length, last block)
    FileWriteBlock(u8, u8, bool),
    /// `close_file`
    FileClose,
    /// commands: (group 12 or 41 var, index, 16-bit index?) in up to 3 headers
    Command {
        sbo: bool,
        headers: Vec<Vec<(u8, u16, bool)>>,
    },
    TimeSync(u8),
    Restart {
        cold: bool,
    },
    LinkStatus,
    /// a request that expects an empty response (function code)
    Empty(u8),
    /// WRITE of n analog dead-bands
    DeadBands(u8),
    /// read_file of a file of `blocks` blocks of `block_size` octets; the FileReader aborts in opened (0) or at block n-1
    FileRead {
        blocks: u8,
        block_size: u8,
        abort_at: Option<u8>,
        /// with credentials: the transfer starts with an AUTHENTICATE_FILE step
        #[serde(default)]
        auth: bool,
    },
    /// read_directory of a directory with this many entries
    Directory(u8),
    /// get_file_info
    FileInfo,
}

#[derive(Clone, Debug, Serialize, Deserialize, PartialEq)]
pub enum MOp {
    User {
        assoc: usize,
        kind: UserKind,
    },
    AddPoll {
        assoc: usize,
        classes: u8,
        period_ms: u64,
    },
    DemandPoll(usize),
    RemovePoll(usize),
    Enable,
    Disable,
    RemoveAssoc(usize),
    /// append to the reply queue of outstation `assoc`
    Replies {
        assoc: usize,
        replies: Vec<Reply>,
    },
    /// IIN bits the outstation reports from now on
    SetIin {
        assoc: usize,
        iin1: u8,
        iin2: u8,
    },
    /// the outstation sends an unsolicited response now
    Unsol {
        assoc: usize,
        seq: u8,
        data: bool,
        con: bool,
    },
    /// the outstation re-sends its last unsolicited response unchanged
    UnsolRepeat,
    /// raw application fragment from this source address
    Raw {
        src: u16,
        bytes: Vec<u8>,
    },
    /// octets put on the wire as they are (not framed): link-level garbage, bad CRCs, partial frames
    Wire(Vec<u8>),
    /// `n` LINK_STATUS frames from outstation `assoc` (harmless padding that flushes a partial frame out of a resynchronising parser)
    LinkPadding {
        assoc: usize,
        n: usize,
    },
    /// forget the queued reply policies of every outstation
    ClearReplies,
    /// how many fragments a READ response series has and how many objects each carries
    ReadShape {
        assoc: usize,
        fragments: Vec<u8>,
    },
    /// the `at`-th fragment (1 = second) of the next READ response series deviates
    SeriesDev {
        assoc: usize,
        at: usize,
        dev: SeriesDev,
    },
    Sleep(u64),
    Cut {
        eof: bool,
    },
    NetPlan(Vec<u8>),
    /// whether the outstation answers REQUEST_LINK_STATUS frames
    AnswerLinkStatus {
        assoc: usize,
        on: bool,
    },
    /// NEED_TIME stays set whatever is written
    StickyNeedTime(bool),
    /// the master task is dropped (runtime shutdown): every pending promise must still resolve
    KillMaster,
    /// a channel message unrelated to any request (set_decode_level) - activity while tasks wait
    Poke,
    /// the next fragment the scripted outstation transmits arrives in two pieces with a channel message in between
    SplitNextReply(usize),
    /// outstation processing delay reported in DELAY_MEASURE and honoured by holding the reply
    ProcessingDelay {
        assoc: usize,
        ms: u16,
        honest: bool,
    },
}

/// deviation applied to a non-first fragment of a READ response series
#[derive(Clone, Debug, Serialize, Deserialize, PartialEq)]
pub enum SeriesDev {
    /// control nibble replaced (FIR FIN CON UNS)
    Flags(u8),
    /// a copy with the sequence number advanced by d first, then the correct fragment
    StaleThenFaithful(u8),
    /// the fragment twice
    Dup,
    /// a copy from another source address first
    ForeignThenFaithful(u16),
    Truncate(usize),
    /// the fragment is never sent
    Skip,
}

#[derive(Clone, Debug, Serialize, Deserialize)]
pub struct SmastCase {
    pub cfg: MasterCfg,
    pub chunk: u8,
    pub chunk_seed: u64,
    /// one-way latencies master->outstation, outstation->master
    pub latency: (u64, u64),
    pub script: Vec<MOp>,
    /// run on after the script so that outstanding work completes
    pub tail_ms: u64,
}

/// what the scripted outstation saw and did
#[derive(Clone, Debug)]
pub enum PeerEv {
    /// application fragment received from the master
    /// `worder` = order number at which the master wrote the (last octets of the) fragment
    Rx {
        t: u64,
        order: u64,
        worder: u64,
        src: u16,
        dest: u16,
        bytes: Vec<u8>,
        session: u32,
    },
    /// application fragment sent to the master; `valid` = it is the correct answer a compliant master must accept
    Tx {
        t: u64,
        order: u64,
        src: u16,
        bytes: Vec<u8>,
        kind: String,
        valid: bool,
        answers: Option<u64>,
        session: u32,
    },
    LinkRx {
        t: u64,
        order: u64,
        worder: u64,
        frame: RefFrame,
    },
    /// link status reply sent by outstation `src` (t = time it was sent)
    LinkTx {
        t: u64,
        order: u64,
        src: u16,
    },
    Connected {
        t: u64,
        order: u64,
        session: u32,
    },
    Closed {
        t: u64,
        order: u64,
        session: u32,
    },
    /// a delayed transmission: written at t, visible to the master at `at`
    Note {
        t: u64,
        order: u64,
        text: String,
    },
}

pub struct OutstationSim {
    pub address: u16,
    pub replies: VecDeque<Reply>,
    pub iin: (u8, u8),
    pub read_shape: Vec<u8>,
    /// fragments of a READ series not sent yet: (bytes of each fragment without the sequence number applied)
    series: VecDeque<Vec<u8>>,
    series_seq: u8,
    series_answers: Option<u64>,
    /// index in the series of the fragment sent last
    series_index: usize,
    pub series_dev: Option<(usize, SeriesDev)>,
    pub next_value: u32,
    pub unsol_seq: u8,
    pub processing_delay: u16,
    pub honest_delay: bool,
    pub answer_link_status: bool,
    /// open file: (handle, blocks, block size)
    pub file: Option<(u32, u32, u32)>,
    pub file_handle: u32,
    /// contents when the open "file" is a directory listing
    pub file_bytes: Option<Vec<u8>>,
    /// the time written by the master (WRITE g50v1 / g50v3), with virtual time of arrival
    pub time_written: Vec<(u64, u64, u8)>,
    pub recorded_time_at: Option<u64>,
    pub recorded_times: Vec<u64>,
    /// NEED_TIME is not cleared by a time write
    pub sticky_need_time: bool,
}

impl OutstationSim {
    fn new(address: u16) -> Self {
        Self {
            address,
            replies: VecDeque::new(),
            iin: (0, 0),
            read_shape: vec![3],
            series: VecDeque::new(),
            series_seq: 0,
            series_answers: None,
            series_index: 0,
            series_dev: None,
            // (every scripted outstation draws its values from a range of its own, so that a value seen by the handler names the
            // outstation it came from as well as the fragment)
            next_value: 1 + 100_000 * (address as u32 % 16),
            unsol_seq: 0,
            processing_delay: 0,
            honest_delay: true,
            answer_link_status: true,
            file: None,
            file_handle: 0x1000,
            file_bytes: None,
            time_written: Vec::new(),
            recorded_time_at: None,
            recorded_times: Vec::new(),
            sticky_need_time: false,
        }
    }
}

pub struct PeerShared {
    pub master_addr: u16,
    pub outstations: Vec<OutstationSim>,
    pub log: Vec<PeerEv>,
    pub session: u32,
    /// current connection (None while disconnected)
    pub conn: Option<(ChanRef, ChanRef)>,
    pub link: PeerLink,
    pub cut_requested: Option<CloseKind>,
    pub rx_count: u64,
    /// the last unsolicited fragment sent (for exact repeats)
    pub last_unsol: Option<(u16, Vec<u8>)>,
    pub last_delivery_ms: u64,
    pub last_deviation_ms: u64,
    /// cancellation fault: the next fragment transmitted arrives in two pieces (cut after this many octets of its link
    /// frame), 2 ms apart, and a channel message reaches the master in between
    pub split_next: Option<usize>,
    /// set the CON bit on solicited responses transmitted while this is on (`Reply::ConPlus`)
    pub force_con: bool,
    pub poke_at: Option<u64>,
    pub poke_notify: Arc<tokio::sync::Notify>,
}

pub type Peer = Arc<Mutex<PeerShared>>;

pub fn order_now() -> (u64, u64) {
    match kernel::current() {
        Some(c) => (c.now_ms(), c.next_order()),
        None => (0, 0),
    }
}

impl PeerShared {
    fn log(&mut self, ev: PeerEv) {
        if let Some(c) = kernel::current() {
            if c.log_enabled() {
                c.log(format!("  peer {:?}", ev));
            }
        }
        self.log.push(ev);
    }

    /// put an application fragment on the wire toward the master, `delay` ms from now
    /// raw octets toward the master
    pub fn transmit_wire(&mut self, wire: &[u8]) {
        let (t, _) = order_now();
        if let Some((to_client, _)) = self.conn.clone() {
            let lat = to_client.lock().unwrap().latency_ms;
            let due = (t + lat).max(self.last_delivery_ms);
            self.last_delivery_ms = due;
            io::chan_push(&to_client, due, wire.to_vec());
        }
    }

    pub fn transmit(
        &mut self,
        src: u16,
        bytes: &[u8],
        kind: &str,
        valid: bool,
        answers: Option<u64>,
        delay: u64,
    ) {
        let (t, order) = order_now();
        let dest = self.master_addr;
        let session = self.session;
        let mut with_con;
        let bytes: &[u8] = if self.force_con && bytes.len() >= 2 && bytes[1] == refapp::FUNC_RESPONSE {
            with_con = bytes.to_vec();
            with_con[0] |= 0x20;
            &with_con
        } else {
            bytes
        };
        if let Some((to_client, _)) = self.conn.clone() {
            let wire = self.link.encode_fragment(src, dest, bytes);
            let lat = to_client.lock().unwrap().latency_ms;
            // the stream preserves order: nothing overtakes an earlier (delayed) transmission
            let mut due = (t + delay + lat).max(self.last_delivery_ms);
            match self.split_next.take() {
                Some(cut) if wire.len() >= 2 => {
                    let cut = cut.clamp(1, wire.len() - 1);
                    io::chan_push(&to_client, due, wire[..cut].to_vec());
                    self.poke_at = Some(due + 1);
                    self.poke_notify.notify_one();
                    // the fragment counts as sent when its last octet leaves
                    due += 2;
                    io::chan_push(&to_client, due, wire[cut..].to_vec());
                    if let Some(c) = kernel::current() {
                        c.count("fault.read_future_cancelled", 1);
                    }
                }
                _ => io::chan_push(&to_client, due, wire),
            }
            self.last_delivery_ms = due;
            self.log(PeerEv::Tx {
                t: due - lat,
                order,
                src,
                bytes: bytes.to_vec(),
                kind: kind.to_string(),
                valid,
                answers,
                session,
            });
        }
    }
}

/// objects of a READ response fragment: n analog inputs g30v1 with unique values, indices consecutive from `first`
fn analog_objects(first_index: u8, values: &[u32]) -> Vec<u8> {
    if values.is_empty() {
        return Vec::new();
    }
    let mut out = vec![
        30,
        1,
        0x00,
        first_index,
        first_index + values.len() as u8 - 1,
    ];
    for v in values {
        out.push(0x01);
        out.extend_from_slice(&(*v as i32).to_le_bytes());
    }
    out
}

/// event objects (g32v1, 8-bit index prefix) with unique values
fn event_objects(values: &[u32]) -> Vec<u8> {
    if values.is_empty() {
        return Vec::new();
    }
    let mut out = vec![32, 1, 0x17, values.len() as u8];
    for (i, v) in values.iter().enumerate() {
        out.push(i as u8);
        out.push(0x01);
        out.extend_from_slice(&(*v as i32).to_le_bytes());
    }
    out
}

fn response_bytes(ctrl: Ctrl, func: u8, iin: (u8, u8), objects: &[u8]) -> Vec<u8> {
    let mut v = vec![ctrl.to_u8(), func, iin.0, iin.1];
    v.extend_from_slice(objects);
    v
}

fn mutate_echo(objects: &[u8], m: &EchoMutation) -> Vec<u8> {
    // parse the echo into headers of prefixed control objects
    let parsed = refapp::decode_objects(objects, true);
    let (headers, objs) = match parsed {
        Ok(x) => x,
        Err(_) => return objects.to_vec(),
    };
    // rebuild as (group, var, qualifier, Vec<(index, raw)>)
    let mut hs: Vec<(u8, u8, u8, Vec<(u32, Vec<u8>)>)> = headers
        .iter()
        .map(|h| (h.group, h.var, h.qualifier, Vec::new()))
        .collect();
    for o in &objs {
        if let Some(h) = hs.get_mut(o.header_no) {
            h.3.push((o.index.unwrap_or(0), o.raw.clone()));
        }
    }
    let total: usize = hs.iter().map(|h| h.3.len()).sum();
    let locate =
        |hs: &Vec<(u8, u8, u8, Vec<(u32, Vec<u8>)>)>, n: usize| -> Option<(usize, usize)> {
            let mut k = n % total.max(1);
            for (hi, h) in hs.iter().enumerate() {
                if k < h.3.len() {
                    return Some((hi, k));
                }
                k -= h.3.len();
            }
            None
        };
    match m {
        EchoMutation::Status { object, status } => {
            if let Some((h, o)) = locate(&hs, *object) {
                if let Some(last) = hs[h].3[o].1.last_mut() {
                    *last = *status;
                }
            }
        }
        EchoMutation::ValueBit { object, bit } => {
            if let Some((h, o)) = locate(&hs, *object) {
                let raw = &mut hs[h].3[o].1;
                let n = raw.len();
                if n > 1 {
                    let b = (*bit as usize) % ((n - 1) * 8);
                    raw[b / 8] ^= 1 << (b % 8);
                }
            }
        }
        EchoMutation::DropLastObject => {
            if let Some(h) = hs.last_mut() {
                h.3.pop();
            }
        }
        EchoMutation::DuplicateLastObject => {
            if let Some(h) = hs.last_mut() {
                if let Some(o) = h.3.last().cloned() {
                    h.3.push(o);
                }
            }
        }
        EchoMutation::SwapFirstTwoObjects => {
            if let Some(h) = hs.first_mut() {
                if h.3.len() >= 2 {
                    h.3.swap(0, 1);
                }
            }
        }
        EchoMutation::DropLastHeader => {
            hs.pop();
        }
        EchoMutation::Index { object } => {
            if let Some((h, o)) = locate(&hs, *object) {
                hs[h].3[o].0 = (hs[h].3[o].0 + 1) & 0xFF;
            }
        }
        EchoMutation::Qualifier => {
            if let Some(h) = hs.first_mut() {
                h.2 = if h.2 == 0x17 { 0x28 } else { 0x17 };
            }
        }
        EchoMutation::AddHeader => {
            if let Some(h) = hs.last().cloned() {
                hs.push(h);
            }
        }
        EchoMutation::SwapFirstTwoHeaders => {
            if hs.len() >= 2 {
                hs.swap(0, 1);
            }
        }
        EchoMutation::IndexHigh { object } => {
            if let Some((h, o)) = locate(&hs, *object) {
                if hs[h].2 == 0x28 {
                    hs[h].3[o].0 ^= 0x100;
                }
            }
        }
        EchoMutation::Variation { header } => {
            let n = hs.len().max(1);
            if let Some(h) = hs.get_mut(*header % n) {
                if h.0 == 41 && h.1 == 1 {
                    h.1 = 3;
                } else if h.0 == 41 && h.1 == 3 {
                    h.1 = 1;
                }
            }
        }
        EchoMutation::QualifierOf { header } => {
            let n = hs.len().max(1);
            if let Some(h) = hs.get_mut(*header % n) {
                h.2 = if h.2 == 0x17 { 0x28 } else { 0x17 };
            }
        }
    }
    let mut out = Vec::new();
    for (g, v, q, objs) in hs {
        out.push(g);
        out.push(v);
        out.push(q);
        if q == 0x17 {
            out.push(objs.len() as u8);
        } else {
            out.extend_from_slice(&(objs.len() as u16).to_le_bytes());
        }
        for (idx, raw) in objs {
            if q == 0x17 {
                out.push(idx as u8);
            } else {
                out.extend_from_slice(&(idx as u16).to_le_bytes());
            }
            out.extend_from_slice(&raw);
        }
    }
    out
}

/// the scripted outstation reacts to one application fragment from the master
fn on_fragment(p: &mut PeerShared, src: u16, dest: u16, bytes: &[u8], worder: u64) {
    let (t, order) = order_now();
    let session = p.session;
    p.rx_count += 1;
    p.log(PeerEv::Rx {
        t,
        order,
        worder,
        src,
        dest,
        bytes: bytes.to_vec(),
        session,
    });
    if bytes.len() < 2 {
        return;
    }
    let oi = match p.outstations.iter().position(|o| o.address == dest) {
        Some(i) => i,
        None => return,
    };
    let func = bytes[1];
    let seq = bytes[0] & 0x0F;
    if func == refapp::FUNC_CONFIRM {
        // continue a READ series
        let uns = bytes[0] & 0x10 != 0;
        let o = &mut p.outstations[oi];
        if !uns && !o.series.is_empty() && seq == o.series_seq {
            let next = o.series.pop_front().unwrap();
            o.series_seq = (o.series_seq + 1) & 0x0F;
            o.series_index += 1;
            let mut frag = next;
            frag[0] = (frag[0] & 0xF0) | o.series_seq;
            let addr = o.address;
            let answers = o.series_answers;
            let dev = match &o.series_dev {
                Some((at, _)) if *at == o.series_index => o.series_dev.take().map(|x| x.1),
                _ => None,
            };
            let nseq = o.series_seq;
            match dev {
                None => p.transmit(addr, &frag, "read-series-next", true, answers, 0),
                Some(SeriesDev::Flags(nibble)) => {
                    frag[0] = (nibble & 0xF0) | nseq;
                    let (fir, fin, con, uns) = (
                        frag[0] & 0x80 != 0,
                        frag[0] & 0x40 != 0,
                        frag[0] & 0x20 != 0,
                        frag[0] & 0x10 != 0,
                    );
                    let valid = !fir && !uns && (fin || con);
                    p.transmit(addr, &frag, "series-flags", valid, answers, 0);
                    if !valid || fin {
                        p.outstations[oi].series.clear();
                    }
                }
                Some(SeriesDev::StaleThenFaithful(d)) => {
                    let mut f = frag.clone();
                    f[0] = (f[0] & 0xF0) | ((nseq + d.max(1)) & 0x0F);
                    p.transmit(addr, &f, "series-stale", false, answers, 0);
                    p.transmit(addr, &frag, "read-series-next", true, answers, 0);
                }
                Some(SeriesDev::Dup) => {
                    p.transmit(addr, &frag, "read-series-next", true, answers, 0);
                    p.transmit(addr, &frag, "series-duplicate", false, answers, 0);
                }
                Some(SeriesDev::ForeignThenFaithful(a)) => {
                    p.transmit(a, &frag, "series-foreign", false, answers, 0);
                    p.transmit(addr, &frag, "read-series-next", true, answers, 0);
                }
                Some(SeriesDev::Truncate(n)) => {
                    let full = frag.len();
                    frag.truncate(n.max(1));
                    let valid = frag.len() == full;
                    p.transmit(addr, &frag, "truncated", valid, answers, 0);
                    if !valid {
                        p.outstations[oi].series.clear();
                    }
                }
                Some(SeriesDev::Skip) => {
                    p.outstations[oi].series.clear();
                }
            }
        }
        return;
    }
    let reply = p.outstations[oi]
        .replies
        .pop_front()
        .unwrap_or(Reply::Faithful);
    if reply != Reply::Faithful {
        p.last_deviation_ms = t;
    }
    // a new request aborts a series in progress
    p.outstations[oi].series.clear();

    // build the faithful response(s)
    let addr = p.outstations[oi].address;
    let iin = p.outstations[oi].iin;
    let mut fragments: Vec<Vec<u8>> = Vec::new();
    let mut no_reply = false;
    let mut hold_ms: u64 = 0;
    match func {
        refapp::FUNC_READ if !(bytes.len() >= 16 && bytes[2] == 70 && bytes[3] == 5) => {
            // like a real outstation: once the events of a class have been read they are no longer "available", and reading events
            // ends the overflow condition (otherwise a master that reacts to these indications would be driven round in circles)
            if let Ok(f) = refapp::decode_fragment(bytes) {
                let mut any = false;
                for h in &f.headers {
                    if h.group == 60 && (2..=4).contains(&h.var) {
                        p.outstations[oi].iin.0 &= !(1u8 << (h.var - 1));
                        any = true;
                    }
                }
                if any {
                    p.outstations[oi].iin.1 &= !0x08;
                }
            }
            let iin = p.outstations[oi].iin;
            let shape = p.outstations[oi].read_shape.clone();
            let n = shape.len().max(1);
            for (k, count) in shape.iter().enumerate() {
                let o = &mut p.outstations[oi];
                let values: Vec<u32> = (0..*count as u32).map(|i| o.next_value + i).collect();
                o.next_value += *count as u32;
                let mut objects = Vec::new();
                // the first fragment of an event poll carries events, all carry static data
                if k == 0 {
                    let ev: Vec<u32> = values.iter().take(1).copied().collect();
                    objects.extend(event_objects(&ev));
                    objects.extend(analog_objects(0, &values[ev.len().min(values.len())..]));
                } else {
                    objects.extend(analog_objects((k * 16) as u8, &values));
                }
                let ctrl = Ctrl {
                    fir: k == 0,
                    fin: k + 1 == n,
                    con: k + 1 != n,
                    uns: false,
                    seq,
                };
                fragments.push(response_bytes(ctrl, refapp::FUNC_RESPONSE, iin, &objects));
            }
        }
        refapp::FUNC_SELECT | refapp::FUNC_OPERATE | refapp::FUNC_DIRECT_OPERATE => {
            fragments.push(response_bytes(
                Ctrl::request(seq),
                refapp::FUNC_RESPONSE,
                iin,
                &bytes[2..],
            ));
        }
        refapp::FUNC_DIRECT_OPERATE_NR
        | refapp::FUNC_IMMED_FREEZE_NR
        | refapp::FUNC_FREEZE_CLEAR_NR
        | refapp::FUNC_FREEZE_AT_TIME_NR => {
            no_reply = true;
        }
        refapp::FUNC_DELAY_MEASURE => {
            let o = &p.outstations[oi];
            let d = o.processing_delay;
            if o.honest_delay {
                hold_ms = d as u64;
            }
            let mut objects = vec![52, 2, 0x07, 1];
            objects.extend_from_slice(&d.to_le_bytes());
            fragments.push(response_bytes(
                Ctrl::request(seq),
                refapp::FUNC_RESPONSE,
                iin,
                &objects,
            ));
        }
        refapp::FUNC_COLD_RESTART | refapp::FUNC_WARM_RESTART => {
            let mut objects = vec![52, 2, 0x07, 1];
            objects.extend_from_slice(&1500u16.to_le_bytes());
            fragments.push(response_bytes(
                Ctrl::request(seq),
                refapp::FUNC_RESPONSE,
                iin,
                &objects,
            ));
        }
        refapp::FUNC_RECORD_CURRENT_TIME => {
            p.outstations[oi].recorded_time_at = Some(t);
            p.outstations[oi].recorded_times.push(t);
            fragments.push(response_bytes(
                Ctrl::request(seq),
                refapp::FUNC_RESPONSE,
                iin,
                &[],
            ));
        }
        25 => {
            // OPEN_FILE with g70v3: the name "f<blocks>x<size>" says what the file looks like
            let obj = bytes.get(8..).unwrap_or(&[]);
            let name = obj
                .get(26..)
                .map(|n| String::from_utf8_lossy(n).to_string())
                .unwrap_or_default();
            let mut it = name.trim_start_matches('f').split('x');
            let blocks: u32 = it.next().and_then(|x| x.parse().ok()).unwrap_or(1);
            let bsize: u32 = it.next().and_then(|x| x.parse().ok()).unwrap_or(1);
            let o = &mut p.outstations[oi];
            o.file_handle += 1;
            o.file_bytes = None;
            let (blocks, bsize) = if name.starts_with('d') {
                // a directory: its contents are g70v7 records, served as one block
                let n: u32 = name[1..].parse().unwrap_or(0);
                let mut listing = Vec::new();
                for k in 0..n {
                    listing.extend(file_descriptor(&format!("entry{}", k), 100 + k, 0));
                }
                let len = listing.len() as u32;
                o.file_bytes = Some(listing);
                (1, len)
            } else {
                (blocks, bsize)
            };
            o.file = Some((o.file_handle, blocks.max(1), bsize));
            let mut body = Vec::new();
            body.extend_from_slice(&o.file_handle.to_le_bytes());
            body.extend_from_slice(&(blocks * bsize).to_le_bytes());
            body.extend_from_slice(&1024u16.to_le_bytes());
            body.extend_from_slice(&obj.get(24..26).map(|x| [x[0], x[1]]).unwrap_or([0, 0]));
            body.push(0);
            fragments.push(response_bytes(
                Ctrl::request(seq),
                refapp::FUNC_RESPONSE,
                iin,
                &free_format(70, 4, &body),
            ));
        }
        28 => {
            // GET_FILE_INFO with g70v7: answered with the descriptor of that name
            let obj = bytes.get(8..).unwrap_or(&[]);
            let name = obj
                .get(20..)
                .map(|n| String::from_utf8_lossy(n).to_string())
                .unwrap_or_default();
            let rid = obj
                .get(18..20)
                .map(|x| u16::from_le_bytes([x[0], x[1]]))
                .unwrap_or(0);
            fragments.push(response_bytes(
                Ctrl::request(seq),
                refapp::FUNC_RESPONSE,
                iin,
                &free_format(70, 7, &file_descriptor(&name, 4321, rid)),
            ));
        }
        29 => {
            // AUTHENTICATE_FILE with g70v2: answered with a key and empty names
            let mut body = Vec::new();
            body.extend_from_slice(&12u16.to_le_bytes());
            body.extend_from_slice(&0u16.to_le_bytes());
            body.extend_from_slice(&12u16.to_le_bytes());
            body.extend_from_slice(&0u16.to_le_bytes());
            body.extend_from_slice(&0x1234_ABCDu32.to_le_bytes());
            fragments.push(response_bytes(
                Ctrl::request(seq),
                refapp::FUNC_RESPONSE,
                iin,
                &free_format(70, 2, &body),
            ));
        }
        refapp::FUNC_WRITE if bytes.len() >= 16 && bytes[2] == 70 && bytes[3] == 5 => {
            // WRITE of a file block (g70v5): answered with the transport status g70v6 for that handle and block
            let obj = &bytes[8..];
            let mut body = obj[..8].to_vec();
            body.push(0);
            fragments.push(response_bytes(
                Ctrl::request(seq),
                refapp::FUNC_RESPONSE,
                iin,
                &free_format(70, 6, &body),
            ));
        }
        26 => {
            // CLOSE_FILE with g70v4
            let obj = bytes.get(8..).unwrap_or(&[]);
            let handle = obj
                .get(0..4)
                .map(|x| u32::from_le_bytes([x[0], x[1], x[2], x[3]]))
                .unwrap_or(0);
            p.outstations[oi].file = None;
            let mut body = Vec::new();
            body.extend_from_slice(&handle.to_le_bytes());
            body.extend_from_slice(&0u32.to_le_bytes());
            body.extend_from_slice(&0u16.to_le_bytes());
            body.extend_from_slice(&obj.get(10..12).map(|x| [x[0], x[1]]).unwrap_or([0, 0]));
            body.push(0);
            fragments.push(response_bytes(
                Ctrl::request(seq),
                refapp::FUNC_RESPONSE,
                iin,
                &free_format(70, 4, &body),
            ));
        }
        refapp::FUNC_READ if bytes.len() >= 16 && bytes[2] == 70 && bytes[3] == 5 => {
            // READ of the next file block
            let obj = &bytes[8..];
            let handle = u32::from_le_bytes([obj[0], obj[1], obj[2], obj[3]]);
            let block = u32::from_le_bytes([obj[4], obj[5], obj[6], obj[7]]) & 0x7FFF_FFFF;
            let (blocks, bsize) = match p.outstations[oi].file {
                Some((h, b, s)) if h == handle => (b, s),
                _ => (1, 1),
            };
            let mut body = Vec::new();
            body.extend_from_slice(&handle.to_le_bytes());
            let last = block + 1 >= blocks;
            body.extend_from_slice(&(block | if last { 0x8000_0000 } else { 0 }).to_le_bytes());
            match &p.outstations[oi].file_bytes {
                Some(bytes) => body.extend_from_slice(bytes),
                None => {
                    for i in 0..bsize as usize {
                        body.push(crate::verif::nodes::master::file_octet(block, i));
                    }
                }
            }
            fragments.push(response_bytes(
                Ctrl::request(seq),
                refapp::FUNC_RESPONSE,
                iin,
                &free_format(70, 5, &body),
            ));
        }
        refapp::FUNC_WRITE => {
            // restart-bit clear and time writes are interpreted, everything else just acknowledged
            if let Ok(f) = refapp::decode_fragment(bytes) {
                for o in &f.objects {
                    if o.group == 80 && o.var == 1 && o.index == Some(7) && o.raw == vec![0] {
                        p.outstations[oi].iin.0 &= !0x80;
                    }
                    if o.group == 50 && (o.var == 1 || o.var == 3) && o.raw.len() == 6 {
                        let mut v = 0u64;
                        for (i, x) in o.raw.iter().enumerate() {
                            v |= (*x as u64) << (8 * i);
                        }
                        p.outstations[oi].time_written.push((t, v, o.var));
                        // a successful time write clears NEED_TIME
                        if !p.outstations[oi].sticky_need_time {
                            p.outstations[oi].iin.0 &= !0x10;
                        }
                    }
                }
            }
            let iin = p.outstations[oi].iin;
            fragments.push(response_bytes(
                Ctrl::request(seq),
                refapp::FUNC_RESPONSE,
                iin,
                &[],
            ));
        }
        _ => {
            fragments.push(response_bytes(
                Ctrl::request(seq),
                refapp::FUNC_RESPONSE,
                iin,
                &[],
            ));
        }
    }
    let answers = Some(order);
    let send_faithful = |p: &mut PeerShared, delay: u64, kind: &str| {
        if no_reply || fragments.is_empty() {
            return;
        }
        let first = fragments[0].clone();
        p.transmit(addr, &first, kind, true, answers, delay + hold_ms);
        let o = &mut p.outstations[oi];
        o.series = fragments[1..].iter().cloned().collect();
        o.series_seq = seq;
        o.series_answers = answers;
        o.series_index = 0;
    };
    let (reply, force_con) = match reply {
        Reply::ConPlus(inner) => (*inner, true),
        r => (r, false),
    };
    p.force_con = force_con;
    let iin_with_con = matches!(reply, Reply::IinCon(..));
    match reply {
        Reply::Faithful => send_faithful(p, 0, "faithful"),
        Reply::Silent => {}
        Reply::Late(ms) => send_faithful(p, ms, "faithful-late"),
        Reply::WrongSeq(d) => {
            if let Some(f) = fragments.first() {
                let mut f = f.clone();
                f[0] = (f[0] & 0xF0) | ((seq + d.max(1)) & 0x0F);
                p.transmit(addr, &f, "wrong-seq", false, answers, 0);
            }
        }
        Reply::StaleThenFaithful(d) => {
            if let Some(f) = fragments.first() {
                let mut f = f.clone();
                f[0] = (f[0] & 0xF0) | ((seq + d.max(1)) & 0x0F);
                p.transmit(addr, &f, "stale", false, answers, 0);
            }
            send_faithful(p, 0, "faithful-after-stale");
        }
        Reply::WrongSource(a) => {
            if let Some(f) = fragments.first() {
                let f = f.clone();
                p.transmit(a, &f, "wrong-source", false, answers, 0);
            }
        }
        Reply::ForeignThenFaithful(a) => {
            if let Some(f) = fragments.first() {
                let f = f.clone();
                p.transmit(a, &f, "foreign", false, answers, 0);
            }
            send_faithful(p, 0, "faithful-after-foreign");
        }
        Reply::Flags(nibble) => {
            if let Some(f) = fragments.first() {
                let mut f = f.clone();
                let orig = f[0] & 0xF0;
                f[0] = (nibble & 0xF0) | seq;
                // still a correct answer if FIR/FIN/UNS are the right ones and confirmation is requested where it must be
                // (a response may always ask for confirmation)
                let (fir, fin, con, uns) = (
                    f[0] & 0x80 != 0,
                    f[0] & 0x40 != 0,
                    f[0] & 0x20 != 0,
                    f[0] & 0x10 != 0,
                );
                let _ = orig;
                let valid = if func == refapp::FUNC_READ {
                    // any well-formed first fragment: the master cannot know how many fragments were intended
                    fir && !uns && (fin || con)
                } else {
                    fir && fin && !uns
                };
                p.transmit(addr, &f, "flags", valid, answers, 0);
                if valid && f[0] & 0x40 == 0 {
                    // a non-final first fragment: the rest of the series (if any) follows its confirmation
                    let o = &mut p.outstations[oi];
                    o.series = fragments[1..].iter().cloned().collect();
                    o.series_seq = seq;
                    o.series_answers = answers;
                    o.series_index = 0;
                    o.series_index = 0;
                    o.series_index = 0;
                }
            }
        }
        Reply::Func(fc) => {
            if let Some(f) = fragments.first() {
                let mut f = f.clone();
                f[1] = fc;
                let valid = fc == refapp::FUNC_RESPONSE;
                p.transmit(addr, &f, "function", valid, answers, 0);
            }
        }
        Reply::Iin(a, b) | Reply::IinCon(a, b) => {
            if let Some(f) = fragments.first() {
                let mut f = f.clone();
                f[2] |= a;
                f[3] |= b;
                if iin_with_con {
                    f[0] |= 0x20;
                }
                // IIN2 bits 0..2 reject the request
                let valid = f[3] & 0x07 == 0;
                p.transmit(addr, &f, "iin", valid, answers, 0);
                if valid {
                    let o = &mut p.outstations[oi];
                    o.series = fragments[1..].iter().cloned().collect();
                    o.series_seq = seq;
                    o.series_answers = answers;
                    o.series_index = 0;
                    o.series_index = 0;
                    o.series_index = 0;
                }
            }
        }
        Reply::Truncate(n) => {
            if let Some(f) = fragments.first() {
                let mut f = f.clone();
                let full = f.len();
                f.truncate(n.max(1));
                let valid = f.len() == full;
                p.transmit(addr, &f, "truncated", valid, answers, 0);
            }
        }
        Reply::Objects(objs) => {
            if let Some(f) = fragments.first() {
                let mut f = f[..4.min(f.len())].to_vec();
                f.extend_from_slice(&objs);
                p.transmit(addr, &f, "objects-replaced", false, answers, 0);
            }
        }
        Reply::FileBlock(d) => {
            if let Some(f) = fragments.first() {
                let mut f = f.clone();
                let is_block = f.len() >= 18 && f[4] == 70 && f[5] == 5;
                if is_block {
                    let n = u32::from_le_bytes([f[14], f[15], f[16], f[17]]);
                    let m = (n & 0x8000_0000)
                        | ((n & 0x7FFF_FFFF).wrapping_add(d as i32 as u32) & 0x7FFF_FFFF);
                    f[14..18].copy_from_slice(&m.to_le_bytes());
                }
                let valid = !is_block || d == 0;
                p.transmit(addr, &f, "file-block-number", valid, answers, 0);
            }
        }
        Reply::FileStatus(code) => {
            if let Some(f) = fragments.first() {
                let mut f = f.clone();
                let mut is_status = f.len() >= 23 && f[4] == 70 && f[5] == 4;
                if is_status {
                    f[22] = code;
                } else if f.len() >= 19 && f[4] == 70 && f[5] == 6 {
                    // transport status of a written block
                    is_status = true;
                    f[18] = code;
                } else if f.len() >= 22 && f[4] == 70 && f[5] == 2 && code != 0 {
                    // authentication refused: key zero
                    is_status = true;
                    for b in &mut f[18..22] {
                        *b = 0;
                    }
                }
                let valid = !is_status || code == 0;
                p.transmit(addr, &f, "file-status", valid, answers, 0);
            }
        }
        Reply::Dup => {
            send_faithful(p, 0, "faithful");
            if let Some(f) = fragments.first() {
                let f = f.clone();
                p.transmit(addr, &f, "duplicate", false, answers, 0);
            }
        }
        Reply::UnsolThenFaithful {
            seq: useq,
            data,
            con,
        } => {
            send_unsolicited(p, oi, useq, data, con);
            send_faithful(p, 0, "faithful-after-unsolicited");
        }
        Reply::Echo(m) => {
            if let Some(f) = fragments.first() {
                let mut out = f[..4].to_vec();
                let mutated = mutate_echo(&f[4..], &m);
                let valid = mutated == f[4..];
                out.extend_from_slice(&mutated);
                p.transmit(addr, &out, "echo-mutated", valid, answers, 0);
            }
        }
        Reply::WithCon => {
            if !no_reply && !fragments.is_empty() {
                let last = fragments.len() - 1;
                fragments[last][0] |= 0x20;
                let first = fragments[0].clone();
                p.transmit(addr, &first, "faithful-with-con", true, answers, hold_ms);
                let o = &mut p.outstations[oi];
                o.series = fragments[1..].iter().cloned().collect();
                o.series_seq = seq;
                o.series_answers = answers;
                o.series_index = 0;
                o.series_index = 0;
            }
        }
        Reply::Cut => {
            p.cut_requested = Some(CloseKind::Reset);
        }
        Reply::FaithfulThenEof => {
            send_faithful(p, 0, "faithful");
            p.cut_requested = Some(CloseKind::Eof);
        }
        Reply::ConPlus(_) => {}
    }
    p.force_con = false;
}

/// body of a g70v7 file descriptor
fn file_descriptor(name: &str, size: u32, request_id: u16) -> Vec<u8> {
    let mut v = Vec::new();
    v.extend_from_slice(&20u16.to_le_bytes());
    v.extend_from_slice(&(name.len() as u16).to_le_bytes());
    v.extend_from_slice(&1u16.to_le_bytes());
    v.extend_from_slice(&size.to_le_bytes());
    v.extend_from_slice(&[0, 0, 0, 0, 0, 0]);
    v.extend_from_slice(&0x1FFu16.to_le_bytes());
    v.extend_from_slice(&request_id.to_le_bytes());
    v.extend_from_slice(name.as_bytes());
    v
}

/// one free-format object header (qualifier 0x5B, count 1, 16-bit size)
fn free_format(group: u8, var: u8, body: &[u8]) -> Vec<u8> {
    let mut v = vec![group, var, 0x5B, 1];
    v.extend_from_slice(&(body.len() as u16).to_le_bytes());
    v.extend_from_slice(body);
    v
}

pub fn send_unsolicited(p: &mut PeerShared, oi: usize, seq: u8, data: bool, con: bool) {
    let o = &mut p.outstations[oi];
    let addr = o.address;
    let iin = o.iin;
    let objects = if data {
        let v = o.next_value;
        o.next_value += 2;
        event_objects(&[v, v + 1])
    } else {
        Vec::new()
    };
    let ctrl = Ctrl {
        fir: true,
        fin: true,
        con,
        uns: true,
        seq: seq & 0x0F,
    };
    let bytes = response_bytes(ctrl, refapp::FUNC_UNSOL_RESPONSE, iin, &objects);
    p.last_unsol = Some((addr, bytes.clone()));
    p.transmit(
        addr,
        &bytes,
        if data {
            "unsolicited-data"
        } else {
            "unsolicited-null"
        },
        true,
        None,
        0,
    );
}

/// future that completes when the channel has deliverable data or is closed
struct Readable {
    chan: ChanRef,
    sleep: Option<Pin<Box<tokio::time::Sleep>>>,
}

impl Future for Readable {
    type Output = bool;
    fn poll(mut self: Pin<&mut Self>, cx: &mut Context<'_>) -> Poll<bool> {
        let now = kernel::current().map(|c| c.now_ms()).unwrap_or(0);
        let chan = self.chan.clone();
        let mut c = chan.lock().unwrap();
        if c.closed.is_some() && c.q.is_empty() {
            return Poll::Ready(false);
        }
        match c.q.front().map(|s| s.at_ms) {
            Some(at) if at <= now => Poll::Ready(true),
            Some(at) => {
                c.waker = Some(cx.waker().clone());
                drop(c);
                let mut s = Box::pin(tokio::time::sleep(Duration::from_millis(at - now)));
                let _ = s.as_mut().poll(cx);
                self.sleep = Some(s);
                Poll::Pending
            }
            None => {
                c.waker = Some(cx.waker().clone());
                Poll::Pending
            }
        }
    }
}

/// the scripted outstation(s) as a simulated task
pub async fn peer_task(peer: Peer, net: SimNetwork) {
    loop {
        let Accepted {
            to_client,
            from_client,
            ..
        } = net.accept().await;
        {
            let mut p = peer.lock().unwrap();
            p.session += 1;
            p.link = PeerLink::new(false);
            p.conn = Some((to_client.clone(), from_client.clone()));
            p.cut_requested = None;
            p.last_delivery_ms = 0;
            let (t, order) = order_now();
            let session = p.session;
            p.log(PeerEv::Connected { t, order, session });
        }
        loop {
            let alive = Readable {
                chan: from_client.clone(),
                sleep: None,
            }
            .await;
            let mut p = peer.lock().unwrap();
            if !alive {
                break;
            }
            // only segments whose delivery time has come
            let now = kernel::current().map(|c| c.now_ms()).unwrap_or(0);
            let ready = io::new_chan();
            {
                let mut c = from_client.lock().unwrap();
                while let Some(seg) = c.q.front() {
                    if seg.at_ms > now {
                        break;
                    }
                    let seg = c.q.pop_front().unwrap();
                    ready.lock().unwrap().q.push_back(seg);
                }
            }
            let before_links = p.link.link_frames.len();
            let frags = p.link.poll(&ready);
            // link-level requests
            let new_links: Vec<(u64, RefFrame)> = p.link.link_frames[before_links..].to_vec();
            let new_orders: Vec<u64> = p.link.link_frame_orders[before_links..].to_vec();
            for (k, (_, f)) in new_links.into_iter().enumerate() {
                let (t, order) = order_now();
                let worder = new_orders.get(k).copied().unwrap_or(order);
                p.log(PeerEv::LinkRx {
                    t,
                    order,
                    worder,
                    frame: f.clone(),
                });
                if f.ctrl & 0x4F == 0x49 {
                    // REQUEST_LINK_STATUS
                    if let Some(o) = p.outstations.iter().find(|o| o.address == f.dest) {
                        if o.answer_link_status {
                            let wire = p.link.encode_link_status_response(f.dest, f.src);
                            if let Some((to_client, _)) = p.conn.clone() {
                                let lat = to_client.lock().unwrap().latency_ms;
                                // the stream preserves order: the reply queues behind an earlier (delayed) transmission
                                let due = (now + lat).max(p.last_delivery_ms);
                                p.last_delivery_ms = due;
                                io::chan_push(&to_client, due, wire);
                                let (_, order) = order_now();
                                p.log(PeerEv::LinkTx {
                                    t: due - lat,
                                    order,
                                    src: f.dest,
                                });
                            }
                        }
                    }
                }
            }
            for fr in frags {
                on_fragment(&mut p, fr.src, fr.dest, &fr.bytes, fr.order);
            }
            if let Some(kind) = p.cut_requested.take() {
                io::chan_close(&to_client, kind);
                io::chan_close(&from_client, kind);
                break;
            }
        }
        let mut p = peer.lock().unwrap();
        p.conn = None;
        let (t, order) = order_now();
        let session = p.session;
        p.log(PeerEv::Closed { t, order, session });
    }
}

/// everything recorded during one run
pub struct MastRun {
    pub peer_log: Vec<PeerEv>,
    pub master_log: Vec<(u64, u64, MEv)>,
    /// (op index, virtual time, order) at which each script op was executed
    pub op_marks: Vec<(usize, u64, u64)>,
    pub net_attempts: Vec<(u64, ConnectPlan)>,
    pub end_ms: u64,
    /// (user request id, association address, what was asked)
    pub user_kinds: Vec<(u64, u16, UserKind)>,
    /// fragments in the order and at the moments the master's transport reader handed them to its application layer (hook H5):
    /// (virtual ms, order, link source, octets)
    pub master_rx: Vec<(u64, u64, u16, Vec<u8>)>,
    /// times written to the first scripted outstation: (virtual ms at the outstation, value, variation of g50)
    pub time_written: Vec<(u64, u64, u8)>,
    /// virtual ms at which the first scripted outstation received RECORD_CURRENT_TIME
    pub recorded_at: Vec<u64>,
    /// NEED_TIME was raised at some point of the run
    pub need_time_was_set: bool,
    /// poll operations that took effect: (script index, add / demand / remove, association, classes, period ms)
    pub poll_ops: Vec<(usize, &'static str, u16, u8, u64)>,
    /// executor polls of the master task, and of all tasks
    pub master_polls: u64,
    /// reply policies still queued in the scripted outstations at the end of the run
    pub leftover_replies: usize,
    /// when the scripted outstation last answered with anything but the faithful response
    pub last_deviation_ms: u64,
    /// associations whose outstation can never satisfy the master (reserved)
    pub stuck_indications: Vec<u16>,
}

pub fn classes_of(mask: u8) -> Classes {
    Classes::new(
        mask & 8 != 0,
        EventClasses::new(mask & 1 != 0, mask & 2 != 0, mask & 4 != 0),
    )
}

/// what a command set must look like on the wire (reference encoding, independent of the library's builder)
pub fn reference_command_objects(headers: &[Vec<(u8, u16, bool)>]) -> Vec<u8> {
    let mut out = Vec::new();
    for h in headers {
        let Some((var, _, wide)) = h.first().copied() else { continue };
        let (group, variation) = if var == 0 { (12u8, 1u8) } else { (41u8, var.min(4)) };
        out.push(group);
        out.push(variation);
        if wide {
            out.push(0x28);
            out.extend_from_slice(&(h.len() as u16).to_le_bytes());
        } else {
            out.push(0x17);
            out.push(h.len() as u8);
        }
        for (_, index, _) in h {
            if wide {
                out.extend_from_slice(&index.to_le_bytes());
            } else {
                out.push(*index as u8);
            }
            match var {
                0 => out.extend(refapp::crob(0x03, 1, 1000, 1000, 0)),
                1 => {
                    out.extend_from_slice(&(*index as i32 + 7).to_le_bytes());
                    out.push(0);
                }
                2 => {
                    out.extend_from_slice(&(*index as i16 - 3).to_le_bytes());
                    out.push(0);
                }
                3 => {
                    out.extend_from_slice(&(*index as f32 * 0.5).to_le_bytes());
                    out.push(0);
                }
                _ => {
                    out.extend_from_slice(&(*index as f64 * 0.25).to_le_bytes());
                    out.push(0);
                }
            }
        }
    }
    out
}

fn build_commands(headers: &[Vec<(u8, u16, bool)>]) -> crate::master::CommandHeaders {
    use crate::app::control::{
        ControlCode, Group12Var1, Group41Var1, Group41Var2, Group41Var3, Group41Var4, OpType,
        TripCloseCode,
    };
    let mut b = CommandBuilder::new();
    for (hi, h) in headers.iter().enumerate() {
        for (var, index, wide) in h {
            macro_rules! add {
                ($cmd:expr) => {
                    if *wide {
                        b.add_u16($cmd, *index)
                    } else {
                        b.add_u8($cmd, *index as u8)
                    }
                };
            }
            match var {
                0 => add!(Group12Var1::from_op_type(OpType::LatchOn)),
                1 => add!(Group41Var1::new(*index as i32 + 7)),
                2 => add!(Group41Var2::new(*index as i16 - 3)),
                3 => add!(Group41Var3::new(*index as f32 * 0.5)),
                _ => add!(Group41Var4::new(*index as f64 * 0.25)),
            }
        }
        // between headers of different kinds the builder starts a new header by itself; do it explicitly only when the
        // kinds are equal (it is the only way to get two headers then) or for half of the other cases
        let same_kind = match (h.first(), headers.get(hi + 1).and_then(|n| n.first())) {
            (Some(a), Some(b)) => a.0 == b.0 && a.2 == b.2,
            _ => true,
        };
        let explicit = h.first().map(|f| (f.1 as usize + h.len()) % 2 == 0).unwrap_or(true);
        if same_kind || explicit {
            b.finish_header();
        }
    }
    let _ = (
        ControlCode::from_op_type(OpType::LatchOn),
        TripCloseCode::Nul,
    );
    b.build()
}

/// spawn a simulated user thread performing one request and recording its outcome
pub fn spawn_user(
    sim: &Sim,
    node: &MasterNode,
    id: u64,
    assoc: &AssociationHandle,
    kind: &UserKind,
) {
    let rec = node.rec.clone();
    let mut h = assoc.clone();
    let kind = kind.clone();
    sim.spawn("user", async move {
        let (ok, outcome) = match kind {
            UserKind::ReadClasses(mask) => {
                match h.read(ReadRequest::class_scan(classes_of(mask))).await {
                    Ok(()) => (true, "Ok".to_string()),
                    Err(e) => (false, format!("{:?}", e)),
                }
            }
            UserKind::ReadCustom(mask) => {
                let handler = crate::verif::nodes::master::custom_reader(rec.clone(), h.address().raw_value());
                match h
                    .read_with_handler(ReadRequest::class_scan(classes_of(mask)), handler)
                    .await
                {
                    Ok(()) => (true, "Ok".to_string()),
                    Err(e) => (false, format!("{:?}", e)),
                }
            }
            UserKind::Command { sbo, headers } => {
                let mode = if sbo {
                    CommandMode::SelectBeforeOperate
                } else {
                    CommandMode::DirectOperate
                };
                match h.operate(mode, build_commands(&headers)).await {
                    Ok(()) => (true, "Ok".to_string()),
                    Err(e) => (false, format!("{:?}", e)),
                }
            }
            UserKind::TimeSync(p) => {
                let proc = match p {
                    1 => TimeSyncProcedure::Lan,
                    2 => TimeSyncProcedure::NonLan,
                    _ => TimeSyncProcedure::DirectWriteAbsTime,
                };
                match h.synchronize_time(proc).await {
                    Ok(()) => (true, "Ok".to_string()),
                    Err(e) => (false, format!("{:?}", e)),
                }
            }
            UserKind::Restart { cold } => {
                let r = if cold {
                    h.cold_restart().await
                } else {
                    h.warm_restart().await
                };
                match r {
                    Ok(d) => (true, format!("Ok({:?})", d)),
                    Err(e) => (false, format!("{:?}", e)),
                }
            }
            UserKind::LinkStatus => match h.check_link_status().await {
                Ok(()) => (true, "Ok".to_string()),
                Err(e) => (false, format!("{:?}", e)),
            },
            UserKind::FileRead {
                blocks,
                block_size,
                abort_at,
                auth,
            } => {
                let reader = crate::verif::nodes::master::FReader {
                    rec: rec.clone(),
                    id,
                    abort_at: abort_at.map(|x| x as u32),
                };
                let name = format!("f{}x{}", blocks, block_size);
                let config = crate::master::FileReadConfig {
                    max_block_size: 1024,
                    max_file_size: 10_000,
                };
                let credentials = if auth {
                    Some(crate::master::FileCredentials {
                        user_name: "user".to_string(),
                        password: "secret".to_string(),
                    })
                } else {
                    None
                };
                match h.read_file(name, config, Box::new(reader), credentials).await {
                    Ok(()) => (true, "Queued".to_string()),
                    Err(e) => (false, format!("{:?}", e)),
                }
            }
            UserKind::Directory(n) => {
                let config = crate::master::DirReadConfig {
                    max_block_size: 1024,
                    max_file_size: 10_000,
                };
                match h.read_directory(format!("d{}", n), config, None).await {
                    Ok(items) => (
                        true,
                        format!(
                            "Ok({} entries: {:?})",
                            items.len(),
                            items
                                .iter()
                                .map(|i| (i.name.clone(), i.size))
                                .collect::<Vec<_>>()
                        ),
                    ),
                    Err(e) => (false, format!("{:?}", e)),
                }
            }
            UserKind::FileAuth => {
                let cred = crate::master::FileCredentials {
                    user_name: "user".to_string(),
                    password: "secret".to_string(),
                };
                match h.get_file_auth_key(cred).await {
                    Ok(k) => (true, format!("Ok({:?})", k)),
                    Err(e) => (false, format!("{:?}", e)),
                }
            }
            UserKind::FileOpen(write) => {
                match h
                    .open_file(
                        "w.bin",
                        crate::master::AuthKey::new(0x0102_0304),
                        crate::app::Permissions::default(),
                        300,
                        if write {
                            crate::master::FileMode::Write
                        } else {
                            crate::master::FileMode::Read
                        },
                        512,
                    )
                    .await
                {
                    Ok(f) => (true, format!("Ok({:?})", f)),
                    Err(e) => (false, format!("{:?}", e)),
                }
            }
            UserKind::FileWriteBlock(block, len, last) => {
                let mut bn = crate::master::BlockNumber::default();
                for _ in 0..block {
                    let _ = bn.increment();
                }
                if last {
                    bn.set_last();
                }
                let data: Vec<u8> = (0..len as usize)
                    .map(|i| crate::verif::nodes::master::file_octet(block as u32, i))
                    .collect();
                match h
                    .write_file_block(crate::master::FileHandle::new(7), bn, data)
                    .await
                {
                    Ok(()) => (true, "Ok".to_string()),
                    Err(e) => (false, format!("{:?}", e)),
                }
            }
            UserKind::FileClose => match h.close_file(crate::master::FileHandle::new(7)).await {
                Ok(()) => (true, "Ok".to_string()),
                Err(e) => (false, format!("{:?}", e)),
            },
            UserKind::FileInfo => match h.get_file_info("info.txt").await {
                Ok(i) => (true, format!("Ok({} {})", i.name, i.size)),
                Err(e) => (false, format!("{:?}", e)),
            },
            UserKind::DeadBands(n) => {
                let items: Vec<(u8, u16)> = (0..n.max(1)).map(|i| (i, 100 + i as u16)).collect();
                match h
                    .write_dead_bands(vec![crate::master::DeadBandHeader::group34_var1_u8(items)])
                    .await
                {
                    Ok(()) => (true, "Ok".to_string()),
                    Err(e) => (false, format!("{:?}", e)),
                }
            }
            UserKind::Empty(fc) => {
                let func = crate::app::FunctionCode::from(fc)
                    .unwrap_or(crate::app::FunctionCode::RecordCurrentTime);
                match h
                    .send_and_expect_empty_response(func, crate::master::Headers::new())
                    .await
                {
                    Ok(()) => (true, "Ok".to_string()),
                    Err(e) => (false, format!("{:?}", e)),
                }
            }
        };
        rec.lock().unwrap().push(MEv::UserDone { id, ok, outcome });
    });
}

pub async fn drive(sim: &Sim, case: &SmastCase) -> MastRun {
    sim.core().record_popped.set(true);
    let net = SimNetwork::new(ChunkMode::from_index(case.chunk as u64), case.chunk_seed);
    net.set_latency(case.latency.0, case.latency.1, 0, 0);
    let peer: Peer = Arc::new(Mutex::new(PeerShared {
        master_addr: case.cfg.master_addr,
        outstations: case
            .cfg
            .assocs
            .iter()
            .map(|a| OutstationSim::new(a.address))
            .collect(),
        log: Vec::new(),
        session: 0,
        conn: None,
        link: PeerLink::new(false),
        cut_requested: None,
        rx_count: 0,
        last_unsol: None,
        last_delivery_ms: 0,
        last_deviation_ms: 0,
        split_next: None,
        force_con: false,
        poke_at: None,
        poke_notify: Arc::new(tokio::sync::Notify::new()),
    }));
    sim.spawn("scripted-outstation", peer_task(peer.clone(), net.clone()));
    let mut node = MasterNode::start(sim, &case.cfg, net.clone()).await;
    {
        // delivers the channel message that falls between the two pieces of a split fragment
        let peer = peer.clone();
        let mut channel = node.channel.clone();
        let notify = peer.lock().unwrap().poke_notify.clone();
        let level = if case.cfg.decode_all {
            crate::decode::DecodeLevel::new(
                crate::decode::AppDecodeLevel::ObjectValues,
                crate::decode::TransportDecodeLevel::Payload,
                crate::decode::LinkDecodeLevel::Payload,
                crate::decode::PhysDecodeLevel::Data,
            )
        } else {
            crate::decode::DecodeLevel::nothing()
        };
        sim.spawn("poker", async move {
            loop {
                notify.notified().await;
                let at = peer.lock().unwrap().poke_at.take();
                if let Some(at) = at {
                    let now = kernel::current().map(|c| c.now_ms()).unwrap_or(0);
                    tokio::time::sleep(Duration::from_millis(at.saturating_sub(now))).await;
                    let _ = channel.set_decode_level(level).await;
                    if let Some(c) = kernel::current() {
                        if c.log_enabled() {
                            c.log("  channel message between the two pieces of a split fragment".to_string());
                        }
                    }
                }
            }
        });
    }
    let mut polls: Vec<crate::master::PollHandle> = Vec::new();
    let mut op_marks = Vec::new();
    let mut next_user_id = 0u64;
    let mut user_kinds: Vec<(u64, u16, UserKind)> = Vec::new();
    let mut poll_keys: Vec<(u16, u8, u64)> = Vec::new();
    let mut poll_ops: Vec<(usize, &'static str, u16, u8, u64)> = Vec::new();

    for (i, op) in case.script.iter().enumerate() {
        op_marks.push((i, sim.now_ms(), sim.core().next_order()));
        sim.log(|| format!("op {}: {:?}", i, op));
        match op {
            MOp::User { assoc, kind } => {
                if let Some(h) = node.assocs.get(*assoc % node.assocs.len().max(1)) {
                    let h = h.clone();
                    node.rec.lock().unwrap().push(MEv::Other {
                        assoc: h.address().raw_value(),
                        what: format!("user-request id={} {:?}", next_user_id, kind),
                    });
                    spawn_user(sim, &node, next_user_id, &h, kind);
                    user_kinds.push((next_user_id, h.address().raw_value(), kind.clone()));
                    next_user_id += 1;
                }
            }
            MOp::AddPoll {
                assoc,
                classes,
                period_ms,
            } => {
                if let Some(h) = node.assocs.get(*assoc % node.assocs.len().max(1)) {
                    let mut h = h.clone();
                    let h2_addr = h.address().raw_value();
                    let slot: Arc<Mutex<Option<crate::master::PollHandle>>> =
                        Arc::new(Mutex::new(None));
                    let s2 = slot.clone();
                    let req = ReadRequest::class_scan(classes_of(*classes));
                    // (u64::MAX stands for a period that cannot be represented: a poll that only ever runs on demand)
                    let period = if *period_ms == u64::MAX { Duration::MAX } else { Duration::from_millis(*period_ms) };
                    sim.spawn("add-poll", async move {
                        if let Ok(p) = h.add_poll(req, period).await {
                            *s2.lock().unwrap() = Some(p);
                        }
                    });
                    sim.settle().await;
                    let added = slot.lock().unwrap().take();
                    if let Some(p) = added {
                        polls.push(p);
                        poll_keys.push((h2_addr, *classes, *period_ms));
                        poll_ops.push((i, "add", h2_addr, *classes, *period_ms));
                    }
                }
            }
            MOp::DemandPoll(k) => {
                if !polls.is_empty() {
                    let mut p = polls[*k % polls.len()].clone();
                    let key = poll_keys[*k % polls.len()];
                    poll_ops.push((i, "demand", key.0, key.1, key.2));
                    sim.spawn("demand-poll", async move {
                        let _ = p.demand().await;
                    });
                }
            }
            MOp::RemovePoll(k) => {
                if !polls.is_empty() {
                    let key = poll_keys.remove(*k % polls.len());
                    let p = polls.remove(*k % polls.len());
                    poll_ops.push((i, "remove", key.0, key.1, key.2));
                    sim.spawn("remove-poll", async move {
                        let _ = p.remove().await;
                    });
                }
            }
            MOp::Enable => {
                let mut c = node.channel.clone();
                sim.spawn("enable", async move {
                    let _ = c.enable().await;
                });
            }
            MOp::Disable => {
                let mut c = node.channel.clone();
                sim.spawn("disable", async move {
                    let _ = c.disable().await;
                });
                sim.count("fault.disable");
            }
            MOp::RemoveAssoc(k) => {
                if !node.assocs.is_empty() {
                    let h = node.assocs.remove(*k % node.assocs.len());
                    sim.spawn("remove-association", async move {
                        let _ = h.remove().await;
                    });
                    sim.count("fault.remove_association");
                }
            }
            MOp::Replies { assoc, replies } => {
                let mut p = peer.lock().unwrap();
                let n = p.outstations.len().max(1);
                if let Some(o) = p.outstations.get_mut(*assoc % n) {
                    o.replies.extend(replies.iter().cloned());
                }
            }
            MOp::SetIin { assoc, iin1, iin2 } => {
                let mut p = peer.lock().unwrap();
                let n = p.outstations.len().max(1);
                if let Some(o) = p.outstations.get_mut(*assoc % n) {
                    o.iin = (*iin1, *iin2);
                }
            }
            MOp::Unsol {
                assoc,
                seq,
                data,
                con,
            } => {
                let mut p = peer.lock().unwrap();
                let n = p.outstations.len().max(1);
                send_unsolicited(&mut p, *assoc % n, *seq, *data, *con);
            }
            MOp::UnsolRepeat => {
                let mut p = peer.lock().unwrap();
                if let Some((addr, bytes)) = p.last_unsol.clone() {
                    p.transmit(addr, &bytes, "unsolicited-repeat", true, None, 0);
                }
            }
            MOp::Raw { src, bytes } => {
                let mut p = peer.lock().unwrap();
                p.transmit(*src, bytes, "raw", false, None, 0);
            }
            MOp::Wire(bytes) => {
                let mut p = peer.lock().unwrap();
                p.transmit_wire(bytes);
                sim.count("fault.wire_garbage");
            }
            MOp::LinkPadding { assoc, n } => {
                let mut p = peer.lock().unwrap();
                let k = p.outstations.len().max(1);
                let addr = p.outstations[*assoc % k].address;
                let master = p.master_addr;
                let mut wire = Vec::new();
                for _ in 0..*n {
                    wire.extend(p.link.encode_link_status_response(addr, master));
                }
                p.transmit_wire(&wire);
            }
            MOp::ClearReplies => {
                let mut p = peer.lock().unwrap();
                for o in p.outstations.iter_mut() {
                    o.replies.clear();
                    o.series.clear();
                    o.series_dev = None;
                }
            }
            MOp::ReadShape { assoc, fragments } => {
                let mut p = peer.lock().unwrap();
                let n = p.outstations.len().max(1);
                if let Some(o) = p.outstations.get_mut(*assoc % n) {
                    o.read_shape = fragments.clone();
                }
            }
            MOp::SeriesDev { assoc, at, dev } => {
                let mut p = peer.lock().unwrap();
                let n = p.outstations.len().max(1);
                if let Some(o) = p.outstations.get_mut(*assoc % n) {
                    o.series_dev = Some((*at, dev.clone()));
                }
            }
            MOp::ProcessingDelay { assoc, ms, honest } => {
                let mut p = peer.lock().unwrap();
                let n = p.outstations.len().max(1);
                if let Some(o) = p.outstations.get_mut(*assoc % n) {
                    o.processing_delay = *ms;
                    o.honest_delay = *honest;
                }
            }
            MOp::Sleep(ms) => {
                sim.sleep_ms(*ms).await;
            }
            MOp::Cut { eof } => {
                let conn = peer.lock().unwrap().conn.clone();
                if let Some((a, b)) = conn {
                    let kind = if *eof {
                        CloseKind::Eof
                    } else {
                        CloseKind::Reset
                    };
                    io::chan_close(&a, kind);
                    io::chan_close(&b, kind);
                    sim.count("fault.cut");
                }
            }
            MOp::AnswerLinkStatus { assoc, on } => {
                let mut p = peer.lock().unwrap();
                let n = p.outstations.len().max(1);
                if let Some(o) = p.outstations.get_mut(*assoc % n) {
                    o.answer_link_status = *on;
                }
            }
            MOp::StickyNeedTime(on) => {
                let mut p = peer.lock().unwrap();
                for o in p.outstations.iter_mut() {
                    o.sticky_need_time = *on;
                }
            }
            MOp::KillMaster => {
                sim.kill(node.task);
                sim.count("fault.master_task_dropped");
            }
            MOp::SplitNextReply(cut) => {
                peer.lock().unwrap().split_next = Some(*cut);
            }
            MOp::Poke => {
                let mut c = node.channel.clone();
                let level = if case.cfg.decode_all {
                    crate::decode::DecodeLevel::new(
                        crate::decode::AppDecodeLevel::ObjectValues,
                        crate::decode::TransportDecodeLevel::Payload,
                        crate::decode::LinkDecodeLevel::Payload,
                        crate::decode::PhysDecodeLevel::Data,
                    )
                } else {
                    crate::decode::DecodeLevel::nothing()
                };
                sim.spawn("poke", async move {
                    let _ = c.set_decode_level(level).await;
                });
            }
            MOp::NetPlan(plan) => {
                for x in plan {
                    net.plan(match x % 3 {
                        0 => ConnectPlan::Accept,
                        1 => ConnectPlan::Refuse,
                        _ => ConnectPlan::Hang,
                    });
                }
            }
        }
        sim.settle().await;
    }
    if case.tail_ms > 0 {
        sim.sleep_ms(case.tail_ms).await;
    }
    sim.settle().await;
    let end_ms = sim.now_ms();
    let leftover_replies: usize = peer
        .lock()
        .unwrap()
        .outstations
        .iter()
        .map(|o| o.replies.len())
        .sum();
    let peer_log = peer.lock().unwrap().log.clone();
    let time_written = peer
        .lock()
        .unwrap()
        .outstations
        .first()
        .map(|o| o.time_written.clone())
        .unwrap_or_default();
    let recorded_at = peer
        .lock()
        .unwrap()
        .outstations
        .first()
        .map(|o| o.recorded_times.clone())
        .unwrap_or_default();
    let last_deviation_ms = peer.lock().unwrap().last_deviation_ms;
    let run = MastRun {
        peer_log,
        master_log: node.rec.lock().unwrap().log.clone(),
        op_marks,
        net_attempts: net.attempts(),
        end_ms,
        user_kinds,
        leftover_replies,
        time_written,
        recorded_at,
        need_time_was_set: case
            .script
            .iter()
            .any(|o| matches!(o, MOp::SetIin { iin1, .. } if iin1 & 0x10 != 0)),
        poll_ops,
        master_polls: sim.task_polls(node.task),
        last_deviation_ms,
        master_rx: sim.core().popped.borrow().clone(),
        stuck_indications: Vec::new(),
    };
    run
}

// ---------------------------------------------------------------------------------------------
// glue: run an S-MAST case in a fresh world

use crate::verif::kernel::{Exit, RunParams};
use crate::verif::runner::{Outcome, Violation};

/// run the case; `analyse` inspects the recorded history and returns (violation, nontrivial, fingerprint, counters)
pub fn execute<F>(prop: &'static str, case: &SmastCase, log: bool, analyse: F) -> Outcome
where
    F: FnOnce(&SmastCase, &MastRun) -> (Option<Violation>, bool, u64, Vec<(String, u64)>),
{
    let mut outcome = Outcome::default();
    let result: Arc<Mutex<Option<MastRun>>> = Arc::new(Mutex::new(None));
    let r2 = result.clone();
    let case2 = case.clone();
    let params = RunParams {
        log,
        sched_seed: case.chunk_seed,
        tokio_seed: case.chunk_seed ^ 0x517C_C1B7,
        step_cap: 600_000,
        ..Default::default()
    };
    let decode_all = case.cfg.decode_all;
    let run = move || {
        kernel::run_world(params, move |sim| async move {
            let r = drive(&sim, &case2).await;
            *r2.lock().unwrap() = Some(r);
        })
    };
    let report = if decode_all || log {
        crate::verif::trace_sub::with_subscriber(run)
    } else {
        run()
    };
    outcome.sim_ms = report.sim_ms;
    outcome.steps = report.steps;
    outcome.trace_hash = report.trace_hash;
    outcome.log = report.log;
    for (k, v) in &report.counters {
        if k.starts_with("fault.") || k.starts_with("probe.") {
            outcome.count(k, *v);
        }
    }
    outcome.count(
        "fault.rechunk",
        report.counters.get("phys_reads").copied().unwrap_or(0),
    );
    match &report.exit {
        Exit::Done => {}
        Exit::Panic(task, msg, loc) => {
            if loc.contains("/verif/") {
                outcome.harness_error =
                    Some(format!("harness panic in {}: {} at {}", task, msg, loc));
            } else {
                let short = loc.rsplit("/dnp3/src/").next().unwrap_or(loc).to_string();
                outcome.violation = Some(Violation::new(
                    &format!("{}/panic", prop),
                    short,
                    format!("task '{}' panicked: {} at {}", task, msg, loc),
                ));
            }
            return outcome;
        }
        Exit::Spin(task) => {
            outcome.violation = Some(Violation::new(
                &format!("{}/spin", prop),
                task.clone(),
                format!("task '{}' was polled more than the spin budget without virtual time advancing or input being consumed", task),
            ));
            return outcome;
        }
        Exit::StepCap if prop == "C19" || prop == "C01" => {
            // the scripts of these scenarios need a few thousand executor steps; six hundred thousand in some tens of seconds of
            // virtual time is an endpoint that wakes up over and over without anything to do ("rather than spinning", "never stalls")
            outcome.violation = Some(Violation::new(
                &format!("{}/busy-waiting", prop),
                "step-cap",
                format!(
                    "the run used up its budget of {} executor steps in {} ms of virtual time",
                    report.steps, report.sim_ms
                ),
            ));
            return outcome;
        }
        other => {
            outcome.harness_error = Some(format!("run ended with {:?}", other));
            return outcome;
        }
    }
    let run = result.lock().unwrap().take();
    match run {
        Some(run) => {
            let (mut v, nt, fp, counters) = analyse(case, &run);
            // common to every scenario on this engine: unless the script puts raw octets on the wire, every octet the master
            // receives is part of a well-formed link frame - however it is cut into pieces and whatever wakes the master in
            // between - so a framing error is the master's own doing
            let raw_octets = case
                .script
                .iter()
                .any(|op| matches!(op, MOp::Wire(_) | MOp::LinkPadding { .. }));
            if v.is_none() && !raw_octets {
                for (t, _, ev) in &run.master_log {
                    let text = match ev {
                        MEv::TaskFail { err, .. } if err.contains("BadFrame") => Some(err.clone()),
                        MEv::UserDone { outcome, .. } if outcome.contains("BadFrame") => {
                            Some(outcome.clone())
                        }
                        _ => None,
                    };
                    if let Some(text) = text {
                        v = Some(Violation::new(
                            &format!("{}/framing-error-on-well-formed-stream", prop),
                            "",
                            format!("at {} ms the master reported {} although the scripted outstation only sent well-formed link frames", t, text),
                        ));
                        break;
                    }
                }
            }
            outcome.violation = v;
            outcome.nontrivial = nt;
            outcome.fingerprint = fp;
            for (k, n) in counters {
                outcome.count(&k, n);
            }
        }
        None => outcome.harness_error = Some("driver produced no result".to_string()),
    }
    outcome
}

pub fn shrink_case(case: &SmastCase) -> Vec<SmastCase> {
    let mut out = Vec::new();
    for s in crate::verif::runner::shrink_vec(&case.script) {
        let mut c = case.clone();
        c.script = s;
        out.push(c);
    }
    if case.chunk != 0 {
        let mut c = case.clone();
        c.chunk = 0;
        out.push(c);
    }
    if case.latency != (0, 0) {
        let mut c = case.clone();
        c.latency = (0, 0);
        out.push(c);
    }
    if case.cfg.assocs.len() > 1 {
        let mut c = case.clone();
        c.cfg.assocs.truncate(1);
        out.push(c);
    }
    if case.cfg.decode_all {
        let mut c = case.clone();
        c.cfg.decode_all = false;
        out.push(c);
    }
    for (i, op) in case.script.iter().enumerate() {
        if let MOp::Replies { assoc, replies } = op {
            if replies.len() > 1 {
                for r in crate::verif::runner::shrink_vec(replies) {
                    let mut c = case.clone();
                    c.script[i] = MOp::Replies {
                        assoc: *assoc,
                        replies: r,
                    };
                    out.push(c);
                }
            }
        }
        if let MOp::Sleep(ms) = op {
            if *ms > 1 {
                let mut c = case.clone();
                c.script[i] = MOp::Sleep(ms / 2);
                out.push(c);
            }
        }
    }
    out
}

/// the cancellation fault for the master: now and then the next fragment from the scripted outstation arrives in two pieces
/// (cut inside the link header, right after it, or anywhere) with a channel message reaching the master in between
pub fn sprinkle_split_replies(rng: &mut crate::verif::rng::Rng, script: &mut Vec<MOp>) {
    if !rng.chance(1, 3) {
        return;
    }
    let mut out = Vec::with_capacity(script.len() + 4);
    for op in script.drain(..) {
        if matches!(op, MOp::User { .. } | MOp::Unsol { .. }) && rng.chance(1, 5) {
            out.push(MOp::SplitNextReply(*rng.pick(&[
                1usize, 2, 3, 9, 10, 11, 12, 17, 26, 27, 28, 40, 292, 292, 293, 302, 584,
            ])));
        }
        out.push(op);
    }
    *script = out;
}
