//! C06 - only intact link frames are delivered, and every frame sent is recovered (engine S-LINK).
//!
//! Real code: link::reader::Reader::read_frame, link::parser, link::crc, link::format.
//! Stub: the physical layer (SimSocket with an explicit read plan / datagram boundaries).
//! Oracle: the reference whole-stream deframer of refcodec::link.

use crate::decode::DecodeLevel;
use crate::link::format::{format_data_frame, format_header_only, Payload};
use crate::link::header::{AnyAddress, ControlField, Header};
use crate::link::parser::FramePayload;
use crate::link::reader::{LinkModes, Reader};
use crate::link::{LinkErrorMode, LinkReadMode};
use crate::util::phys::PhysLayer;
use crate::verif::io::{self, ChunkMode, CloseKind, SimSocket};
use crate::verif::kernel::{self, Exit, RunParams};
use crate::verif::refcodec::link as reflink;
use crate::verif::refcodec::link::RefFrame;
use crate::verif::rng::Rng;
use crate::verif::runner::{
    erase, shrink_vec, Codec, Outcome, Property, Scenario, Tier, Violation,
};
use serde::{Deserialize, Serialize};
use std::sync::{Arc, Mutex};

#[derive(Clone, Debug, Serialize, Deserialize)]
pub enum Segment {
    /// a frame formatted by the library's own formatter
    Frame(RefFrame),
    /// line noise
    Noise(Vec<u8>),
}

#[derive(Clone, Debug, Serialize, Deserialize)]
pub enum Fault {
    /// flip bit `bit` (0..8) of the octet at stream offset `at`
    Flip { at: usize, bit: u8 },
    /// cut the stream after `len` octets
    Truncate { len: usize },
}

#[derive(Clone, Debug, Serialize, Deserialize)]
pub struct Case {
    pub close_mode: bool,
    pub datagram: bool,
    /// maximum fragment size the reader is sized for (249..=2048)
    pub frag_size: usize,
    pub segments: Vec<Segment>,
    pub faults: Vec<Fault>,
    /// stream mode: sizes of successive reads (cycled); datagram mode: sizes of successive datagrams
    pub cuts: Vec<usize>,
    /// cancellation fault: the octets arrive piece by piece (pieces as in `cuts`) and after each listed piece the pending
    /// `read_frame` future is dropped and a new one created, as the session loops do when something else wakes them
    #[serde(default)]
    pub cancel_after: Vec<usize>,
    /// session change (stream mode, no cancellation): the connection ends after this many per-mille of the stream - wherever in a
    /// frame that is - the reader is reset as at the start of every session, and the rest arrives on a new connection
    #[serde(default)]
    pub session_cut: Option<u16>,
}

pub struct LinkScenario;

pub fn property<C: Codec>() -> Property {
    Property {
        id: "C06",
        scenarios: vec![erase::<C, _>(LinkScenario)],
    }
}

const LENS: [usize; 22] = [
    0, 1, 2, 15, 16, 17, 18, 31, 32, 33, 34, 47, 48, 49, 100, 128, 200, 240, 241, 248, 249, 250,
];

fn gen_frame(rng: &mut Rng) -> RefFrame {
    let len = if rng.chance(3, 4) {
        *rng.pick(&LENS)
    } else {
        rng.urange(0, 250)
    };
    let ctrl = if rng.chance(1, 2) {
        *rng.pick(&[
            0x44u8, 0xC4, 0x40, 0xC0, 0x49, 0xC9, 0x0B, 0x8B, 0x00, 0x80, 0x53, 0x73, 0xD3, 0xF3,
        ])
    } else {
        rng.u8()
    };
    let addr = |rng: &mut Rng| -> u16 {
        match rng.below(6) {
            0 => 1,
            1 => 1024,
            2 => *rng.pick(&[
                0xFFFFu16, 0xFFFE, 0xFFFD, 0xFFFC, 0xFFF0, 0xFFFB, 0x0564, 0x6405, 0,
            ]),
            _ => rng.u16(),
        }
    };
    let mut payload = rng.bytes(len);
    // sometimes make the payload look like frame starts
    if len >= 4 && rng.chance(1, 6) {
        let at = rng.usize_below(len - 1);
        payload[at] = 0x05;
        payload[at + 1] = 0x64;
    }
    RefFrame {
        ctrl,
        dest: addr(rng),
        src: addr(rng),
        payload,
    }
}

fn gen_noise(rng: &mut Rng) -> Vec<u8> {
    match rng.below(8) {
        0 => vec![0x05],
        1 => vec![0x05, 0x64],
        2 => vec![0x05, 0x64, rng.u8()],
        3 => {
            // start octets + a few header octets
            let mut v = vec![0x05, 0x64];
            let n = rng.urange(1, 9);
            v.extend(rng.bytes(n));
            v
        }
        4 => {
            // garbage ending in a start octet
            let n = rng.urange(1, 20);
            let mut v = rng.bytes(n);
            v.push(0x05);
            if rng.bool() {
                v.push(0x64);
            }
            v
        }
        5 => {
            // a valid header announcing a body that never comes
            let f = RefFrame {
                ctrl: 0x44,
                dest: rng.u16(),
                src: rng.u16(),
                payload: {
                    let n = rng.urange(1, 60);
                    rng.bytes(n)
                },
            };
            let bytes = reflink::build_frame(&f);
            bytes[..10].to_vec()
        }
        6 => {
            // a frame whose last block CRC is wrong
            let f = RefFrame {
                ctrl: 0xC4,
                dest: rng.u16(),
                src: rng.u16(),
                payload: {
                    let n = rng.urange(1, 40);
                    rng.bytes(n)
                },
            };
            let mut bytes = reflink::build_frame(&f);
            let n = bytes.len();
            bytes[n - 1] ^= 0x01;
            bytes
        }
        _ => {
            let n = rng.urange(1, 40);
            rng.bytes(n)
        }
    }
}

/// format with the library (the code under test); None if the library refuses
fn lib_format(f: &RefFrame) -> Option<Vec<u8>> {
    let header = Header::new(
        ControlField::from(f.ctrl),
        AnyAddress::from(f.dest),
        AnyAddress::from(f.src),
    );
    let mut buffer = [0u8; 292];
    let mut cursor = scursor::WriteCursor::new(&mut buffer);
    let res = if f.payload.is_empty() {
        format_header_only(header, &mut cursor).map(|d| d.frame.to_vec())
    } else {
        format_data_frame(
            header,
            Payload::new(f.payload[0], &f.payload[1..]),
            &mut cursor,
        )
        .map(|d| d.frame.to_vec())
    };
    res.ok()
}

struct Built {
    stream: Vec<u8>,
    /// (start offset, length, frame) of every frame segment in the undamaged stream
    frames: Vec<(usize, usize, RefFrame)>,
    has_noise: bool,
}

fn build(case: &Case) -> Result<Built, Violation> {
    let mut stream = Vec::new();
    let mut frames = Vec::new();
    let mut has_noise = false;
    for seg in &case.segments {
        match seg {
            Segment::Frame(f) => {
                let reference = reflink::build_frame(f);
                let lib = lib_format(f).ok_or_else(|| {
                    Violation::new(
                        "C06/format-refused",
                        format!("len={}", f.payload.len()),
                        format!("library formatter refused frame {:?}", f),
                    )
                })?;
                if lib != reference {
                    return Err(Violation::new(
                        "C06/format-differs",
                        format!("len={}", f.payload.len()),
                        format!(
                            "library frame bytes differ from the reference framer for {:?}: lib={} ref={}",
                            f,
                            io::hex(&lib),
                            io::hex(&reference)
                        ),
                    ));
                }
                // the second formatter for frames without a body (the one replies to link requests are made with)
                if f.payload.is_empty() {
                    let mut fixed = [0u8; 10];
                    crate::link::format::format_header_fixed_size(
                        Header::new(ControlField::from(f.ctrl), AnyAddress::from(f.dest), AnyAddress::from(f.src)),
                        &mut fixed,
                    );
                    if fixed[..] != reference[..] {
                        return Err(Violation::new(
                            "C06/format-differs",
                            "fixed-size-header",
                            format!(
                                "library fixed-size header differs from the reference framer for {:?}: lib={} ref={}",
                                f,
                                io::hex(&fixed),
                                io::hex(&reference)
                            ),
                        ));
                    }
                }
                frames.push((stream.len(), lib.len(), f.clone()));
                stream.extend_from_slice(&lib);
            }
            Segment::Noise(n) => {
                has_noise = true;
                stream.extend_from_slice(n);
            }
        }
    }
    Ok(Built {
        stream,
        frames,
        has_noise,
    })
}

fn apply_faults(stream: &mut Vec<u8>, faults: &[Fault]) {
    for f in faults {
        match f {
            Fault::Flip { at, bit } => {
                if let Some(b) = stream.get_mut(*at) {
                    *b ^= 1 << (bit % 8);
                }
            }
            Fault::Truncate { len } => {
                if *len < stream.len() {
                    stream.truncate(*len);
                }
            }
        }
    }
}

fn split_datagrams(stream: &[u8], cuts: &[usize], max: usize) -> Vec<Vec<u8>> {
    let mut out = Vec::new();
    let mut pos = 0;
    let mut i = 0;
    while pos < stream.len() {
        let want = if cuts.is_empty() {
            stream.len()
        } else {
            cuts[i % cuts.len()]
        };
        let n = want.clamp(1, max).min(stream.len() - pos);
        out.push(stream[pos..pos + n].to_vec());
        pos += n;
        i += 1;
    }
    out
}

#[derive(Default)]
struct Delivered {
    frames: Vec<RefFrame>,
    error: Option<String>,
}

impl Scenario for LinkScenario {
    type Case = Case;

    fn name(&self) -> &'static str {
        "link"
    }

    fn runs(&self, tier: Tier) -> u64 {
        match tier {
            Tier::Quick => 180_000,
            Tier::Thorough => 6_000_000,
        }
    }

    fn rule(&self) -> String {
        "streams of 1..6 library-formatted frames (boundary-weighted payload lengths 0..=250, arbitrary control/address octets) \
         interleaved with adversarial noise, damaged by 0..n bit flips/truncation, delivered to the real link reader under an explicit \
         read plan (1-byte, tiny, mixed, boundary-targeted, whole) or as datagrams, in both error modes, buffers sized from \
         fragments 249..=2048; non-trivial = some read boundary falls inside a frame AND at least one fault or noise segment; \
         distinct = hash of (modes, buffer class, segment kinds+length classes, fault position classes, read-plan class)"
            .to_string()
    }

    fn real_components(&self) -> Vec<&'static str> {
        vec![
            "link::reader::Reader",
            "link::parser::Parser",
            "link::crc",
            "link::format",
            "link::header",
        ]
    }

    fn stub_components(&self) -> Vec<&'static str> {
        vec!["physical layer (SimSocket through PhysLayer::Sim)"]
    }

    fn generate(&self, rng: &mut Rng, _tier: Tier) -> Case {
        let datagram = rng.chance(1, 5);
        let close_mode = rng.chance(1, 3);
        let frag_size = match rng.below(5) {
            0 => 249,
            1 => 250,
            2 => 2048,
            3 => *rng.pick(&[498usize, 499, 747, 1000]),
            _ => rng.urange(249, 2048),
        };
        let nframes = rng.urange(1, 6);
        let noise_level = rng.below(4); // 0 = none
        let mut segments = Vec::new();
        for i in 0..nframes {
            if noise_level > 0 && rng.below(4) < noise_level {
                segments.push(Segment::Noise(gen_noise(rng)));
            }
            segments.push(Segment::Frame(gen_frame(rng)));
            if i + 1 == nframes && noise_level > 0 && rng.chance(1, 3) {
                segments.push(Segment::Noise(gen_noise(rng)));
            }
        }
        // undamaged layout, to aim the faults and the read plan
        let mut offsets = Vec::new();
        let mut total = 0usize;
        for s in &segments {
            let n = match s {
                Segment::Frame(f) => 10 + reflink::body_len(f.payload.len()),
                Segment::Noise(n) => n.len(),
            };
            offsets.push((total, n, matches!(s, Segment::Frame(_))));
            total += n;
        }
        let mut faults = Vec::new();
        let fault_style = rng.below(8);
        let frame_spans: Vec<(usize, usize)> =
            offsets.iter().filter(|o| o.2).map(|o| (o.0, o.1)).collect();
        let aim = |rng: &mut Rng, span: (usize, usize)| -> usize {
            // stratified over start octets, length, header, header crc, block data, block crc
            let (start, len) = span;
            let at = match rng.below(7) {
                0 => rng.urange(0, 1),
                1 => 2,
                2 => rng.urange(3, 7),
                3 => rng.urange(8, 9),
                4 => len - 1 - rng.usize_below(2.min(len)),
                _ => rng.usize_below(len),
            };
            start + at.min(len - 1)
        };
        match fault_style {
            0 | 1 => {}
            2..=4 => {
                // weight 1..3 in one frame
                let span = *rng.pick(&frame_spans);
                let w = rng.urange(1, 3);
                for _ in 0..w {
                    faults.push(Fault::Flip {
                        at: aim(rng, span),
                        bit: rng.below(8) as u8,
                    });
                }
            }
            5 => {
                // heavier random damage
                let w = rng.urange(4, 12);
                for _ in 0..w {
                    faults.push(Fault::Flip {
                        at: rng.usize_below(total),
                        bit: rng.below(8) as u8,
                    });
                }
            }
            6 => {
                let span = *rng.pick(&frame_spans);
                faults.push(Fault::Truncate {
                    len: aim(rng, span),
                });
            }
            _ => {
                let span = *rng.pick(&frame_spans);
                faults.push(Fault::Flip {
                    at: aim(rng, span),
                    bit: rng.below(8) as u8,
                });
                if rng.bool() {
                    faults.push(Fault::Truncate {
                        len: rng.urange(1, total),
                    });
                }
            }
        }
        // read plan
        let cuts: Vec<usize> = if datagram {
            match rng.below(4) {
                0 => offsets.iter().map(|o| o.1).collect(), // one segment per datagram
                1 => vec![total],                           // everything in one datagram
                2 => {
                    // boundaries shifted by +-1..3 (frames split across datagrams)
                    offsets
                        .iter()
                        .map(|o| (o.1 as i64 + rng.range(0, 6) as i64 - 3).max(1) as usize)
                        .collect()
                }
                _ => (0..rng.urange(1, 8)).map(|_| rng.urange(1, 400)).collect(),
            }
        } else {
            match rng.below(7) {
                0 => vec![1],
                1 => vec![total.max(1)],
                2 => (0..rng.urange(1, 6)).map(|_| rng.urange(1, 3)).collect(),
                3 => {
                    // boundary-targeted: reads end at segment boundaries +-1 and inside CRCs
                    let mut v = Vec::new();
                    for o in &offsets {
                        let mut left = o.1;
                        let first = match rng.below(5) {
                            0 => 1,
                            1 => 2,
                            2 => 9,
                            3 => 10,
                            _ => rng.urange(1, left),
                        }
                        .min(left);
                        v.push(first);
                        left -= first;
                        if left > 1 && rng.bool() {
                            v.push(left - 1);
                            left = 1;
                        }
                        if left > 0 {
                            v.push(left);
                        }
                    }
                    v
                }
                4 => (0..rng.urange(2, 10)).map(|_| rng.urange(1, 40)).collect(),
                5 => (0..rng.urange(2, 6))
                    .map(|_| rng.urange(100, 700))
                    .collect(),
                _ => (0..rng.urange(1, 12))
                    .map(|_| *rng.pick(&[1usize, 2, 7, 8, 9, 10, 11, 17, 18, 19, 291, 292, 293]))
                    .collect(),
            }
        };
        // in a quarter of the runs the read is cancelled and restarted between pieces
        let cancel_after: Vec<usize> = if rng.chance(1, 4) {
            let n = rng.urange(1, 6);
            (0..n).map(|_| rng.urange(0, 12)).collect()
        } else {
            Vec::new()
        };
        Case {
            close_mode,
            datagram,
            frag_size,
            segments,
            faults,
            cuts,
            session_cut: if !datagram && cancel_after.is_empty() && rng.chance(1, 5) {
                Some(rng.range(1, 999) as u16)
            } else {
                None
            },
            cancel_after,
        }
    }

    fn shrink(&self, case: &Case) -> Vec<Case> {
        let mut out = Vec::new();
        for segs in shrink_vec(&case.segments) {
            if segs.is_empty() {
                continue;
            }
            let mut c = case.clone();
            c.segments = segs;
            out.push(c);
        }
        for f in shrink_vec(&case.faults) {
            let mut c = case.clone();
            c.faults = f;
            out.push(c);
        }
        if !case.cancel_after.is_empty() {
            for ca in shrink_vec(&case.cancel_after) {
                let mut c = case.clone();
                c.cancel_after = ca;
                out.push(c);
            }
        }
        if case.cuts.len() > 1 {
            for cuts in shrink_vec(&case.cuts) {
                if cuts.is_empty() {
                    continue;
                }
                let mut c = case.clone();
                c.cuts = cuts;
                out.push(c);
            }
        }
        // shorter payloads
        for (i, s) in case.segments.iter().enumerate() {
            if let Segment::Frame(f) = s {
                if f.payload.len() > 1 {
                    let mut c = case.clone();
                    let mut g = f.clone();
                    g.payload.truncate(f.payload.len() / 2);
                    c.segments[i] = Segment::Frame(g);
                    out.push(c);
                }
            }
        }
        out
    }

    fn execute(&self, case: &Case, log: bool) -> Outcome {
        let mut outcome = Outcome::default();
        let built = match build(case) {
            Ok(b) => b,
            Err(v) => {
                outcome.violation = Some(v);
                return outcome;
            }
        };
        let mut stream = built.stream.clone();
        apply_faults(&mut stream, &case.faults);
        let mut damaged = stream != built.stream;
        // where the first connection ends (octet offset into the stream)
        let session_cut: Option<usize> = match case.session_cut {
            Some(pm) if !case.datagram && case.cancel_after.is_empty() && stream.len() >= 2 => {
                Some((stream.len() * pm as usize / 1000).clamp(1, stream.len() - 1))
            }
            _ => None,
        };
        if session_cut.is_some() {
            // (a frame straddling the end of the connection is lost with it)
            damaged = true;
        }

        let buffer_size = {
            let n = (case.frag_size + 248) / 249;
            n.max(1) * 292 + 1
        };
        let discard = !case.close_mode;

        // reference
        let (expected, ref_error): (Vec<RefFrame>, bool) = if case.datagram {
            let mut frames = Vec::new();
            let mut err = false;
            for d in split_datagrams(&stream, &case.cuts, buffer_size) {
                let r = reflink::deframe(&d, discard);
                frames.extend(r.frames.into_iter().map(|x| x.1));
                if r.first_error.is_some() {
                    err = true;
                    if !discard {
                        break;
                    }
                }
            }
            (frames, err)
        } else if let Some(k) = session_cut {
            // every session is deframed on its own; what the reader ends with is the end of the second one
            let first = reflink::deframe(&stream[..k], discard);
            let second = reflink::deframe(&stream[k..], discard);
            let mut frames: Vec<RefFrame> = first.frames.into_iter().map(|x| x.1).collect();
            frames.extend(second.frames.into_iter().map(|x| x.1));
            (frames, second.first_error.is_some())
        } else {
            let r = reflink::deframe(&stream, discard);
            (
                r.frames.into_iter().map(|x| x.1).collect(),
                r.first_error.is_some(),
            )
        };

        // the real reader in a simulated world
        let delivered = Arc::new(Mutex::new(Delivered::default()));
        let modes = LinkModes {
            error_mode: if case.close_mode {
                LinkErrorMode::Close
            } else {
                LinkErrorMode::Discard
            },
            read_mode: if case.datagram {
                LinkReadMode::Datagram
            } else {
                LinkReadMode::Stream
            },
        };
        let inbox = io::new_chan();
        let outbox = io::new_chan();
        let datagrams = if case.datagram {
            split_datagrams(&stream, &case.cuts, buffer_size)
        } else {
            vec![stream.clone()]
        };
        let cancelling = !case.cancel_after.is_empty();
        // with the cancellation fault the pieces are pushed one at a time, so that the reader goes to sleep in between
        let pieces: Vec<Vec<u8>> = if cancelling && !case.datagram {
            split_datagrams(&stream, &case.cuts, usize::MAX)
        } else {
            datagrams.clone()
        };
        let cancel_after = case.cancel_after.clone();
        let cancel = Arc::new(tokio::sync::Notify::new());
        let cancel2 = cancel.clone();
        let sock = SimSocket::new("reader", inbox.clone(), outbox, ChunkMode::All, 0)
            .datagram(case.datagram)
            .with_plan(if case.datagram || cancelling {
                Vec::new()
            } else {
                case.cuts.clone()
            });
        let inbox2 = io::new_chan();
        let sock2 = session_cut.map(|_| {
            SimSocket::new("reader-2", inbox2.clone(), io::new_chan(), ChunkMode::All, 0).with_plan(case.cuts.clone())
        });
        let frag_size = case.frag_size;
        let d2 = delivered.clone();
        let params = RunParams {
            log,
            step_cap: 200_000,
            ..Default::default()
        };
        let report = kernel::run_world(params, move |sim| async move {
            let task = sim.spawn("link-reader", async move {
                let mut phys = PhysLayer::Sim(Box::new(sock));
                let mut reader = Reader::new(modes, frag_size);
                let mut payload = FramePayload::new();
                let mut next_session = sock2;
                loop {
                    let res = tokio::select! {
                        biased;
                        _ = cancel2.notified() => {
                            // the read future is dropped here; by the library's own contract no state is lost
                            if let Some(core) = kernel::current() {
                                core.count("fault.read_future_cancelled", 1);
                            }
                            continue;
                        }
                        r = reader.read_frame(&mut phys, &mut payload, DecodeLevel::nothing()) => r,
                    };
                    match res {
                        Ok((header, _)) => {
                            d2.lock().unwrap().frames.push(RefFrame {
                                ctrl: header.control.to_u8(),
                                dest: header.destination.value(),
                                src: header.source.value(),
                                payload: payload.get().to_vec(),
                            });
                        }
                        Err(err) => {
                            d2.lock().unwrap().error = Some(format!("{:?}", err));
                            match next_session.take() {
                                Some(s2) => {
                                    // the session is over (end of the connection, or a framing error in Close mode): the task
                                    // resets the reader and runs the next session on the new connection
                                    if let Some(core) = kernel::current() {
                                        core.count("fault.session_change_mid_stream", 1);
                                    }
                                    reader.reset();
                                    phys = PhysLayer::Sim(Box::new(s2));
                                }
                                None => break,
                            }
                        }
                    }
                }
            });
            if cancelling {
                for (k, d) in pieces.into_iter().enumerate() {
                    io::chan_push(&inbox, 0, d);
                    sim.settle().await;
                    if cancel_after.contains(&k) {
                        cancel.notify_one();
                        sim.settle().await;
                    }
                }
            } else if let Some(k) = session_cut {
                let whole = datagrams.concat();
                io::chan_push(&inbox, 0, whole[..k].to_vec());
                io::chan_push(&inbox2, 0, whole[k..].to_vec());
                io::chan_close(&inbox2, CloseKind::Eof);
            } else {
                for d in datagrams {
                    io::chan_push(&inbox, 0, d);
                }
            }
            io::chan_close(&inbox, CloseKind::Eof);
            sim.settle().await;
            let mut guard = 0;
            while !sim.task_done(task) && guard < 100 {
                sim.sleep_ms(1000).await;
                guard += 1;
            }
        });
        outcome.sim_ms = report.sim_ms;
        outcome.steps = report.steps;
        outcome.trace_hash = report.trace_hash;
        outcome.log = report.log;
        match &report.exit {
            Exit::Done => {}
            Exit::Panic(task, msg, loc) => {
                if loc.contains("/verif/") {
                    outcome.harness_error =
                        Some(format!("harness panic in {}: {} at {}", task, msg, loc));
                } else {
                    outcome.violation = Some(Violation::new(
                        "C06/panic",
                        loc.clone(),
                        format!("task {} panicked: {} at {}", task, msg, loc),
                    ));
                }
                return outcome;
            }
            other => {
                outcome.violation = Some(Violation::new(
                    "C06/no-termination",
                    format!("{:?}", other)
                        .split('(')
                        .next()
                        .unwrap_or("")
                        .to_string(),
                    format!("link reader did not finish: {:?}", other),
                ));
                return outcome;
            }
        }
        let got = delivered.lock().unwrap();

        // --- oracle ---
        let mut violation = None;
        if got.frames != expected {
            let idx = got
                .frames
                .iter()
                .zip(expected.iter())
                .position(|(a, b)| a != b)
                .unwrap_or(got.frames.len().min(expected.len()));
            let kind = if got.frames.len() < expected.len()
                && got.frames[..] == expected[..got.frames.len()]
            {
                "frame-lost"
            } else if got.frames.len() > expected.len()
                && got.frames[..expected.len()] == expected[..]
            {
                "extra-frame"
            } else {
                "frame-differs"
            };
            violation = Some(Violation::new(
                "C06/i delivered-vs-reference",
                format!(
                    "{} mode={}{}",
                    kind,
                    if case.close_mode { "close" } else { "discard" },
                    if case.datagram { ",datagram" } else { ",stream" }
                ),
                format!(
                    "library delivered {} frames, reference deframer {}; first difference at frame #{}; library error: {:?}; lib={:?} ref={:?}",
                    got.frames.len(),
                    expected.len(),
                    idx,
                    got.error,
                    got.frames.get(idx).map(|f| (f.ctrl, f.dest, f.src, f.payload.len())),
                    expected.get(idx).map(|f| (f.ctrl, f.dest, f.src, f.payload.len())),
                ),
            ));
        }
        if violation.is_none() && case.close_mode && ref_error {
            // (iv) the first framing error must end the session with a framing error
            let is_frame_err = got
                .error
                .as_deref()
                .map(|e| e.contains("BadFrame"))
                .unwrap_or(false);
            if !is_frame_err {
                violation = Some(Violation::new(
                    "C06/iv close-mode-error-not-reported",
                    "",
                    format!(
                        "stream contains a framing error but the reader ended with {:?}",
                        got.error
                    ),
                ));
            }
        }
        if violation.is_none() && (!case.close_mode || !ref_error) {
            // in Discard mode noise is skipped, and a clean stream has no noise: the reader ends with the end of the stream, never
            // with a framing error of its own (which would end a live session although every intact frame had been delivered)
            let is_frame_err = got
                .error
                .as_deref()
                .map(|e| e.contains("BadFrame") || e.contains("BadLogic"))
                .unwrap_or(false);
            if is_frame_err {
                violation = Some(Violation::new(
                    "C06/spurious-framing-error",
                    if case.close_mode { "clean-stream" } else { "discard-mode" },
                    format!(
                        "the reader ended with {:?} although {} (frames delivered: {})",
                        got.error,
                        if case.close_mode { "the stream contains no framing error" } else { "it is configured to discard what does not parse" },
                        got.frames.len()
                    ),
                ));
            }
        }
        if violation.is_none() && !built.has_noise {
            // attribution without relying on the reference deframer
            let sent: Vec<&RefFrame> = built.frames.iter().map(|f| &f.2).collect();
            if !damaged && !case.datagram {
                if got.frames.len() != sent.len()
                    || got.frames.iter().zip(sent.iter()).any(|(a, b)| a != *b)
                {
                    violation = Some(Violation::new(
                        "C06/iii undamaged-stream-not-recovered",
                        "",
                        format!("sent {} frames, delivered {}", sent.len(), got.frames.len()),
                    ));
                }
            } else {
                let embedded = built
                    .frames
                    .iter()
                    .any(|f| f.2.payload.windows(2).any(|w| w == [0x05, 0x64]));
                if !embedded {
                    for f in &got.frames {
                        if !sent.iter().any(|s| *s == f) {
                            violation = Some(Violation::new(
                                "C06/ii delivered-frame-never-sent",
                                "",
                                format!(
                                    "delivered frame {:?} equals none of the transmitted frames",
                                    (f.ctrl, f.dest, f.src, f.payload.len())
                                ),
                            ));
                            break;
                        }
                    }
                }
            }
        }
        outcome.violation = violation;

        // --- coverage bookkeeping ---
        let mut boundary_inside = false;
        if case.datagram {
            let mut pos = 0;
            for d in split_datagrams(&stream, &case.cuts, buffer_size) {
                pos += d.len();
                if built.frames.iter().any(|(s, l, _)| pos > *s && pos < s + l) {
                    boundary_inside = true;
                }
            }
        } else if !case.cuts.is_empty() {
            let first = case.cuts[0];
            boundary_inside = case.cuts.len() > 1
                || built
                    .frames
                    .iter()
                    .any(|(s, l, _)| first > *s && first < s + l)
                || first < stream.len();
        }
        let faulty = !case.faults.is_empty() || built.has_noise;
        outcome.nontrivial = boundary_inside && faulty;
        for f in &case.faults {
            match f {
                Fault::Flip { .. } => outcome.count("fault.flip", 1),
                Fault::Truncate { .. } => outcome.count("fault.truncate", 1),
            }
        }
        let noise_n = case
            .segments
            .iter()
            .filter(|s| matches!(s, Segment::Noise(_)))
            .count() as u64;
        outcome.count("fault.noise", noise_n);
        outcome.count(
            "fault.rechunk",
            report.counters.get("phys_reads").copied().unwrap_or(0),
        );
        outcome.count(
            "fault.read_future_cancelled",
            report.counters.get("fault.read_future_cancelled").copied().unwrap_or(0),
        );
        outcome.count(
            "fault.session_change_mid_stream",
            report.counters.get("fault.session_change_mid_stream").copied().unwrap_or(0),
        );
        outcome.count("frames_sent", built.frames.len() as u64);
        outcome.count("frames_delivered", got.frames.len() as u64);
        if stream.len() + 1 > buffer_size {
            outcome.count("probe.stream_longer_than_buffer", 1);
        }
        if case.datagram && boundary_inside {
            outcome.count("probe.frame_split_across_datagrams", 1);
        }
        if !case.close_mode && damaged && !got.frames.is_empty() {
            outcome.count("probe.frame_recovered_after_damage", 1);
        }
        if case.close_mode && ref_error {
            outcome.count("probe.close_mode_error", 1);
        }
        // fingerprint
        let mut h = crate::verif::rng::mix(&[
            case.close_mode as u64,
            case.datagram as u64,
            (buffer_size / 292) as u64,
        ]);
        for s in &case.segments {
            let v = match s {
                Segment::Frame(f) => 1000 + (f.payload.len() as u64 / 8),
                Segment::Noise(n) => 2000 + (n.len().min(16) as u64),
            };
            h = crate::verif::rng::mix(&[h, v]);
        }
        for f in &case.faults {
            let v = match f {
                Fault::Flip { at, .. } => {
                    // position class relative to the frame it hits
                    let rel = built
                        .frames
                        .iter()
                        .find(|(s, l, _)| at >= s && *at < s + l)
                        .map(|(s, _, _)| (at - s).min(30) as u64)
                        .unwrap_or(99);
                    3000 + rel
                }
                Fault::Truncate { len } => 4000 + (*len as u64 % 32),
            };
            h = crate::verif::rng::mix(&[h, v]);
        }
        h = crate::verif::rng::mix(&[
            h,
            case.cuts.len().min(8) as u64,
            case.cuts.first().copied().unwrap_or(0).min(32) as u64,
        ]);
        outcome.fingerprint = h;
        outcome
    }
}
