//! C16 - commands succeed only if truly accepted; every user request gets exactly one outcome, in bounded time (engine S-MAST).

use crate::verif::models::mast_hist::{master_time_history, H};
use crate::verif::nodes::master::{AssocCfg, MasterCfg};
use crate::verif::refcodec::app::{self as refapp};
use crate::verif::rng::{mix, Rng};
use crate::verif::runner::{erase, Codec, Outcome, Property, Scenario, Tier, Violation};
use crate::verif::smast::{self, EchoMutation, MOp, MastRun, Reply, SmastCase, UserKind};
use std::collections::{BTreeMap, VecDeque};

pub struct OutcomeScenario;

pub fn property<C: Codec>() -> Property {
    Property {
        id: "C16",
        scenarios: vec![erase::<C, _>(OutcomeScenario)],
    }
}

pub fn gen_command(rng: &mut Rng) -> UserKind {
    if rng.chance(1, 12) {
        // more objects than a small transmit buffer takes
        let n = rng.urange(20, 40);
        let var = rng.below(5) as u8;
        return UserKind::Command { sbo: rng.bool(), headers: vec![(0..n).map(|i| (var, i as u16, false)).collect()] };
    }
    let nh = *rng.pick(&[1usize, 1, 1, 2, 3]);
    let mut next_index = rng.below(200) as u16;
    let headers = (0..nh)
        .map(|_| {
            let var = rng.below(5) as u8;
            let wide = rng.chance(1, 3);
            let n = *rng.pick(&[1usize, 1, 2, 3]);
            (0..n)
                .map(|_| {
                    next_index += 1 + rng.below(3) as u16;
                    (var, if wide { next_index + 300 } else { next_index }, wide)
                })
                .collect()
        })
        .collect();
    UserKind::Command {
        sbo: rng.bool(),
        headers,
    }
}

pub fn gen_echo_mutation(rng: &mut Rng) -> EchoMutation {
    match rng.below(15) {
        0 | 1 => EchoMutation::Status {
            object: rng.urange(0, 8),
            // (now and then the values at the edges of the 7-bit status field, and the reserved bit on top of SUCCESS)
            status: match rng.below(8) {
                0 => 126,
                1 => 127,
                2 => 0x80,
                3 => 0x80 | rng.range(1, 20) as u8,
                _ => rng.range(1, 20) as u8,
            },
        },
        2 | 3 => EchoMutation::ValueBit {
            object: rng.urange(0, 8),
            bit: rng.below(96) as u8,
        },
        4 => EchoMutation::DropLastObject,
        5 => EchoMutation::DuplicateLastObject,
        6 => EchoMutation::SwapFirstTwoObjects,
        7 => EchoMutation::DropLastHeader,
        8 => EchoMutation::Index {
            object: rng.urange(0, 8),
        },
        9 => EchoMutation::Qualifier,
        10 => EchoMutation::AddHeader,
        11 => EchoMutation::SwapFirstTwoHeaders,
        12 => EchoMutation::IndexHigh {
            object: rng.urange(0, 8),
        },
        13 => EchoMutation::Variation {
            header: rng.urange(0, 3),
        },
        _ => EchoMutation::QualifierOf {
            header: rng.urange(0, 3),
        },
    }
}

fn gen_reply(rng: &mut Rng, other: u16) -> Reply {
    // now and then two deviations at once: whatever the reply is, it also asks for a confirmation
    if rng.chance(1, 10) {
        let inner = gen_reply_single(rng, other);
        return if matches!(inner, Reply::Silent | Reply::Cut | Reply::WithCon | Reply::IinCon(..)) {
            inner
        } else {
            Reply::ConPlus(Box::new(inner))
        };
    }
    gen_reply_single(rng, other)
}

fn gen_reply_single(rng: &mut Rng, other: u16) -> Reply {
    match rng.below(14) {
        0..=3 => Reply::Echo(gen_echo_mutation(rng)),
        4 | 5 => Reply::Silent,
        6 => {
            // (one rejection reason, or several at once)
            let bit = *rng.pick(&[0x01u8, 0x02, 0x04, 0x03, 0x05, 0x06, 0x07]);
            if rng.chance(1, 3) {
                // the rejection also asks for a confirmation
                Reply::IinCon(0, bit)
            } else {
                Reply::Iin(0, bit)
            }
        }
        7 => Reply::WrongSeq(rng.range(1, 15) as u8),
        8 => Reply::StaleThenFaithful(rng.range(1, 15) as u8),
        9 => Reply::ForeignThenFaithful(other),
        10 => {
            if rng.bool() {
                Reply::Late(rng.range(1, 7000))
            } else {
                Reply::FaithfulThenEof
            }
        }
        11 => {
            if rng.bool() {
                Reply::Cut
            } else if rng.bool() {
                Reply::FileBlock(*rng.pick(&[-1i8, 1, 2]))
            } else {
                Reply::FileStatus(rng.range(1, 20) as u8)
            }
        }
        12 => Reply::Flags((rng.below(16) as u8) << 4),
        _ => Reply::Faithful,
    }
}

fn gen_user(rng: &mut Rng) -> UserKind {
    match rng.below(12) {
        0..=5 => gen_command(rng),
        6 => {
            if rng.chance(1, 3) {
                UserKind::ReadCustom(*rng.pick(&[0x0Fu8, 0x07, 0x01]))
            } else {
                UserKind::ReadClasses(*rng.pick(&[0x0Fu8, 0x07, 0x01]))
            }
        }
        7 => UserKind::TimeSync(rng.range(1, 3) as u8),
        8 => UserKind::Restart { cold: rng.bool() },
        9 => {
            if rng.bool() {
                UserKind::DeadBands(rng.range(1, 3) as u8)
            } else {
                let blocks = rng.range(1, 4) as u8;
                match rng.below(9) {
                    0 => UserKind::Directory(rng.below(5) as u8),
                    1 => UserKind::FileInfo,
                    2 => UserKind::FileAuth,
                    3 => UserKind::FileOpen(rng.bool()),
                    4 => UserKind::FileWriteBlock(rng.below(4) as u8, rng.range(1, 200) as u8, rng.bool()),
                    5 => UserKind::FileClose,
                    _ => UserKind::FileRead {
                        blocks,
                        block_size: rng.range(1, 20) as u8,
                        abort_at: if rng.chance(1, 4) {
                            Some(rng.below(blocks as u64 + 2) as u8)
                        } else {
                            None
                        },
                        auth: rng.chance(1, 3),
                    },
                }
            }
        }
        10 => UserKind::LinkStatus,
        _ => UserKind::Empty(24),
    }
}

impl Scenario for OutcomeScenario {
    type Case = SmastCase;

    fn name(&self) -> &'static str {
        "outcome"
    }

    fn runs(&self, tier: Tier) -> u64 {
        match tier {
            Tier::Quick => 30_000,
            Tier::Thorough => 800_000,
        }
    }

    fn rule(&self) -> String {
        "the real master (ClientTask + MasterTask) against a scripted outstation: user requests of every kind (commands over all five control \
         variations, 8/16-bit indices, 1..3 headers, direct and select-before-operate; reads, three time-sync procedures, restarts, dead-band writes, \
         empty-response requests, link status) are submitted singly and queued; the reply to any protocol step is the faithful echo, an echo differing in \
         one status / value bit / index / object count / order / header count / qualifier, an IIN2 rejection, wrong sequence, foreign source, wrong flags, \
         late, or missing; the connection is cut, the channel disabled, the association removed or the master task dropped before, between and after the \
         steps, with unrelated traffic and channel messages while a task waits; non-trivial = a deviation or fault hit a request after it was submitted; \
         distinct = hash of (request kinds, per-step verdicts, outcomes)"
            .to_string()
    }

    fn real_components(&self) -> Vec<&'static str> {
        vec![
            "master::task::MasterTask / MasterSession",
            "master::tasks::{command,time,restart,deadband,empty_response,read}",
            "master::request (echo comparison)",
            "master::promise",
            "master::association (request queue)",
            "tcp::client::ClientTask",
            "transport::real",
            "link::layer/reader/parser",
            "app::parse",
        ]
    }

    fn stub_components(&self) -> Vec<&'static str> {
        vec![
            "TCP sockets (simulated network through hook H3)",
            "scripted outstation (reference codec)",
            "ReadHandler/AssociationHandler/AssociationInformation (recording stubs)",
            "user threads (simulated tasks awaiting the public async API)",
        ]
    }

    fn generate(&self, rng: &mut Rng, _tier: Tier) -> SmastCase {
        let mut cfg = MasterCfg::basic();
        cfg.close_mode = rng.bool();
        cfg.decode_all = rng.chance(1, 12);
        cfg.reconnect_ms = *rng.pick(&[100u64, 1000]);
        cfg.connect_min_ms = cfg.reconnect_ms;
        // a small transmit buffer: requests that do not fit must fail as such
        cfg.tx = *rng.pick(&[2048usize, 2048, 249, 300]);
        // an application without a clock: time synchronisation cannot even start
        cfg.no_clock = rng.chance(1, 8);
        let timeout = *rng.pick(&[1000u64, 2000, 5000]);
        let mut a = AssocCfg::quiet(1024);
        a.response_timeout_ms = timeout;
        a.max_queued = *rng.pick(&[16usize, 16, 16, 2, 1]);
        cfg.assocs = vec![a];
        if rng.chance(1, 4) {
            let mut b = AssocCfg::quiet(1025);
            b.response_timeout_ms = timeout;
            cfg.assocs.push(b);
        }
        let nassoc = cfg.assocs.len();
        let mut script = vec![MOp::Enable, MOp::Sleep(1)];
        let rounds = rng.urange(1, 5);
        for _ in 0..rounds {
            let assoc = rng.urange(0, nassoc - 1);
            // an address that is not the one being asked
            let other = if assoc == 0 { 1025 } else { 1024 };
            // replies for the steps of the next request(s)
            let nrep = *rng.pick(&[0usize, 1, 1, 2, 2, 3, 4]);
            let burst = *rng.pick(&[1usize, 1, 1, 2, 3]);
            let users: Vec<UserKind> = (0..burst).map(|_| gen_user(rng)).collect();
            let file_request = matches!(
                users[0],
                UserKind::FileRead { .. }
                    | UserKind::Directory(_)
                    | UserKind::FileInfo
                    | UserKind::FileAuth
                    | UserKind::FileOpen(_)
                    | UserKind::FileWriteBlock(..)
                    | UserKind::FileClose
            );
            let mut replies = Vec::new();
            for k in 0..nrep {
                // a deviation in the second step only needs a faithful first step
                if k + 1 < nrep && rng.chance(1, 2) {
                    replies.push(Reply::Faithful);
                } else if file_request && rng.chance(1, 3) {
                    // what only a file request can be answered with
                    replies.push(if rng.chance(2, 3) {
                        Reply::FileStatus(rng.range(1, 20) as u8)
                    } else {
                        Reply::FileBlock(*rng.pick(&[-1i8, 1, 2]))
                    });
                } else {
                    replies.push(gen_reply(rng, other));
                }
            }
            if !replies.is_empty() {
                script.push(MOp::Replies { assoc, replies });
            }
            if rng.chance(1, 8) {
                script.push(MOp::AnswerLinkStatus {
                    assoc,
                    on: rng.chance(1, 3),
                });
            }
            for kind in users {
                script.push(MOp::User { assoc, kind });
            }
            // things that happen while the request waits
            let during = *rng.pick(&[0usize, 0, 1, 2, 4]);
            for _ in 0..during {
                script.push(MOp::Sleep(match rng.below(4) {
                    0 => rng.range(0, 60),
                    1 => timeout / 2,
                    2 => timeout - 1,
                    _ => rng.range(1, timeout),
                }));
                script.push(match rng.below(12) {
                    0 => MOp::Cut { eof: rng.bool() },
                    1 => MOp::Disable,
                    2 => MOp::Enable,
                    3 => MOp::RemoveAssoc(assoc),
                    4 => MOp::KillMaster,
                    5 | 6 => MOp::Poke,
                    7 | 8 => MOp::Unsol {
                        assoc,
                        seq: rng.below(16) as u8,
                        data: rng.bool(),
                        con: rng.bool(),
                    },
                    9 => MOp::Raw {
                        src: 1024,
                        bytes: vec![0xC0 | rng.below(16) as u8, 129, 0, 0],
                    },
                    10 => MOp::User {
                        assoc,
                        kind: gen_user(rng),
                    },
                    _ => MOp::NetPlan(vec![rng.below(3) as u8]),
                });
            }
            script.push(MOp::Sleep(match rng.below(3) {
                0 => timeout * 2 + 1,
                1 => rng.range(1, timeout * 2),
                _ => timeout * 5,
            }));
            if rng.chance(1, 6) {
                script.push(MOp::Enable);
            }
        }
        crate::verif::smast::sprinkle_split_replies(rng, &mut script);
        SmastCase {
            cfg,
            chunk: rng.below(5) as u8,
            chunk_seed: rng.next_u64(),
            latency: if rng.chance(2, 3) {
                (rng.below(40), rng.below(40))
            } else {
                (0, 0)
            },
            script,
            // long enough for every queued request to run into its own timeouts
            tail_ms: 60_000,
        }
    }

    fn shrink(&self, case: &SmastCase) -> Vec<SmastCase> {
        smast::shrink_case(case)
    }

    fn execute(&self, case: &SmastCase, log: bool) -> Outcome {
        smast::execute("C16", case, log, analyse)
    }
}

#[derive(Clone, Debug)]
struct Step {
    /// master time at which the request was written
    written: u64,
    pos: u64,
    order: u64,
    seq: u8,
    func: u8,
    bytes: Vec<u8>,
}

#[derive(Clone, Debug)]
struct Task {
    assoc: u16,
    start_t: u64,
    start_pos: u64,
    func: u8,
    end: Option<(u64, u64, bool, String)>,
    steps: Vec<Step>,
    user: Option<u64>,
    /// time of the last accepted READ response fragment (restarts the response timer)
    last_fragment: Option<u64>,
}

#[derive(Clone, Debug)]
struct Arrival {
    t: u64,
    pos: u64,
    src: u16,
    bytes: Vec<u8>,
    kind: String,
    valid: bool,
    answers: Option<u64>,
}

#[derive(Clone, Debug)]
struct User {
    id: u64,
    assoc: u16,
    kind: UserKind,
    t: u64,
    pos: u64,
    done: Option<(u64, u64, bool, String)>,
    task: Option<usize>,
    /// requests of this association submitted and not resolved when this one was submitted
    backlog: usize,
    /// FileReader callbacks: (t, pos, what, block, len, content ok, detail)
    file: Vec<(u64, u64, String, u32, usize, bool, String)>,
}

fn first_func(kind: &UserKind) -> Option<u8> {
    Some(match kind {
        UserKind::ReadClasses(_) | UserKind::ReadCustom(_) => 1,
        UserKind::Command { sbo: true, .. } => 3,
        UserKind::Command { sbo: false, .. } => 5,
        UserKind::TimeSync(1) => 24,
        UserKind::TimeSync(2) => 23,
        UserKind::TimeSync(_) => 2,
        UserKind::Restart { cold: true } => 13,
        UserKind::Restart { cold: false } => 14,
        UserKind::LinkStatus => return None,
        UserKind::Empty(fc) => {
            if crate::app::FunctionCode::from(*fc).is_some() {
                *fc
            } else {
                24
            }
        }
        UserKind::DeadBands(_) => 2,
        UserKind::FileRead { auth: true, .. } => 29,
        UserKind::FileRead { .. } | UserKind::Directory(_) => 25,
        UserKind::FileInfo => 28,
        UserKind::FileAuth => 29,
        UserKind::FileOpen(_) => 25,
        UserKind::FileWriteBlock(..) => 2,
        UserKind::FileClose => 26,
    })
}

fn expected_steps(kind: &UserKind) -> usize {
    if let UserKind::FileRead {
        blocks,
        block_size,
        abort_at,
        auth: true,
    } = kind
    {
        // the authentication step comes first
        return 1 + expected_steps(&UserKind::FileRead {
            blocks: *blocks,
            block_size: *block_size,
            abort_at: *abort_at,
            auth: false,
        });
    }
    match kind {
        // open, every block, close; the reader aborting in `opened` leads straight to the close, aborting at a block ends the task
        UserKind::FileRead {
            blocks,
            abort_at: None,
            ..
        } => *blocks as usize + 2,
        UserKind::FileRead {
            abort_at: Some(0), ..
        } => 2,
        UserKind::FileRead {
            blocks,
            abort_at: Some(k),
            ..
        } => {
            if *k <= *blocks {
                *k as usize + 1
            } else {
                *blocks as usize + 2
            }
        }
        UserKind::Directory(_) => 3,
        UserKind::Command { sbo: true, .. } => 2,
        UserKind::TimeSync(1) | UserKind::TimeSync(2) => 2,
        _ => 1,
    }
}

/// a fragment the master certainly ignores while waiting for the answer to `step` of association `assoc`
fn clearly_ignorable(a: &Arrival, assoc: u16, step: &Step) -> bool {
    if a.bytes.len() < 4 || refapp::decode_fragment(&a.bytes).is_err() {
        return false;
    }
    let ctrl = refapp::Ctrl::from_u8(a.bytes[0]);
    match a.bytes[1] {
        // unsolicited responses are diverted (and confirmed), whoever sent them
        130 => ctrl.uns && ctrl.fir && ctrl.fin,
        129 => !ctrl.uns && (a.src != assoc || ctrl.seq != step.seq),
        _ => false,
    }
}

/// is this fragment, byte for byte, the all-SUCCESS echo of the command request `step` from the right outstation?
fn faithful_echo(a: &Arrival, assoc: u16, step: &Step) -> bool {
    if a.bytes.len() < 4 || step.bytes.len() < 2 {
        return false;
    }
    let ctrl = refapp::Ctrl::from_u8(a.bytes[0]);
    a.src == assoc
        && a.bytes[1] == 129
        && ctrl.fir
        && ctrl.fin
        && !ctrl.uns
        && ctrl.seq == step.seq
        && a.bytes[3] & 0x07 == 0
        && a.bytes[4..] == step.bytes[2..]
}

/// for the single-step file requests: does the response carry the object that means success (right variation, status SUCCESS /
/// a non-zero authentication key)?
fn file_answer_ok(kind: &UserKind, a: &Arrival) -> bool {
    let b = &a.bytes;
    let free_format = |var: u8, min_len: usize| b.len() >= min_len && b[4] == 70 && b[5] == var && b[6] == 0x5B && b[7] == 1;
    match kind {
        UserKind::FileAuth => free_format(2, 22) && b[18..22] != [0, 0, 0, 0],
        UserKind::FileOpen(_) | UserKind::FileClose => free_format(4, 23) && b[22] == 0,
        UserKind::FileWriteBlock(..) => free_format(6, 19) && b[18] == 0,
        UserKind::FileInfo => free_format(7, 12),
        _ => true,
    }
}

/// weakest form of an acceptable answer to a non-command step
fn plausible_answer(a: &Arrival, assoc: u16, step: &Step) -> bool {
    if a.bytes.len() < 4 {
        return false;
    }
    let ctrl = refapp::Ctrl::from_u8(a.bytes[0]);
    a.src == assoc
        && a.bytes[1] == 129
        && ctrl.fir
        && ctrl.fin
        && !ctrl.uns
        && ctrl.seq == step.seq
        && a.bytes[3] & 0x07 == 0
        && (refapp::decode_fragment(&a.bytes).is_ok()
            || refapp::response_parses_leniently(&a.bytes))
}

pub fn analyse(
    case: &SmastCase,
    run: &MastRun,
) -> (Option<Violation>, bool, u64, Vec<(String, u64)>) {
    let hist = master_time_history(case, run);
    let mut counters: BTreeMap<String, u64> = BTreeMap::new();
    let mut bump = |k: &str| *counters.entry(k.to_string()).or_insert(0) += 1;
    let timeout_of = |addr: u16| {
        case.cfg
            .assocs
            .iter()
            .find(|a| a.address == addr)
            .map(|a| a.response_timeout_ms)
            .unwrap_or(5000)
    };
    let max_queued = |addr: u16| {
        case.cfg
            .assocs
            .iter()
            .find(|a| a.address == addr)
            .map(|a| a.max_queued)
            .unwrap_or(16)
    };

    let mut users: Vec<User> = Vec::new();
    let mut tasks: Vec<Task> = Vec::new();
    let mut arrivals: Vec<Arrival> = Vec::new();
    // instants at which something other than the reply stream interfered: (time, what)
    let mut disturbances: Vec<(u64, String)> = Vec::new();
    // associations removed at run time: (virtual ms, address); the script names them by position among those still there
    let mut removed_assocs: Vec<(u64, u16)> = Vec::new();
    let mut assocs_alive: Vec<u16> = case.cfg.assocs.iter().map(|a| a.address).collect();
    let mut connected_spans: Vec<(u64, Option<u64>)> = Vec::new();
    let mut queue: BTreeMap<u16, VecDeque<u64>> = BTreeMap::new();
    let mut current: BTreeMap<u16, usize> = BTreeMap::new();
    let mut link_requests: Vec<(u64, u16)> = Vec::new();
    let mut mapping_ok = true;
    let mut killed_at: Option<u64> = None;

    for (pos, (order, h)) in hist.iter().enumerate() {
        let pos = pos as u64;
        match h {
            H::UserRequest { t, assoc, id, .. } => {
                let kind = run
                    .user_kinds
                    .iter()
                    .find(|u| u.0 == *id)
                    .map(|u| u.2.clone());
                if let Some(kind) = kind {
                    let backlog = users
                        .iter()
                        .filter(|u| u.assoc == *assoc && u.done.is_none())
                        .count();
                    users.push(User {
                        id: *id,
                        assoc: *assoc,
                        kind,
                        t: *t,
                        pos,
                        done: None,
                        task: None,
                        backlog,
                        file: Vec::new(),
                    });
                    queue.entry(*assoc).or_default().push_back(*id);
                }
            }
            H::File {
                t,
                id,
                what,
                block,
                len,
                content_ok,
                detail,
            } => {
                if let Some(u) = users.iter_mut().find(|u| u.id == *id) {
                    u.file.push((
                        *t,
                        pos,
                        what.clone(),
                        *block,
                        *len,
                        *content_ok,
                        detail.clone(),
                    ));
                    // the outcome of a file transfer is the reader's terminal callback
                    if (what == "completed" || what == "aborted") && u.done.is_none() {
                        u.done = Some((*t, pos, what == "completed", detail.clone()));
                    }
                }
            }
            H::UserDone { t, id, ok, outcome } => {
                if let Some(u) = users.iter_mut().find(|u| u.id == *id) {
                    if matches!(u.kind, UserKind::FileRead { .. }) {
                        // read_file only queues the transfer
                        continue;
                    }
                    u.done = Some((*t, pos, *ok, outcome.clone()));
                    if let Some(q) = queue.get_mut(&u.assoc) {
                        q.retain(|x| x != id);
                    }
                }
            }
            H::TaskStart { t, assoc, func, .. } => {
                current.insert(*assoc, tasks.len());
                tasks.push(Task {
                    assoc: *assoc,
                    start_t: *t,
                    start_pos: pos,
                    func: *func,
                    end: None,
                    steps: Vec::new(),
                    user: None,
                    last_fragment: None,
                });
            }
            H::TaskSuccess { t, assoc, .. } => {
                if let Some(i) = current.remove(assoc) {
                    tasks[i].end = Some((*t, pos, true, String::new()));
                }
            }
            H::TaskFail { t, assoc, err, .. } => {
                if let Some(i) = current.remove(assoc) {
                    tasks[i].end = Some((*t, pos, false, err.clone()));
                }
            }
            H::Request {
                t,
                dest,
                seq,
                func,
                bytes,
                ..
            } => {
                if let Some(i) = current.get(dest) {
                    tasks[*i].steps.push(Step {
                        written: t.saturating_sub(case.latency.0),
                        pos,
                        order: *order,
                        seq: *seq,
                        func: *func,
                        bytes: bytes.clone(),
                    });
                }
            }
            H::End { t, assoc, .. } => {
                if let Some(i) = current.get(assoc) {
                    tasks[*i].last_fragment = Some(*t);
                }
            }
            H::PeerTx {
                t,
                src,
                bytes,
                kind,
                valid,
                answers,
                ..
            } => {
                arrivals.push(Arrival {
                    t: *t,
                    pos,
                    src: *src,
                    bytes: bytes.clone(),
                    kind: kind.clone(),
                    valid: *valid,
                    answers: *answers,
                });
            }
            H::LinkRx { t, ctrl, dest, .. } => {
                // REQUEST_LINK_STATUS from the master (PRM set, function 9)
                if ctrl & 0x4F == 0x49 {
                    link_requests.push((t.saturating_sub(case.latency.0), *dest));
                }
            }
            H::Client { t, state } => {
                if state == "Connected" {
                    connected_spans.push((*t, None));
                } else {
                    if let Some(last) = connected_spans.last_mut() {
                        if last.1.is_none() {
                            last.1 = Some(*t);
                        }
                    }
                    disturbances.push((*t, format!("client {}", state)));
                }
            }
            H::Closed { t, .. } => {
                disturbances.push((*t, "closed".to_string()));
                disturbances.push((t.saturating_sub(case.latency.0), "closed".to_string()));
                disturbances.push((*t + case.latency.1, "closed".to_string()));
            }
            H::Op { t, index } => match case.script.get(*index) {
                Some(MOp::Cut { .. })
                | Some(MOp::Disable)
                | Some(MOp::RemoveAssoc(_))
                | Some(MOp::NetPlan(_))
                | Some(MOp::Enable) => {
                    disturbances.push((*t, format!("{:?}", case.script[*index])));
                    if let Some(MOp::RemoveAssoc(k)) = case.script.get(*index) {
                        if !assocs_alive.is_empty() {
                            let addr = assocs_alive.remove(*k % assocs_alive.len());
                            removed_assocs.push((*t, addr));
                        }
                    }
                }
                Some(MOp::KillMaster) => {
                    disturbances.push((*t, "kill".to_string()));
                    if killed_at.is_none() {
                        killed_at = Some(*t);
                    }
                }
                _ => {}
            },
            _ => {}
        }
    }
    // Pair tasks with user requests: per association both run first-in first-out; requests that failed before they were started
    // (no connection, disabled, queue full, association removed, shutdown) are skipped. A pairing must be consistent (function
    // code, times, outcome) and unique, otherwise the harness gives no verdicts beyond "every request completed".
    let mut ambiguous = false;
    {
        let mut assoc_addrs: Vec<u16> = tasks.iter().map(|t| t.assoc).collect();
        assoc_addrs.sort();
        assoc_addrs.dedup();
        for addr in assoc_addrs {
            let reqs: Vec<usize> = (0..users.len())
                .filter(|i| {
                    users[*i].assoc == addr && !matches!(users[*i].kind, UserKind::LinkStatus)
                })
                .collect();
            let mut next = 0usize;
            for ti in 0..tasks.len() {
                if tasks[ti].assoc != addr {
                    continue;
                }
                let task = tasks[ti].clone();
                let consistent = |u: &User| -> bool {
                    if matches!(u.kind, UserKind::FileRead { .. } | UserKind::Directory(_)) {
                        return first_func(&u.kind) == Some(task.func)
                            && u.t <= task.start_t
                            && match (&task.end, &u.done) {
                                (Some((et, _, _, _)), Some((dt, _, _, _))) => {
                                    *dt >= task.start_t && dt <= et
                                }
                                (None, Some((dt, _, ok, _))) => !*ok && *dt >= task.start_t,
                                (None, None) => true,
                                (Some(_), None) => false,
                            };
                    }
                    first_func(&u.kind) == Some(task.func)
                        && u.t <= task.start_t
                        && match (&task.end, &u.done) {
                            (Some((et, _, success, _)), Some((dt, _, ok, _))) => {
                                et == dt && success == ok
                            }
                            (None, Some((dt, _, ok, _))) => !*ok && *dt >= task.start_t,
                            (None, None) => true,
                            (Some(_), None) => false,
                        }
                };
                let mut cands = Vec::new();
                for j in next..reqs.len() {
                    let u = &users[reqs[j]];
                    if consistent(u) {
                        cands.push(j);
                    }
                    // may this request be skipped (it never started)?
                    let skippable =
                        matches!(&u.done, Some((dt, _, false, _)) if *dt <= task.start_t);
                    if !skippable {
                        break;
                    }
                }
                match cands.len() {
                    0 => mapping_ok = false,
                    1 => {
                        users[reqs[cands[0]]].task = Some(ti);
                        tasks[ti].user = Some(users[reqs[cands[0]]].id);
                        next = cands[0] + 1;
                    }
                    _ => {
                        ambiguous = true;
                        users[reqs[cands[0]]].task = Some(ti);
                        next = cands[0] + 1;
                    }
                }
            }
        }
    }
    let mut fp = 0u64;
    let mut nontrivial = false;
    let mut violation: Option<Violation> = None;
    for u in &users {
        if u.task.is_none() && u.done.is_some() && !matches!(u.kind, UserKind::LinkStatus) {
            bump("probe.request_failed_before_start");
        }
    }
    let mut fail = |v: Violation| {
        if violation.is_none() {
            violation = Some(v);
        }
    };
    let connected_throughout = |t0: u64, t1: u64| {
        connected_spans
            .iter()
            .any(|(a, b)| *a < t0 && b.map(|b| b > t1).unwrap_or(true))
    };
    let disturbed = |t0: u64, t1: u64| disturbances.iter().any(|(t, _)| *t >= t0 && *t <= t1 + 1);

    // R1: exactly one outcome for every request, however the run went
    for u in &users {
        if u.done.is_none() {
            fail(Violation::new(
                "C16/request-never-completed",
                format!("{}", kind_name(&u.kind)),
                format!(
                    "user request {} ({:?}) submitted at {} ms to {} had no outcome {} ms later, long after the channel went quiet",
                    u.id,
                    u.kind,
                    u.t,
                    u.assoc,
                    run.end_ms.saturating_sub(u.t)
                ),
            ));
        }
    }
    // R10: "shutdown" is reported only when the master was shut down - not for a request that could not be sent, timed out, ...
    for u in &users {
        if let Some((t, _, false, outcome)) = &u.done {
            let shut_down = killed_at.map(|k| k <= *t).unwrap_or(false);
            // (requests of an association that is being removed are dropped with it: the property names no error for that)
            let removed = removed_assocs.iter().any(|(dt, addr)| *dt <= *t && *addr == u.assoc);
            // (a reader that aborts the transfer itself in `opened` is told so through the drop of the task: error value unspecified)
            let self_aborted = matches!(u.kind, UserKind::FileRead { abort_at: Some(_), .. });
            if outcome.contains("Shutdown") && !shut_down && !removed && !self_aborted {
                fail(Violation::new(
                    "C16/shutdown-reported-without-shutdown",
                    kind_name(&u.kind).to_string(),
                    format!("user request {} ({:?}) failed at {} ms with {} although the master was never shut down", u.id, u.kind, t, outcome),
                ));
            }
        }
    }
    // a request made after the master task is gone fails at once
    if let Some(k) = killed_at {
        for u in &users {
            if u.t > k {
                if let Some((_, _, true, _)) = u.done {
                    fail(Violation::new("C16/success-after-shutdown", kind_name(&u.kind), format!("user request {} submitted after the master task was dropped reported success", u.id)));
                }
            }
        }
    }
    // R9: a link status check ends no later than one response timeout after its request frame was written
    for (w, dest) in &link_requests {
        let timeout = timeout_of(*dest);
        let resolved = users.iter().any(|u| {
            u.assoc == *dest
                && matches!(u.kind, UserKind::LinkStatus)
                && u.t <= *w
                && matches!(&u.done, Some((dt, _, _, _)) if *dt >= *w && *dt <= *w + timeout + 2)
        });
        if !resolved && killed_at.map(|k| k > *w + timeout + 2).unwrap_or(true) {
            let late = users
                .iter()
                .filter(|u| u.assoc == *dest && matches!(u.kind, UserKind::LinkStatus) && u.t <= *w)
                .filter_map(|u| u.done.as_ref().map(|d| (d.0, d.3.clone())))
                .filter(|d| d.0 >= *w)
                .min();
            fail(Violation::new(
                "C16/link-status-check-later-than-response-timeout",
                "",
                format!(
                    "REQUEST_LINK_STATUS was written to {} at {} ms (response timeout {} ms) but no link status check resolved by {} ms (next resolution: {:?})",
                    dest,
                    w,
                    timeout,
                    w + timeout + 2,
                    late
                ),
            ));
        }
    }
    if !mapping_ok && !ambiguous {
        // no consistent pairing exists. With a single request and a single task on an association there is nothing to pair
        // wrongly: the task IS that request's, and the disagreement is the master's (a request carried out as another kind
        // of task, an outcome reported to the user that differs from how the task ended, or at another time)
        let mut assoc_addrs: Vec<u16> = tasks.iter().map(|t| t.assoc).collect();
        assoc_addrs.sort();
        assoc_addrs.dedup();
        for addr in assoc_addrs {
            let us: Vec<&User> = users
                .iter()
                .filter(|u| u.assoc == addr && !matches!(u.kind, UserKind::LinkStatus))
                .collect();
            let ts: Vec<&Task> = tasks.iter().filter(|t| t.assoc == addr).collect();
            if let ([u], [t]) = (us.as_slice(), ts.as_slice()) {
                let is_file = matches!(u.kind, UserKind::FileRead { .. } | UserKind::Directory(_));
                let func_differs = first_func(&u.kind).map(|f| f != t.func).unwrap_or(false);
                let outcome_differs = match (&t.end, &u.done) {
                    (Some((et, _, success, _)), Some((dt, _, ok, _))) if !is_file => et != dt || success != ok,
                    _ => false,
                };
                if u.t <= t.start_t && (func_differs || outcome_differs) {
                    fail(Violation::new(
                        "C16/task-does-not-match-request",
                        format!(
                            "{} {}",
                            kind_name(&u.kind),
                            if func_differs { "function" } else { "outcome" }
                        ),
                        format!(
                            "the only user request of {} ({:?}, outcome {:?}) was carried out as a task with first function {} that ended {:?}",
                            addr, u.kind, u.done, t.func, t.end
                        ),
                    ));
                }
            }
        }
    }
    if !mapping_ok || ambiguous {
        // the harness could not pair tasks with user requests beyond doubt: no further verdicts
        bump(if ambiguous {
            "probe.task_mapping_ambiguous"
        } else {
            "probe.task_mapping_failed"
        });
        let out: Vec<(String, u64)> = counters.into_iter().collect();
        return (violation, false, 0, out);
    }

    // "timeout ... yields the corresponding error" read the other way round: a request is reported as timed out only if one of
    // its requests had in fact been waiting for a response timeout (not when it was swept away by a disconnect, a disable or
    // a removal, and not when it never started)
    for u in &users {
        let Some((done_t, _, false, outcome)) = &u.done else { continue };
        if !outcome.contains("ResponseTimeout") || matches!(u.kind, UserKind::LinkStatus) {
            continue;
        }
        bump("probe.timeout_outcome_judged");
        let timeout = timeout_of(u.assoc);
        let waited = match u.task.and_then(|ti| tasks.get(ti)) {
            Some(task) => task.steps.iter().any(|st| *done_t + 2 >= st.written + timeout)
                // (a request lost in flight is not in the list of steps: the task's start is the earliest it can have been written)
                || (case.latency.0 > 0 && *done_t + 2 >= task.start_t + timeout),
            None => false,
        };
        if !waited {
            fail(Violation::new(
                "C16/timeout-reported-without-a-timeout",
                kind_name(&u.kind).to_string(),
                format!(
                    "user request {} ({:?}) to {} failed at {} ms with {} although none of its requests had been waiting for the response timeout of {} ms (task: {:?})",
                    u.id, u.kind, u.assoc, done_t, outcome, timeout,
                    u.task.and_then(|ti| tasks.get(ti)).map(|t| (t.start_t, t.steps.iter().map(|s| s.written).collect::<Vec<_>>()))
                ),
            ));
        }
    }

    for (ti, task) in tasks.iter().enumerate() {
        let timeout = timeout_of(task.assoc);
        let user = task.user.and_then(|id| users.iter().find(|u| u.id == id));
        let Some(user) = user else { continue };
        let is_command = matches!(user.kind, UserKind::Command { .. });
        fp = mix(&[fp, task.func as u64, task.steps.len() as u64]);
        let end_t = task.end.as_ref().map(|e| e.0);
        // arrivals relevant to a step: after its request was written, before the next step / the end of the task
        let window = |k: usize| -> (u64, u64, u64) {
            let s = &task.steps[k];
            let until_pos = task
                .steps
                .get(k + 1)
                .map(|n| n.pos)
                .or(task.end.as_ref().map(|e| e.1))
                .unwrap_or(u64::MAX);
            (s.written, s.written + timeout, until_pos)
        };
        let in_window = |k: usize, a: &Arrival| {
            let (from, deadline, until_pos) = window(k);
            a.t >= from && a.t <= deadline && a.pos < until_pos && a.pos > task.start_pos
        };

        // for the safety rules: a fragment that arrived in the millisecond in which the request was written counts, whichever
        // side of the write the history places it on
        let in_window_lenient = |k: usize, a: &Arrival| {
            let (from, deadline, until_pos) = window(k);
            a.t >= from && a.t <= deadline && a.pos < until_pos
        };
        // R4: an OPERATE is written only after a faithful echo of its SELECT, with the next sequence number and identical objects
        for (k, s) in task.steps.iter().enumerate() {
            if s.func != refapp::FUNC_OPERATE {
                continue;
            }
            let ok = k > 0 && {
                let sel = &task.steps[k - 1];
                sel.func == refapp::FUNC_SELECT
                    && s.seq == (sel.seq + 1) & 0x0F
                    && sel.bytes[2..] == s.bytes[2..]
                    && arrivals
                        .iter()
                        .any(|a| in_window_lenient(k - 1, a) && faithful_echo(a, task.assoc, sel))
            };
            if !ok {
                fail(Violation::new(
                    "C16/operate-without-faithful-select-echo",
                    "",
                    format!("OPERATE (seq {}) was written to {} at {} ms although its SELECT was not answered by a faithful echo (or sequence/objects differ)", s.seq, task.assoc, s.written),
                ));
            }
        }

        // R10 for a request whose task had started: removing its association while it runs is not a shutdown either (queued
        // requests are dropped with the association, a running one is told NoSuchAssociation or times out)
        if let Some((t, _, false, outcome)) = &user.done {
            let shut_down = killed_at.map(|k| k <= *t).unwrap_or(false);
            let self_aborted = matches!(user.kind, UserKind::FileRead { abort_at: Some(_), .. });
            if outcome.contains("Shutdown") && !shut_down && !self_aborted && !task.steps.is_empty() {
                fail(Violation::new(
                    "C16/shutdown-reported-without-shutdown",
                    format!("{} started", kind_name(&user.kind)),
                    format!(
                        "user request {} ({:?}), whose first request was written at {} ms, failed at {} ms with {} although the master was never shut down",
                        user.id, user.kind, task.steps[0].written, t, outcome
                    ),
                ));
            }
        }

        // R11: the first request of a command task carries exactly the objects the user asked for, in order
        if let UserKind::Command { headers, .. } = &user.kind {
            if let Some(first) = task.steps.first() {
                let want = crate::verif::smast::reference_command_objects(headers);
                if matches!(first.func, refapp::FUNC_SELECT | refapp::FUNC_DIRECT_OPERATE)
                    && first.bytes.len() >= 2
                    && first.bytes[2..] != want[..]
                {
                    fail(Violation::new(
                        "C16/request-differs-from-command-set",
                        "",
                        format!(
                            "user request {} asked for {:?}; the request written to {} at {} ms carries {:02X?}, the command set encodes as {:02X?}",
                            user.id, headers, task.assoc, first.written, &first.bytes[2..], want
                        ),
                    ));
                }
            }
        }

        let Some((done_t, _, ok, outcome)) = user.done.clone() else {
            continue;
        };
        let is_file = matches!(
            user.kind,
            UserKind::FileRead { .. } | UserKind::Directory(_)
        );

        // F: a file reader gets `opened`, then the blocks in order with the file's contents, then exactly one terminal callback
        if let UserKind::FileRead {
            blocks,
            block_size,
            abort_at,
            ..
        } = &user.kind
        {
            let terminals = user
                .file
                .iter()
                .filter(|e| e.2 == "completed" || e.2 == "aborted")
                .count();
            if terminals != 1 {
                fail(Violation::new(
                    "C16/file-reader-terminal-callbacks",
                    format!("{}", terminals),
                    format!(
                        "the FileReader of user request {} received {} terminal callbacks: {:?}",
                        user.id,
                        terminals,
                        user.file.iter().map(|e| e.2.clone()).collect::<Vec<_>>()
                    ),
                ));
            }
            let mut expected_block = 0u32;
            let mut opened = false;
            let mut finished = false;
            for e in &user.file {
                let bad = match e.2.as_str() {
                    _ if finished => Some("a callback after the terminal one".to_string()),
                    "opened" => {
                        let r = if opened {
                            Some("opened twice".to_string())
                        } else if e.4 != *blocks as usize * *block_size as usize {
                            Some(format!("opened with size {}", e.4))
                        } else {
                            None
                        };
                        opened = true;
                        r
                    }
                    "block" => {
                        let last_flag = if expected_block + 1 == *blocks as u32 {
                            0x8000_0000u32
                        } else {
                            0
                        };
                        let r = if !opened {
                            Some("block before opened".to_string())
                        } else if e.3 & 0x7FFF_FFFF != expected_block {
                            Some(format!(
                                "block {} delivered when block {} was due",
                                e.3 & 0x7FFF_FFFF,
                                expected_block
                            ))
                        } else if !e.5 || e.4 != *block_size as usize {
                            Some(format!(
                                "block {} delivered with wrong contents or length {}",
                                expected_block, e.4
                            ))
                        } else {
                            None
                        };
                        let _ = last_flag;
                        expected_block += 1;
                        r
                    }
                    "completed" => {
                        finished = true;
                        if expected_block != *blocks as u32 {
                            Some(format!(
                                "completed after {} of {} blocks",
                                expected_block, blocks
                            ))
                        } else if abort_at.map(|k| k <= *blocks).unwrap_or(false) {
                            Some("completed although the reader asked to abort".to_string())
                        } else {
                            None
                        }
                    }
                    _ => {
                        finished = true;
                        None
                    }
                };
                if let Some(b) = bad {
                    fail(Violation::new(
                        "C16/file-reader-callback-sequence",
                        b.split(' ').next().unwrap_or("").to_string(),
                        format!(
                            "FileReader of user request {} ({:?}): {}; callbacks: {:?}",
                            user.id,
                            user.kind,
                            b,
                            user.file
                                .iter()
                                .map(|e| (e.2.clone(), e.3 & 0x7FFF_FFFF))
                                .collect::<Vec<_>>()
                        ),
                    ));
                    break;
                }
            }
        }

        // R3: success only if every step was truly accepted
        // a request written less than the latency before the connection went down never reached the scripted outstation: the
        // steps of such a task are not all known
        let request_lost_in_flight = case.latency.0 > 0 && connected_spans.iter().any(|(_, b)| {
            b.map(|b| b >= task.start_t && b <= done_t + case.latency.0 + 1)
                .unwrap_or(false)
        });
        if ok && !is_file && !request_lost_in_flight {
            let steps_ok = task.steps.len() == expected_steps(&user.kind);
            let mut all = steps_ok;
            let mut missing = String::new();
            for (k, s) in task.steps.iter().enumerate() {
                let found = arrivals.iter().any(|a| {
                    in_window_lenient(k, a)
                        && if is_command {
                            faithful_echo(a, task.assoc, s)
                        } else {
                            plausible_answer(a, task.assoc, s) && file_answer_ok(&user.kind, a)
                        }
                });
                // READ series: the first fragment need not be final
                let found = found
                    || (s.func == refapp::FUNC_READ
                        && arrivals.iter().any(|a| {
                            in_window_lenient(k, a)
                                && a.src == task.assoc
                                && a.bytes.len() >= 4
                                && a.bytes[1] == 129
                                && a.bytes[0] & 0x0F == s.seq
                        }));
                if !found {
                    all = false;
                    missing = format!("step {} (function {}, seq {})", k, s.func, s.seq);
                }
            }
            if !all {
                fail(Violation::new(
                    if is_command { "C16/command-success-without-faithful-echo" } else { "C16/success-without-answer" },
                    format!("{} steps={}", kind_name(&user.kind), task.steps.len()),
                    format!(
                        "user request {} ({:?}) reported success, but {} was not answered by {} within its response timeout",
                        user.id,
                        user.kind,
                        if steps_ok { missing } else { format!("the task wrote {} requests instead of {}", task.steps.len(), expected_steps(&user.kind)) },
                        if is_command { "a byte-identical all-SUCCESS echo from the addressed outstation with the request's sequence number" } else { "any acceptable response" }
                    ),
                ));
            }
        }

        // R2: bounded by the protocol steps - each wait ends at most one response timeout after the last progress
        if let (Some(end_t), Some(last)) = (end_t, task.steps.last()) {
            let progress = task
                .last_fragment
                .map(|f| f.max(last.written))
                .unwrap_or(last.written);
            // (a later request of the task that was written less than the latency before the connection went down never reached
            // the scripted outstation: the last request known here is then not the last one written)
            if end_t > progress + timeout + 2 && !request_lost_in_flight {
                fail(Violation::new(
                    "C16/outcome-later-than-response-timeout",
                    format!("{}", kind_name(&user.kind)),
                    format!(
                        "task for user request {} ({:?}) wrote its last request at {} ms (last accepted fragment {:?}) with response timeout {} ms but ended at {} ms",
                        user.id, user.kind, last.written, task.last_fragment, timeout, end_t
                    ),
                ));
            }
            if done_t != end_t && !is_file {
                // resolution of the user's future belongs to the end of its task
                fail(Violation::new(
                    "C16/outcome-not-at-task-end",
                    format!("{}", kind_name(&user.kind)),
                    format!(
                        "user request {} resolved at {} ms but its task ended at {} ms",
                        user.id, done_t, end_t
                    ),
                ));
            }
        }

        // verdict per step for the "clean" direction
        // clean = nothing but clearly ignorable fragments arrived before the scripted outstation's valid answer, which arrived in time
        let undisturbed = connected_throughout(user.t, done_t)
            && !disturbed(user.t, done_t)
            && user.backlog < max_queued(user.assoc);
        let mut verdicts: Vec<&'static str> = Vec::new();
        for (k, s) in task.steps.iter().enumerate() {
            let (_, deadline, _) = window(k);
            let mut v = "silent";
            for a in arrivals.iter().filter(|a| in_window(k, a)) {
                if a.t >= deadline {
                    v = "tie";
                    break;
                }
                if a.valid && a.answers == Some(s.order) && a.src == task.assoc {
                    let ctrl = refapp::Ctrl::from_u8(a.bytes[0]);
                    if s.func == refapp::FUNC_READ {
                        v = if ctrl.fir && ctrl.fin {
                            "valid"
                        } else {
                            "series"
                        };
                    } else if is_command && !faithful_echo(a, task.assoc, s) {
                        v = "other";
                    } else {
                        v = "valid";
                    }
                    break;
                }
                if clearly_ignorable(a, task.assoc, s) {
                    continue;
                }
                v = match a.kind.as_str() {
                    "echo-mutated" => {
                        // which deviation is it? an echo equal to the request except for one non-zero status
                        if is_command && status_only_deviation(&a.bytes, &s.bytes) {
                            "bad-status"
                        } else {
                            "other"
                        }
                    }
                    "iin"
                        if a.bytes.len() >= 4
                            && a.bytes[3] & 0x07 != 0
                            && a.bytes[0] & 0xD0 == 0xC0
                            && a.src == task.assoc
                            && a.bytes[0] & 0x0F == s.seq =>
                    {
                        "iin2"
                    }
                    _ => {
                        if std::env::var("C16_DEBUG2").is_ok()
                            && (a.kind == "foreign" || a.kind == "stale")
                        {
                            eprintln!(
                                "OTHER {:?} assoc {} step seq {} func {} decode {:?}",
                                a,
                                task.assoc,
                                s.seq,
                                s.func,
                                refapp::decode_fragment(&a.bytes).map(|_| ())
                            );
                        }
                        "other"
                    }
                };
                break;
            }
            // anything arriving in the very millisecond in which the task started may have been read before or after the request
            // was written (later steps are written in reaction to an arrival, so nothing can come in between)
            if k == 0 && arrivals.iter().any(|a| a.t == s.written && a.pos < s.pos) {
                v = "tie";
            }
            if std::env::var("C16_DEBUG").is_ok() {
                eprintln!(
                    "task {} step {} verdict {} window {:?}",
                    ti,
                    k,
                    v,
                    window(k)
                );
            }
            verdicts.push(v);
            fp = mix(&[fp, v.len() as u64, v.as_bytes()[0] as u64]);
        }
        if verdicts.iter().any(|v| *v != "valid") || !undisturbed {
            nontrivial = true;
        }
        if !undisturbed || verdicts.iter().any(|v| *v == "tie") {
            continue;
        }
        fp = mix(&[fp, ok as u64]);
        let all_valid =
            verdicts.len() == expected_steps(&user.kind) && verdicts.iter().all(|v| *v == "valid");
        bump(&format!("probe.kind.{}", kind_name(&user.kind)));
        if all_valid {
            bump("probe.undisturbed_faithfully_answered");
        }
        if ok && is_command {
            bump("probe.command_success_checked");
        }
        if let Some(v) = verdicts.last() {
            if !ok && verdicts[..verdicts.len() - 1].iter().all(|v| *v == "valid") {
                match *v {
                    "silent" => bump("probe.lost_reply_outcome_checked"),
                    "bad-status" => bump("probe.error_status_outcome_checked"),
                    "iin2" => bump("probe.iin2_outcome_checked"),
                    _ => bump("probe.other_deviation"),
                }
                if verdicts.len() > 1 {
                    bump("probe.deviation_in_later_step");
                }
            }
        }
        // R5: a request whose every step was answered faithfully and in time, with nothing else going on, succeeds
        if let (
            true,
            UserKind::FileRead {
                blocks, abort_at, ..
            },
        ) = (all_valid, &user.kind)
        {
            let want_completed = !abort_at.map(|k| k <= *blocks).unwrap_or(false);
            if ok != want_completed {
                fail(Violation::new(
                    "C16/file-transfer-wrong-terminal-callback",
                    format!("{}", if want_completed { "aborted" } else { "completed" }),
                    format!("user request {} ({:?}): every step was answered faithfully, the reader got {} ({})", user.id, user.kind, if ok { "completed" } else { "aborted" }, outcome),
                ));
            }
        }
        if let UserKind::Directory(n) = &user.kind {
            // a directory listing that was served faithfully arrives complete; success always carries exactly the entries served
            if all_valid && !ok {
                fail(Violation::new(
                    "C16/faithfully-answered-request-failed",
                    "directory",
                    format!("user request {} ({:?}) failed with {} although every step was answered faithfully", user.id, user.kind, outcome),
                ));
            }
            if ok && !outcome.starts_with(&format!("Ok({} entries", n)) {
                fail(Violation::new(
                    "C16/directory-listing-differs",
                    "",
                    format!(
                        "user request {} asked for a directory of {} entries and was told {}",
                        user.id, n, outcome
                    ),
                ));
            }
        }
        if all_valid && !ok && !is_file && !matches!(user.kind, UserKind::TimeSync(_)) {
            fail(Violation::new(
                "C16/faithfully-answered-request-failed",
                format!("{}", kind_name(&user.kind)),
                format!("user request {} ({:?}) failed with {} although every step was answered faithfully within the response timeout and nothing disturbed the channel", user.id, user.kind, outcome),
            ));
        }
        // R6: the error corresponds to what went wrong
        if let Some(last) = verdicts.last() {
            let last_step = task.steps.last().unwrap();
            let prior_valid = verdicts[..verdicts.len() - 1].iter().all(|v| *v == "valid");
            if prior_valid && !ok && !is_file {
                match *last {
                    "silent" => {
                        let at = last_step.written + timeout;
                        if !outcome.contains("ResponseTimeout")
                            || done_t + 1 < at
                            || done_t > at + 2
                        {
                            fail(Violation::new(
                                "C16/wrong-outcome-for-lost-reply",
                                format!("{}", kind_name(&user.kind)),
                                format!(
                                    "user request {} ({:?}): the reply to step {} (written at {} ms, timeout {} ms) never came; expected ResponseTimeout at {} ms, got {} at {} ms",
                                    user.id,
                                    user.kind,
                                    verdicts.len() - 1,
                                    last_step.written,
                                    timeout,
                                    at,
                                    outcome,
                                    done_t
                                ),
                            ));
                        }
                    }
                    "bad-status" => {
                        if !outcome.contains("BadStatus") {
                            fail(Violation::new(
                                "C16/wrong-outcome-for-error-status",
                                "",
                                format!("user request {} ({:?}): the echo carried a non-SUCCESS status, outcome was {}", user.id, user.kind, outcome),
                            ));
                        }
                    }
                    "iin2" => {
                        if !(outcome.contains("RejectedByIin2") || outcome.contains("IinError")) {
                            fail(Violation::new(
                                "C16/wrong-outcome-for-iin2-rejection",
                                format!("{}", kind_name(&user.kind)),
                                format!("user request {} ({:?}): the response had an IIN2 error bit set, outcome was {}", user.id, user.kind, outcome),
                            ));
                        }
                    }
                    _ => {}
                }
            }
            if prior_valid
                && !ok
                && is_file
                && *last == "silent"
                && !outcome.contains("ResponseTimeout")
            {
                fail(Violation::new(
                    "C16/wrong-outcome-for-lost-reply",
                    "file-read",
                    format!("user request {} ({:?}): the reply to step {} never came, the reader was told {}", user.id, user.kind, verdicts.len() - 1, outcome),
                ));
            }
            if prior_valid && ok && !is_file && matches!(*last, "silent" | "bad-status" | "iin2") {
                fail(Violation::new(
                    "C16/success-despite-deviation",
                    format!("{} {}", kind_name(&user.kind), last),
                    format!(
                        "user request {} ({:?}) reported success although step {} was '{}'",
                        user.id,
                        user.kind,
                        verdicts.len() - 1,
                        last
                    ),
                ));
            }
        }
        let _ = ti;
    }
    let out: Vec<(String, u64)> = counters.into_iter().collect();
    (violation, nontrivial, fp, out)
}

fn kind_name(k: &UserKind) -> &'static str {
    match k {
        UserKind::ReadClasses(_) => "read",
        UserKind::ReadCustom(_) => "read-with-handler",
        UserKind::Command { sbo: true, .. } => "command-sbo",
        UserKind::Command { sbo: false, .. } => "command-direct",
        UserKind::TimeSync(_) => "time-sync",
        UserKind::Restart { .. } => "restart",
        UserKind::LinkStatus => "link-status",
        UserKind::Empty(_) => "empty-response",
        UserKind::DeadBands(_) => "dead-bands",
        UserKind::FileRead { .. } => "file-read",
        UserKind::Directory(_) => "directory",
        UserKind::FileInfo => "file-info",
        UserKind::FileAuth => "file-authenticate",
        UserKind::FileOpen(_) => "file-open",
        UserKind::FileWriteBlock(..) => "file-write-block",
        UserKind::FileClose => "file-close",
    }
}

/// the response equals the echo of the request except that status octets are non-zero
fn status_only_deviation(resp: &[u8], req: &[u8]) -> bool {
    if resp.len() < 4 || req.len() < 2 || resp.len() - 4 != req.len() - 2 {
        return false;
    }
    let (a, b) = (&resp[4..], &req[2..]);
    let (Ok((_, ao)), Ok((_, bo))) = (
        refapp::decode_objects(a, true),
        refapp::decode_objects(b, true),
    ) else {
        return false;
    };
    if ao.len() != bo.len() {
        return false;
    }
    let mut differs = false;
    // the first object (in wire order) that differs must differ in its status octet only
    for (x, y) in ao.iter().zip(bo.iter()) {
        if x == y {
            continue;
        }
        if x.group != y.group
            || x.var != y.var
            || x.index != y.index
            || x.raw.len() != y.raw.len()
            || x.raw.is_empty()
        {
            return false;
        }
        let n = x.raw.len() - 1;
        if x.raw[..n] != y.raw[..n] {
            return false;
        }
        differs = true;
    }
    differs
}
