//! Independent reference application-layer codec (IEEE 1815 clause 4 / annex A object library):
//! request builder and a fragment decoder driven by a hand-written object size table.
//! Shares no code with /repo.

use serde::{Deserialize, Serialize};

pub const FUNC_CONFIRM: u8 = 0;
pub const FUNC_READ: u8 = 1;
pub const FUNC_WRITE: u8 = 2;
pub const FUNC_SELECT: u8 = 3;
pub const FUNC_OPERATE: u8 = 4;
pub const FUNC_DIRECT_OPERATE: u8 = 5;
pub const FUNC_DIRECT_OPERATE_NR: u8 = 6;
pub const FUNC_IMMED_FREEZE: u8 = 7;
pub const FUNC_IMMED_FREEZE_NR: u8 = 8;
pub const FUNC_FREEZE_CLEAR: u8 = 9;
pub const FUNC_FREEZE_CLEAR_NR: u8 = 10;
pub const FUNC_FREEZE_AT_TIME: u8 = 11;
pub const FUNC_FREEZE_AT_TIME_NR: u8 = 12;
pub const FUNC_COLD_RESTART: u8 = 13;
pub const FUNC_WARM_RESTART: u8 = 14;
pub const FUNC_ENABLE_UNSOL: u8 = 20;
pub const FUNC_DISABLE_UNSOL: u8 = 21;
pub const FUNC_DELAY_MEASURE: u8 = 23;
pub const FUNC_RECORD_CURRENT_TIME: u8 = 24;
pub const FUNC_RESPONSE: u8 = 129;
pub const FUNC_UNSOL_RESPONSE: u8 = 130;

#[derive(Clone, Copy, Debug, PartialEq, Eq, Serialize, Deserialize)]
pub struct Ctrl {
    pub fir: bool,
    pub fin: bool,
    pub con: bool,
    pub uns: bool,
    pub seq: u8,
}

impl Ctrl {
    pub fn request(seq: u8) -> Ctrl {
        Ctrl {
            fir: true,
            fin: true,
            con: false,
            uns: false,
            seq: seq & 0x0F,
        }
    }
    pub fn to_u8(self) -> u8 {
        (if self.fir { 0x80 } else { 0 })
            | (if self.fin { 0x40 } else { 0 })
            | (if self.con { 0x20 } else { 0 })
            | (if self.uns { 0x10 } else { 0 })
            | (self.seq & 0x0F)
    }
    pub fn from_u8(b: u8) -> Ctrl {
        Ctrl {
            fir: b & 0x80 != 0,
            fin: b & 0x40 != 0,
            con: b & 0x20 != 0,
            uns: b & 0x10 != 0,
            seq: b & 0x0F,
        }
    }
}

/// how an object header addresses its objects
#[derive(Clone, Debug, PartialEq, Eq, Serialize, Deserialize)]
pub enum Range {
    /// qualifier 0x06
    All,
    /// qualifier 0x00
    Range8(u8, u8),
    /// qualifier 0x01
    Range16(u16, u16),
    /// qualifier 0x07
    Count8(u8),
    /// qualifier 0x08
    Count16(u16),
    /// qualifier 0x17: count + 1-byte index prefixes (indices given with the objects)
    Prefix8(u8),
    /// qualifier 0x28
    Prefix16(u16),
}

impl Range {
    pub fn qualifier(&self) -> u8 {
        match self {
            Range::All => 0x06,
            Range::Range8(..) => 0x00,
            Range::Range16(..) => 0x01,
            Range::Count8(_) => 0x07,
            Range::Count16(_) => 0x08,
            Range::Prefix8(_) => 0x17,
            Range::Prefix16(_) => 0x28,
        }
    }
}

/// one object header of a request with its raw object data (prefixes included)
#[derive(Clone, Debug, PartialEq, Eq, Serialize, Deserialize)]
pub struct ReqHeader {
    pub group: u8,
    pub var: u8,
    pub range: Range,
    pub data: Vec<u8>,
}

impl ReqHeader {
    pub fn all(group: u8, var: u8) -> Self {
        Self {
            group,
            var,
            range: Range::All,
            data: Vec::new(),
        }
    }
    pub fn encode(&self, out: &mut Vec<u8>) {
        out.push(self.group);
        out.push(self.var);
        out.push(self.range.qualifier());
        match &self.range {
            Range::All => {}
            Range::Range8(a, b) => {
                out.push(*a);
                out.push(*b);
            }
            Range::Range16(a, b) => {
                out.extend_from_slice(&a.to_le_bytes());
                out.extend_from_slice(&b.to_le_bytes());
            }
            Range::Count8(c) | Range::Prefix8(c) => out.push(*c),
            Range::Count16(c) | Range::Prefix16(c) => out.extend_from_slice(&c.to_le_bytes()),
        }
        out.extend_from_slice(&self.data);
    }
}

pub fn build_request(ctrl: Ctrl, func: u8, headers: &[ReqHeader]) -> Vec<u8> {
    let mut out = vec![ctrl.to_u8(), func];
    for h in headers {
        h.encode(&mut out);
    }
    out
}

pub fn build_confirm(uns: bool, seq: u8) -> Vec<u8> {
    vec![
        Ctrl {
            fir: true,
            fin: true,
            con: false,
            uns,
            seq: seq & 0x0F,
        }
        .to_u8(),
        FUNC_CONFIRM,
    ]
}

// ---------------------------------------------------------------------------------------------
// object size table

#[derive(Clone, Copy, Debug, PartialEq, Eq)]
pub enum ObjSize {
    /// fixed number of octets per object
    Fixed(usize),
    /// bit-packed, n bits per object
    Bits(usize),
    /// octets per object == variation (octet strings)
    ByVariation,
    /// no object data at all (class objects etc.)
    Empty,
    /// device attributes: [type][len][len octets]
    Attr,
}

pub fn obj_size(group: u8, var: u8) -> Option<ObjSize> {
    use ObjSize::*;
    Some(match (group, var) {
        (0, _) => Attr,
        (1, 1) => Bits(1),
        (1, 2) => Fixed(1),
        (2, 1) => Fixed(1),
        (2, 2) => Fixed(7),
        (2, 3) => Fixed(3),
        (3, 1) => Bits(2),
        (3, 2) => Fixed(1),
        (4, 1) => Fixed(1),
        (4, 2) => Fixed(7),
        (4, 3) => Fixed(3),
        (10, 1) => Bits(1),
        (10, 2) => Fixed(1),
        (11, 1) => Fixed(1),
        (11, 2) => Fixed(7),
        (12, 1) => Fixed(11),
        (13, 1) => Fixed(1),
        (13, 2) => Fixed(7),
        (20, 1) => Fixed(5),
        (20, 2) => Fixed(3),
        (20, 5) => Fixed(4),
        (20, 6) => Fixed(2),
        (21, 1) => Fixed(5),
        (21, 2) => Fixed(3),
        (21, 5) => Fixed(11),
        (21, 6) => Fixed(9),
        (21, 9) => Fixed(4),
        (21, 10) => Fixed(2),
        (22, 1) => Fixed(5),
        (22, 2) => Fixed(3),
        (22, 5) => Fixed(11),
        (22, 6) => Fixed(9),
        (23, 1) => Fixed(5),
        (23, 2) => Fixed(3),
        (23, 5) => Fixed(11),
        (23, 6) => Fixed(9),
        (30, 1) => Fixed(5),
        (30, 2) => Fixed(3),
        (30, 3) => Fixed(4),
        (30, 4) => Fixed(2),
        (30, 5) => Fixed(5),
        (30, 6) => Fixed(9),
        (32, 1) => Fixed(5),
        (32, 2) => Fixed(3),
        (32, 3) => Fixed(11),
        (32, 4) => Fixed(9),
        (32, 5) => Fixed(5),
        (32, 6) => Fixed(9),
        (32, 7) => Fixed(11),
        (32, 8) => Fixed(15),
        (34, 1) => Fixed(2),
        (34, 2) => Fixed(4),
        (34, 3) => Fixed(4),
        (40, 1) => Fixed(5),
        (40, 2) => Fixed(3),
        (40, 3) => Fixed(5),
        (40, 4) => Fixed(9),
        (41, 1) => Fixed(5),
        (41, 2) => Fixed(3),
        (41, 3) => Fixed(5),
        (41, 4) => Fixed(9),
        (42, 1) => Fixed(5),
        (42, 2) => Fixed(3),
        (42, 3) => Fixed(11),
        (42, 4) => Fixed(9),
        (42, 5) => Fixed(5),
        (42, 6) => Fixed(9),
        (42, 7) => Fixed(11),
        (42, 8) => Fixed(15),
        (43, 1) => Fixed(5),
        (43, 2) => Fixed(3),
        (43, 3) => Fixed(11),
        (43, 4) => Fixed(9),
        (43, 5) => Fixed(5),
        (43, 6) => Fixed(9),
        (43, 7) => Fixed(11),
        (43, 8) => Fixed(15),
        (50, 1) => Fixed(6),
        (50, 2) => Fixed(10),
        (50, 3) => Fixed(6),
        (50, 4) => Fixed(11),
        (51, 1) => Fixed(6),
        (51, 2) => Fixed(6),
        (52, 1) => Fixed(2),
        (52, 2) => Fixed(2),
        (60, 1..=4) => Empty,
        (80, 1) => Bits(1),
        (110, v) if v > 0 => ByVariation,
        (111, v) if v > 0 => ByVariation,
        _ => return None,
    })
}

// ---------------------------------------------------------------------------------------------
// decoder

#[derive(Clone, Debug, PartialEq)]
pub struct Obj {
    pub group: u8,
    pub var: u8,
    /// index (from the range or the prefix); None for count-only headers
    pub index: Option<u32>,
    /// raw object octets (for bit-packed objects: one octet holding the bits, LSB-aligned)
    pub raw: Vec<u8>,
    /// position of the owning header in the fragment (0-based)
    pub header_no: usize,
}

#[derive(Clone, Debug, PartialEq)]
pub struct HeaderInfo {
    pub group: u8,
    pub var: u8,
    pub qualifier: u8,
    pub count: usize,
    pub start: Option<u32>,
}

#[derive(Clone, Debug, PartialEq)]
pub struct Fragment {
    pub ctrl: Ctrl,
    pub func: u8,
    /// present for responses (function >= 129)
    pub iin: Option<(u8, u8)>,
    pub headers: Vec<HeaderInfo>,
    pub objects: Vec<Obj>,
    pub raw: Vec<u8>,
}

#[derive(Clone, Debug, PartialEq)]
pub enum DecodeError {
    TooShort,
    UnknownObject(u8, u8),
    UnknownQualifier(u8),
    Truncated { header_no: usize },
    BadRange { header_no: usize },
}

/// decode the object headers of a fragment body; `data_present` = objects carry data (false for READ requests)
pub fn decode_objects(
    body: &[u8],
    data_present: bool,
) -> Result<(Vec<HeaderInfo>, Vec<Obj>), DecodeError> {
    decode_objects_with(body, data_present, false)
}

/// event groups that the library's (direction-agnostic) parser treats as data-less when they come with a count qualifier (0x07/0x08)
pub fn count_only_event_group(group: u8) -> bool {
    matches!(group, 2 | 4 | 11 | 13 | 22 | 23 | 32 | 33 | 42 | 43 | 111)
}

/// as `decode_objects`; with `lenient_counts`, count-qualified headers of event groups carry no data even in a response
/// (the reading of the library's parser, which is shared between requests and responses)
pub fn decode_objects_with(
    body: &[u8],
    data_present: bool,
    lenient_counts: bool,
) -> Result<(Vec<HeaderInfo>, Vec<Obj>), DecodeError> {
    let mut headers = Vec::new();
    let mut objects = Vec::new();
    let mut pos = 0usize;
    let mut header_no = 0usize;
    while pos < body.len() {
        if body.len() - pos < 3 {
            return Err(DecodeError::Truncated { header_no });
        }
        let group = body[pos];
        let var = body[pos + 1];
        let qual = body[pos + 2];
        pos += 3;
        let take = |pos: &mut usize, n: usize| -> Result<&[u8], DecodeError> {
            if body.len() - *pos < n {
                return Err(DecodeError::Truncated { header_no });
            }
            let s = &body[*pos..*pos + n];
            *pos += n;
            Ok(s)
        };
        // (count, start index or None, prefix size)
        let (count, start, prefix): (usize, Option<u32>, usize) = match qual {
            0x00 => {
                let r = take(&mut pos, 2)?;
                if r[1] < r[0] {
                    return Err(DecodeError::BadRange { header_no });
                }
                ((r[1] - r[0]) as usize + 1, Some(r[0] as u32), 0)
            }
            0x01 => {
                let r = take(&mut pos, 4)?;
                let a = u16::from_le_bytes([r[0], r[1]]);
                let b = u16::from_le_bytes([r[2], r[3]]);
                if b < a {
                    return Err(DecodeError::BadRange { header_no });
                }
                ((b - a) as usize + 1, Some(a as u32), 0)
            }
            0x06 => (0, None, 0),
            0x07 => (take(&mut pos, 1)?[0] as usize, None, 0),
            0x08 => {
                let r = take(&mut pos, 2)?;
                (u16::from_le_bytes([r[0], r[1]]) as usize, None, 0)
            }
            0x17 => (take(&mut pos, 1)?[0] as usize, None, 1),
            0x28 => {
                let r = take(&mut pos, 2)?;
                (u16::from_le_bytes([r[0], r[1]]) as usize, None, 2)
            }
            0x5B => {
                // free format: count, then per object a 16-bit size and that many octets
                let n = take(&mut pos, 1)?[0] as usize;
                headers.push(HeaderInfo {
                    group,
                    var,
                    qualifier: qual,
                    count: n,
                    start: None,
                });
                for _ in 0..n {
                    let sz = take(&mut pos, 2)?;
                    let sz = u16::from_le_bytes([sz[0], sz[1]]) as usize;
                    let raw = take(&mut pos, sz)?.to_vec();
                    objects.push(Obj {
                        group,
                        var,
                        index: None,
                        raw,
                        header_no,
                    });
                }
                header_no += 1;
                continue;
            }
            q => return Err(DecodeError::UnknownQualifier(q)),
        };
        headers.push(HeaderInfo {
            group,
            var,
            qualifier: qual,
            count,
            start,
        });
        let dataless =
            lenient_counts && matches!(qual, 0x07 | 0x08) && count_only_event_group(group);
        let needs_data = data_present && qual != 0x06 && !dataless;
        let size = match obj_size(group, var) {
            Some(s) => s,
            // variation 0 ("any variation") of a known group: legal wherever no object data follows (READ requests)
            None if var == 0 && !needs_data && (1..=16).any(|v| obj_size(group, v).is_some()) => {
                ObjSize::Empty
            }
            // the lenient reading takes a count-qualified header of an event group without looking for objects, whatever
            // the variation (frozen analog events, g33, have no size table here)
            None if dataless || (lenient_counts && !needs_data) => ObjSize::Empty,
            None => return Err(DecodeError::UnknownObject(group, var)),
        };
        if needs_data {
            match size {
                ObjSize::Empty => {}
                ObjSize::Bits(nbits) => {
                    if prefix != 0 {
                        return Err(DecodeError::UnknownQualifier(qual));
                    }
                    let total_bits = count * nbits;
                    let nbytes = (total_bits + 7) / 8;
                    let bytes = take(&mut pos, nbytes)?;
                    for i in 0..count {
                        let bit = i * nbits;
                        let mut v = 0u8;
                        for k in 0..nbits {
                            let b = bit + k;
                            if bytes[b / 8] & (1 << (b % 8)) != 0 {
                                v |= 1 << k;
                            }
                        }
                        objects.push(Obj {
                            group,
                            var,
                            index: start.map(|s| s + i as u32),
                            raw: vec![v],
                            header_no,
                        });
                    }
                }
                ObjSize::Fixed(_) | ObjSize::ByVariation | ObjSize::Attr => {
                    for i in 0..count {
                        let index = if prefix == 1 {
                            Some(take(&mut pos, 1)?[0] as u32)
                        } else if prefix == 2 {
                            let r = take(&mut pos, 2)?;
                            Some(u16::from_le_bytes([r[0], r[1]]) as u32)
                        } else {
                            start.map(|s| s + i as u32)
                        };
                        let raw = match size {
                            ObjSize::Fixed(n) => take(&mut pos, n)?.to_vec(),
                            ObjSize::ByVariation => take(&mut pos, var as usize)?.to_vec(),
                            ObjSize::Attr => {
                                let hd = take(&mut pos, 2)?.to_vec();
                                let body = take(&mut pos, hd[1] as usize)?;
                                let mut v = hd;
                                v.extend_from_slice(body);
                                v
                            }
                            _ => unreachable!(),
                        };
                        objects.push(Obj {
                            group,
                            var,
                            index,
                            raw,
                            header_no,
                        });
                    }
                }
            }
        }
        header_no += 1;
    }
    Ok((headers, objects))
}

/// could a parser that reads count-qualified event headers as data-less take this response for well-formed?
pub fn response_parses_leniently(data: &[u8]) -> bool {
    data.len() >= 4 && data[1] >= 129 && decode_objects_with(&data[4..], true, true).is_ok()
}

/// decode a complete fragment (request or response)
pub fn decode_fragment(data: &[u8]) -> Result<Fragment, DecodeError> {
    if data.len() < 2 {
        return Err(DecodeError::TooShort);
    }
    let ctrl = Ctrl::from_u8(data[0]);
    let func = data[1];
    let (iin, body) = if func >= 129 {
        if data.len() < 4 {
            return Err(DecodeError::TooShort);
        }
        (Some((data[2], data[3])), &data[4..])
    } else {
        (None, &data[2..])
    };
    let data_present = func != FUNC_READ;
    let (headers, objects) = decode_objects(body, data_present)?;
    Ok(Fragment {
        ctrl,
        func,
        iin,
        headers,
        objects,
        raw: data.to_vec(),
    })
}

// ---------------------------------------------------------------------------------------------
// measurement object interpretation (only what the oracles need)

#[derive(Clone, Copy, Debug, PartialEq, Eq, Hash, PartialOrd, Ord, Serialize, Deserialize)]
pub enum PointType {
    Binary,
    DoubleBit,
    BinaryOutputStatus,
    Counter,
    FrozenCounter,
    Analog,
    AnalogOutputStatus,
    OctetString,
}

pub const ALL_TYPES: [PointType; 8] = [
    PointType::Binary,
    PointType::DoubleBit,
    PointType::BinaryOutputStatus,
    PointType::Counter,
    PointType::FrozenCounter,
    PointType::Analog,
    PointType::AnalogOutputStatus,
    PointType::OctetString,
];

#[derive(Clone, Copy, Debug, PartialEq)]
pub enum TimeField {
    None,
    Abs48,
    Rel16,
}

#[derive(Clone, Copy, Debug, PartialEq)]
pub enum ValField {
    /// value lives in the flag octet (binary bit 7 / double-bit bits 6-7)
    InFlags,
    /// packed single bit / two bits, no flags
    Packed,
    U32,
    U16,
    I32,
    I16,
    F32,
    F64,
    Bytes,
}

#[derive(Clone, Copy, Debug, PartialEq)]
pub struct Layout {
    pub ptype: PointType,
    pub is_event: bool,
    pub flags: bool,
    pub val: ValField,
    pub time: TimeField,
}

pub fn layout(group: u8, var: u8) -> Option<Layout> {
    use PointType::*;
    use TimeField as T;
    use ValField as V;
    let l = |ptype, is_event, flags, val, time| {
        Some(Layout {
            ptype,
            is_event,
            flags,
            val,
            time,
        })
    };
    match (group, var) {
        (1, 1) => l(Binary, false, false, V::Packed, T::None),
        (1, 2) => l(Binary, false, true, V::InFlags, T::None),
        (2, 1) => l(Binary, true, true, V::InFlags, T::None),
        (2, 2) => l(Binary, true, true, V::InFlags, T::Abs48),
        (2, 3) => l(Binary, true, true, V::InFlags, T::Rel16),
        (3, 1) => l(DoubleBit, false, false, V::Packed, T::None),
        (3, 2) => l(DoubleBit, false, true, V::InFlags, T::None),
        (4, 1) => l(DoubleBit, true, true, V::InFlags, T::None),
        (4, 2) => l(DoubleBit, true, true, V::InFlags, T::Abs48),
        (4, 3) => l(DoubleBit, true, true, V::InFlags, T::Rel16),
        (10, 1) => l(BinaryOutputStatus, false, false, V::Packed, T::None),
        (10, 2) => l(BinaryOutputStatus, false, true, V::InFlags, T::None),
        (11, 1) => l(BinaryOutputStatus, true, true, V::InFlags, T::None),
        (11, 2) => l(BinaryOutputStatus, true, true, V::InFlags, T::Abs48),
        (20, 1) => l(Counter, false, true, V::U32, T::None),
        (20, 2) => l(Counter, false, true, V::U16, T::None),
        (20, 5) => l(Counter, false, false, V::U32, T::None),
        (20, 6) => l(Counter, false, false, V::U16, T::None),
        (21, 1) => l(FrozenCounter, false, true, V::U32, T::None),
        (21, 2) => l(FrozenCounter, false, true, V::U16, T::None),
        (21, 5) => l(FrozenCounter, false, true, V::U32, T::Abs48),
        (21, 6) => l(FrozenCounter, false, true, V::U16, T::Abs48),
        (21, 9) => l(FrozenCounter, false, false, V::U32, T::None),
        (21, 10) => l(FrozenCounter, false, false, V::U16, T::None),
        (22, 1) => l(Counter, true, true, V::U32, T::None),
        (22, 2) => l(Counter, true, true, V::U16, T::None),
        (22, 5) => l(Counter, true, true, V::U32, T::Abs48),
        (22, 6) => l(Counter, true, true, V::U16, T::Abs48),
        (23, 1) => l(FrozenCounter, true, true, V::U32, T::None),
        (23, 2) => l(FrozenCounter, true, true, V::U16, T::None),
        (23, 5) => l(FrozenCounter, true, true, V::U32, T::Abs48),
        (23, 6) => l(FrozenCounter, true, true, V::U16, T::Abs48),
        (30, 1) => l(Analog, false, true, V::I32, T::None),
        (30, 2) => l(Analog, false, true, V::I16, T::None),
        (30, 3) => l(Analog, false, false, V::I32, T::None),
        (30, 4) => l(Analog, false, false, V::I16, T::None),
        (30, 5) => l(Analog, false, true, V::F32, T::None),
        (30, 6) => l(Analog, false, true, V::F64, T::None),
        (32, 1) => l(Analog, true, true, V::I32, T::None),
        (32, 2) => l(Analog, true, true, V::I16, T::None),
        (32, 3) => l(Analog, true, true, V::I32, T::Abs48),
        (32, 4) => l(Analog, true, true, V::I16, T::Abs48),
        (32, 5) => l(Analog, true, true, V::F32, T::None),
        (32, 6) => l(Analog, true, true, V::F64, T::None),
        (32, 7) => l(Analog, true, true, V::F32, T::Abs48),
        (32, 8) => l(Analog, true, true, V::F64, T::Abs48),
        // analog input dead-bands: reported as static objects of the analog input they belong to
        (34, 1) => l(Analog, false, false, V::U16, T::None),
        (34, 2) => l(Analog, false, false, V::U32, T::None),
        (34, 3) => l(Analog, false, false, V::F32, T::None),
        (40, 1) => l(AnalogOutputStatus, false, true, V::I32, T::None),
        (40, 2) => l(AnalogOutputStatus, false, true, V::I16, T::None),
        (40, 3) => l(AnalogOutputStatus, false, true, V::F32, T::None),
        (40, 4) => l(AnalogOutputStatus, false, true, V::F64, T::None),
        (42, 1) => l(AnalogOutputStatus, true, true, V::I32, T::None),
        (42, 2) => l(AnalogOutputStatus, true, true, V::I16, T::None),
        (42, 3) => l(AnalogOutputStatus, true, true, V::I32, T::Abs48),
        (42, 4) => l(AnalogOutputStatus, true, true, V::I16, T::Abs48),
        (42, 5) => l(AnalogOutputStatus, true, true, V::F32, T::None),
        (42, 6) => l(AnalogOutputStatus, true, true, V::F64, T::None),
        (42, 7) => l(AnalogOutputStatus, true, true, V::F32, T::Abs48),
        (42, 8) => l(AnalogOutputStatus, true, true, V::F64, T::Abs48),
        (110, _) => l(OctetString, false, false, V::Bytes, T::None),
        (111, _) => l(OctetString, true, false, V::Bytes, T::None),
        _ => None,
    }
}

/// a decoded measurement object
#[derive(Clone, Debug, PartialEq)]
pub struct Meas {
    pub ptype: PointType,
    pub is_event: bool,
    pub index: u32,
    /// flag octet if the variation carries one
    pub flags: Option<u8>,
    /// numeric value (binary: 0/1, double-bit: 0..3, counters, analogs as f64); None for octet strings
    pub value: Option<f64>,
    pub bytes: Option<Vec<u8>>,
    /// absolute time in ms if the variation carries one (relative times resolved against `cto`)
    pub time: Option<u64>,
    pub group: u8,
    pub var: u8,
}

pub fn interpret(obj: &Obj, cto: Option<u64>) -> Option<Meas> {
    let lay = layout(obj.group, obj.var)?;
    let index = obj.index?;
    let raw = &obj.raw;
    let mut pos = 0usize;
    let mut flags = None;
    if lay.flags {
        flags = Some(*raw.get(pos)?);
        pos += 1;
    }
    let mut bytes = None;
    let value: Option<f64> = match lay.val {
        ValField::InFlags => {
            let f = flags?;
            Some(match lay.ptype {
                PointType::DoubleBit => ((f >> 6) & 0x03) as f64,
                _ => ((f >> 7) & 0x01) as f64,
            })
        }
        ValField::Packed => Some(raw[0] as f64),
        ValField::U32 => {
            let v = u32::from_le_bytes(raw.get(pos..pos + 4)?.try_into().ok()?);
            pos += 4;
            Some(v as f64)
        }
        ValField::U16 => {
            let v = u16::from_le_bytes(raw.get(pos..pos + 2)?.try_into().ok()?);
            pos += 2;
            Some(v as f64)
        }
        ValField::I32 => {
            let v = i32::from_le_bytes(raw.get(pos..pos + 4)?.try_into().ok()?);
            pos += 4;
            Some(v as f64)
        }
        ValField::I16 => {
            let v = i16::from_le_bytes(raw.get(pos..pos + 2)?.try_into().ok()?);
            pos += 2;
            Some(v as f64)
        }
        ValField::F32 => {
            let v = f32::from_le_bytes(raw.get(pos..pos + 4)?.try_into().ok()?);
            pos += 4;
            Some(v as f64)
        }
        ValField::F64 => {
            let v = f64::from_le_bytes(raw.get(pos..pos + 8)?.try_into().ok()?);
            pos += 8;
            Some(v)
        }
        ValField::Bytes => {
            bytes = Some(raw.clone());
            None
        }
    };
    let time = match lay.time {
        TimeField::None => None,
        TimeField::Abs48 => {
            let b = raw.get(pos..pos + 6)?;
            let mut v = 0u64;
            for (i, x) in b.iter().enumerate() {
                v |= (*x as u64) << (8 * i);
            }
            Some(v)
        }
        TimeField::Rel16 => {
            let rel = u16::from_le_bytes(raw.get(pos..pos + 2)?.try_into().ok()?);
            Some(cto? + rel as u64)
        }
    };
    Some(Meas {
        ptype: lay.ptype,
        is_event: lay.is_event,
        index,
        flags,
        value,
        bytes,
        time,
        group: obj.group,
        var: obj.var,
    })
}

/// interpret all measurement objects of a fragment in wire order, tracking g51 common-time objects
pub fn measurements(frag: &Fragment) -> Vec<Meas> {
    let mut cto: Option<u64> = None;
    let mut out = Vec::new();
    for o in &frag.objects {
        if o.group == 51 && (o.var == 1 || o.var == 2) && o.raw.len() == 6 {
            let mut v = 0u64;
            for (i, x) in o.raw.iter().enumerate() {
                v |= (*x as u64) << (8 * i);
            }
            cto = Some(v);
            continue;
        }
        if let Some(m) = interpret(o, cto) {
            out.push(m);
        }
    }
    out
}

pub fn u48(v: u64) -> [u8; 6] {
    let b = v.to_le_bytes();
    [b[0], b[1], b[2], b[3], b[4], b[5]]
}

/// g12v1 CROB object octets
pub fn crob(code: u8, count: u8, on_ms: u32, off_ms: u32, status: u8) -> Vec<u8> {
    let mut v = vec![code, count];
    v.extend_from_slice(&on_ms.to_le_bytes());
    v.extend_from_slice(&off_ms.to_le_bytes());
    v.push(status);
    v
}
