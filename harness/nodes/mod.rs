pub mod outstation;
pub mod peer;
pub mod net;
pub mod master;
