#!/usr/bin/env python3
import json, sys
d=json.load(open(sys.argv[1]))
c=d['case']
print("SIGNATURE:", d['signature']); print("DETAIL:", d['violation']['detail'][:600])
if 'cfg' in c:
    print("CFG:", {k:v for k,v in c['cfg'].items() if k!='points'})
    for p in c['cfg'].get('points',[]): print("  point", p)
if 'script' in c:
    for i,o in enumerate(c['script']): print(i+1, json.dumps(o)[:260])
n=int(sys.argv[2]) if len(sys.argv)>2 else 60
for l in d['log_tail'][-n:]: print(l[:260])
