//! C05 - a retransmitted request is answered from memory and never executed twice (engine S-OUT).

use crate::verif::nodes::outstation::{Cb, CtrlAnswers};
use crate::verif::props::c04::gen_controls;
use crate::verif::props::gen_out::*;
use crate::verif::refcodec::app::{self as refapp, Range, ReqHeader};
use crate::verif::rng::{mix, Rng};
use crate::verif::runner::{erase, Codec, Outcome, Property, Scenario, Tier, Violation};
use crate::verif::sout::{
    self, ConfSel, Dest, Op, Oracle, SeqSel, SoutCase, Step, TimeBase, Who, World,
};
use std::collections::BTreeMap;

pub struct RepeatScenario;

pub fn property<C: Codec>() -> Property {
    Property {
        id: "C05",
        scenarios: vec![erase::<C, _>(RepeatScenario)],
    }
}

/// a request of a random function the outstation executes
pub fn gen_executed_request(
    rng: &mut Rng,
    points: &[crate::verif::nodes::outstation::PointCfg],
    to: Dest,
) -> Op {
    let (func, headers): (u8, Vec<ReqHeader>) = match rng.below(17) {
        16 => {
            // device attributes: WRITE of a writable / read-only / undefined attribute, READ of one, of all, of the list
            let write = rng.bool();
            let (set, var, value): (u8, u8, Vec<u8>) = match rng.below(6) {
                0 => (0, 245, vec![1, 4, b'h', b'e', b'r', b'e']),
                1 => (1, 1, vec![2, 4, 9, 0, 0, 0]),
                2 => (1, 3, vec![4, 4, 0, 0, 0x40, 0x40]),
                3 => (1, 5, vec![6, 1, 0x5A]),
                4 => (0, 250, vec![1, 1, b'x']), // read-only
                _ => (2, 9, vec![2, 1, 1]),       // undefined
            };
            if write {
                (
                    refapp::FUNC_WRITE,
                    vec![ReqHeader {
                        group: 0,
                        var,
                        range: Range::Range8(set, set),
                        data: value,
                    }],
                )
            } else {
                (
                    refapp::FUNC_READ,
                    vec![ReqHeader {
                        group: 0,
                        var: *rng.pick(&[var, 254, 255]),
                        range: if rng.bool() { Range::Range8(set, set) } else { Range::All },
                        data: vec![],
                    }],
                )
            }
        }
        0 => (
            refapp::FUNC_WRITE,
            vec![ReqHeader {
                group: 80,
                var: 1,
                range: Range::Range8(7, 7),
                data: vec![0],
            }],
        ),
        1 => (
            refapp::FUNC_WRITE,
            vec![ReqHeader {
                // absolute time (g50v1) or, after RECORD_CURRENT_TIME, the LAN procedure's g50v3
                group: 50,
                var: if rng.chance(1, 4) { 3 } else { 1 },
                range: if rng.chance(1, 4) {
                    Range::Count16(1)
                } else {
                    Range::Count8(1)
                },
                data: refapp::u48(1_700_000_000_000 + rng.below(1000)).to_vec(),
            }],
        ),
        2 => (refapp::FUNC_WRITE, {
            // analog dead-bands: g34v1 (u16) / v2 (u32) / v3 (f32), one- or two-octet count and index, 1..3 objects
            let var = rng.range(1, 3) as u8;
            let wide = rng.chance(1, 3);
            let n = rng.urange(1, 3);
            let mut data = Vec::new();
            for _ in 0..n {
                let index = rng.below(4) as u16;
                if wide {
                    data.extend_from_slice(&index.to_le_bytes());
                } else {
                    data.push(index as u8);
                }
                let v = rng.below(50) as u32;
                match var {
                    1 => data.extend_from_slice(&(v as u16).to_le_bytes()),
                    2 => data.extend_from_slice(&v.to_le_bytes()),
                    _ => data.extend_from_slice(&(v as f32).to_le_bytes()),
                }
            }
            vec![ReqHeader {
                group: 34,
                var,
                range: if wide {
                    Range::Prefix16(n as u16)
                } else {
                    Range::Prefix8(n as u8)
                },
                data,
            }]
        }),
        3 => (refapp::FUNC_SELECT, gen_controls(rng)),
        4 => (refapp::FUNC_OPERATE, gen_controls(rng)),
        5 | 6 => (refapp::FUNC_DIRECT_OPERATE, gen_controls(rng)),
        7 => (refapp::FUNC_DIRECT_OPERATE_NR, gen_controls(rng)),
        8 => (
            *rng.pick(&[
                refapp::FUNC_IMMED_FREEZE,
                refapp::FUNC_IMMED_FREEZE_NR,
                refapp::FUNC_FREEZE_CLEAR,
                refapp::FUNC_FREEZE_CLEAR_NR,
            ]),
            vec![match rng.below(4) {
                0 => ReqHeader {
                    group: 20,
                    var: 0,
                    range: Range::Range8(rng.below(3) as u8, 2 + rng.below(3) as u8),
                    data: vec![],
                },
                1 => ReqHeader {
                    group: 20,
                    var: 0,
                    range: Range::Range16(rng.below(3) as u16, 2 + rng.below(300) as u16),
                    data: vec![],
                },
                _ => ReqHeader::all(20, 0),
            }],
        ),
        9 => (
            *rng.pick(&[refapp::FUNC_FREEZE_AT_TIME, refapp::FUNC_FREEZE_AT_TIME_NR]),
            vec![
                ReqHeader {
                    group: 50,
                    var: 2,
                    range: Range::Count8(1),
                    data: {
                        let mut d = refapp::u48(1_700_000_000_000).to_vec();
                        d.extend_from_slice(&60_000u32.to_le_bytes());
                        d
                    },
                },
                ReqHeader::all(20, 0),
            ],
        ),
        10 => (
            *rng.pick(&[refapp::FUNC_COLD_RESTART, refapp::FUNC_WARM_RESTART]),
            vec![],
        ),
        11 => {
            let enable = rng.bool();
            match unsol_op(rng, enable) {
                Op::Request { func, headers, .. } => (func, headers),
                _ => unreachable!(),
            }
        }
        12 => (refapp::FUNC_DELAY_MEASURE, vec![]),
        13 => (refapp::FUNC_RECORD_CURRENT_TIME, vec![]),
        _ => (refapp::FUNC_READ, {
            let mut h = gen_event_read(rng, points);
            if rng.bool() {
                h.push(class_header(0, None));
            }
            h
        }),
    };
    Op::Request {
        func,
        seq: SeqSel::Next,
        headers,
        flags: None,
        from: Who::Master,
        to,
    }
}

impl Scenario for RepeatScenario {
    type Case = SoutCase;

    fn name(&self) -> &'static str {
        "repeat"
    }

    fn runs(&self, tier: Tier) -> u64 {
        match tier {
            Tier::Quick => 90_000,
            Tier::Thorough => 2_400_000,
        }
    }

    fn rule(&self) -> String {
        "every function the outstation executes (WRITE restart/time/dead-bands, SELECT, OPERATE, DIRECT_OPERATE(+NR), freezes (+NR), restarts, \
         ENABLE/DISABLE_UNSOLICITED, DELAY_MEASURE, RECORD_CURRENT_TIME, READ) is sent and then re-sent 1..3 times byte-identically (the dup-msg fault) \
         from idle, while fragment 1,2,.. of a multi-fragment response series awaits confirmation (tx buffer 249..400 with 20..120 points), and while an \
         unsolicited response awaits confirmation; between original and duplicate the database and the application IIN may change; withheld confirms \
         provoke unsolicited retries; also broadcast requests re-sent. Oracle: no additional mutating callback, reply byte-identical to the first reply, \
         every re-sent fragment equal to one already transmitted; non-trivial = a duplicate arrived while fragment >= 2 of a series or an unsolicited \
         response awaited confirmation; distinct = hash of (function, state in which the duplicate arrived, verdict)"
            .to_string()
    }

    fn real_components(&self) -> Vec<&'static str> {
        vec![
            "outstation::session::OutstationSession (classify, last_valid_request, echo paths, unsolicited retry)",
            "outstation::database",
            "outstation::control",
            "outstation::task::OutstationTask",
            "tcp::outstation::server_task::ServerTask",
            "transport::real",
            "link::layer/reader/parser",
        ]
    }

    fn stub_components(&self) -> Vec<&'static str> {
        vec![
            "physical layer (SimSocket)",
            "TCP accept loop",
            "OutstationApplication/ControlHandler (recording stubs)",
            "scripted master peer (reference codec)",
        ]
    }

    fn generate(&self, rng: &mut Rng, _tier: Tier) -> SoutCase {
        let mut cfg = gen_event_cfg(rng);
        cfg.event_buffers = [20; 8];
        cfg.sol_tx = rng.urange(249, 400);
        cfg.confirm_timeout_ms = *rng.pick(&[1000u64, 5000]);
        // a database large enough for multi-fragment static responses
        let many = rng.chance(1, 2);
        let nt = rng.urange(1, 3);
        cfg.points = gen_points(rng, nt, 3, false, false);
        if many {
            let n = rng.urange(20, 120) as u16;
            for i in 0..n {
                cfg.points.push(crate::verif::nodes::outstation::PointCfg {
                    ptype: refapp::PointType::Analog,
                    index: 100 + i,
                    class: 2,
                    svar: 5,
                    evar: 1,
                    deadband: 0,
                });
            }
        }
        let mut clock = 2_000_000u64;
        let mut script = Vec::new();
        if cfg.unsolicited && rng.chance(2, 3) {
            script.push(Op::Confirm {
                uns: true,
                seq: ConfSel::Expected,
                from: Who::Master,
            });
            if rng.chance(2, 3) {
                script.push(unsol_op(rng, true));
            }
        }
        let rounds = rng.urange(1, 6);
        for _ in 0..rounds {
            // put the session into some state
            match rng.below(6) {
                0 => {
                    // solicited confirm wait: a READ whose response needs confirmation
                    script.push(Op::Update(gen_update(rng, &cfg.points, &mut clock)));
                    script.push(read_op(vec![
                        class_header(1, None),
                        class_header(2, None),
                        class_header(3, None),
                        class_header(0, None),
                    ]));
                    // advance into the series
                    for _ in 0..rng.below(3) {
                        script.push(Op::Confirm {
                            uns: false,
                            seq: ConfSel::Expected,
                            from: Who::Master,
                        });
                    }
                    // duplicates of the READ while waiting
                    for _ in 0..rng.urange(1, 3) {
                        if rng.chance(1, 3) {
                            script.push(Op::Update(gen_update(rng, &cfg.points, &mut clock)));
                        }
                        script.push(Op::Repeat);
                    }
                    if rng.bool() {
                        script.push(Op::Confirm {
                            uns: false,
                            seq: ConfSel::Expected,
                            from: Who::Master,
                        });
                    }
                    continue;
                }
                1 => {
                    // unsolicited confirm wait
                    let mut u = gen_update(rng, &cfg.points, &mut clock);
                    u.event_mode = 1;
                    script.push(Op::Update(u));
                }
                2 => script.push(Op::SleepRel {
                    base: TimeBase::ConfirmTimeout,
                    delta_ms: *rng.pick(&[-1i64, 1]),
                    since_last_tx: true,
                }),
                _ => {}
            }
            let to = if rng.chance(1, 8) {
                Dest::Bcast(*rng.pick(&[0xFFFFu16, 0xFFFE, 0xFFFD]))
            } else {
                Dest::Own
            };
            if rng.chance(1, 12) {
                // RECORD_CURRENT_TIME has no callback of its own, but executing its duplicate is visible all the same: the time
                // written afterwards is counted from the moment recorded
                script.push(simple_request(refapp::FUNC_RECORD_CURRENT_TIME, vec![]));
                script.push(Op::Sleep(rng.range(1, 900)));
                script.push(Op::Repeat);
                script.push(Op::Sleep(rng.range(1, 900)));
                let base = 1_600_000_000_000u64 + rng.range(0, 1_000_000);
                script.push(simple_request(
                    refapp::FUNC_WRITE,
                    vec![ReqHeader {
                        group: 50,
                        var: 3,
                        range: Range::Count8(1),
                        data: base.to_le_bytes()[..6].to_vec(),
                    }],
                ));
                continue;
            }
            if rng.chance(1, 8) {
                // a SELECT and its matching OPERATE: the OPERATE is executed, and it is its retransmission that follows
                let controls = gen_controls(rng);
                script.push(simple_request(refapp::FUNC_SELECT, controls.clone()));
                script.push(simple_request(refapp::FUNC_OPERATE, controls));
            } else {
                script.push(gen_executed_request(rng, &cfg.points, to));
            }
            let dups = rng.urange(1, 3);
            for _ in 0..dups {
                match rng.below(6) {
                    0 => script.push(Op::Update(gen_update(rng, &cfg.points, &mut clock))),
                    1 => script.push(Op::SetAppIin(rng.below(16) as u8)),
                    2 => script.push(Op::Confirm {
                        uns: rng.bool(),
                        seq: ConfSel::Expected,
                        from: Who::Master,
                    }),
                    3 => script.push(Op::Sleep(rng.range(1, 900))),
                    // something the outstation answers with an error and does not take for a request: what it processed last
                    // is still the request before it
                    4 => script.push(Op::UnknownFunction(*rng.pick(&[0x70u8, 0x22, 0x7F, 0x63]))),
                    _ => {}
                }
                script.push(Op::Repeat);
            }
            if rng.chance(1, 4) {
                script.push(Op::Confirm {
                    uns: true,
                    seq: ConfSel::Expected,
                    from: Who::Master,
                });
            }
            if rng.chance(1, 6) {
                script.push(Op::SleepRel {
                    base: TimeBase::ConfirmTimeout,
                    delta_ms: 1,
                    since_last_tx: true,
                });
            }
        }
        crate::verif::props::gen_out::sprinkle_splits(rng, &mut script);
        SoutCase {
            cfg,
            ctrl: if rng.chance(3, 4) {
                CtrlAnswers::AllSuccess
            } else {
                CtrlAnswers::Random {
                    seed: rng.next_u64(),
                    success_eighths: 5,
                }
            },
            chunk: rng.below(5) as u8,
            chunk_seed: rng.next_u64(),
            script,
        }
    }

    fn shrink(&self, case: &SoutCase) -> Vec<SoutCase> {
        sout::shrink_case(case)
    }

    fn execute(&self, case: &SoutCase, log: bool) -> Outcome {
        sout::execute("C05", case, case.chunk_seed, log, |c| RepeatOracle::new(c))
    }
}

#[derive(Clone, Debug)]
struct LastRequest {
    bytes: Vec<u8>,
    src: u16,
    dest: u16,
    /// solicited reply transmitted in the step of the original (None = not answered)
    reply: Option<Vec<u8>>,
}

pub struct RepeatOracle {
    master: u16,
    own: u16,
    last: Option<LastRequest>,
    /// every fragment transmitted in this session
    transmitted: Vec<Vec<u8>>,
    last_unsol: Option<Vec<u8>>,
    /// a solicited / unsolicited response awaits confirmation (fragment number of the series for solicited)
    sol_pending: Option<u32>,
    unsol_pending: bool,
    series_fragment_no: u32,
    /// when the outstation received the RECORD_CURRENT_TIME that was processed last (retransmissions of it do not count)
    recorded_at: Option<u64>,
    nontrivial: bool,
    fp: u64,
    counters: BTreeMap<String, u64>,
}

impl RepeatOracle {
    pub fn new(case: &SoutCase) -> Self {
        Self {
            master: case.cfg.master_addr,
            own: case.cfg.outstation_addr,
            last: None,
            transmitted: Vec::new(),
            recorded_at: None,
            last_unsol: None,
            sol_pending: None,
            unsol_pending: false,
            series_fragment_no: 0,
            nontrivial: false,
            fp: 0,
            counters: BTreeMap::new(),
        }
    }

    fn bump(&mut self, k: &str) {
        *self.counters.entry(k.to_string()).or_insert(0) += 1;
    }
}

impl Oracle for RepeatOracle {
    fn step(&mut self, _world: &World, step: &Step) -> Option<Violation> {
        if step.connected || step.disconnected {
            self.last = None;
            self.transmitted.clear();
            self.last_unsol = None;
            self.sol_pending = None;
            self.unsol_pending = false;
        }
        // the state in which this step's fragment arrives is the one before the session reacted to it
        let sol_pending_at_arrival = self.sol_pending;
        let unsol_pending_at_arrival = self.unsol_pending;
        // confirm-wait bookkeeping from the library's information callbacks
        for (_, cb) in &step.callbacks {
            if let Cb::Info(s) = cb {
                if s.starts_with("solicited_confirm_timeout")
                    || s.starts_with("solicited_confirm_wait_new_request")
                {
                    self.sol_pending = None;
                } else if s.starts_with("unsolicited_confirmed")
                    || (s.starts_with("unsolicited_confirm_timeout") && s.ends_with("false"))
                {
                    self.unsol_pending = false;
                }
            }
        }

        let mut violation = None;
        let sent = if step.link_up {
            step.sent.clone()
        } else {
            None
        };
        let is_repeat = matches!(step.op, Op::Repeat);
        let is_confirm = sent
            .as_ref()
            .map(|s| s.bytes.len() >= 2 && s.bytes[1] == refapp::FUNC_CONFIRM)
            .unwrap_or(false);
        let addressed = sent
            .as_ref()
            .map(|s| s.dest == self.own || s.dest >= 0xFFFD)
            .unwrap_or(false);

        let sol_replies: Vec<&Vec<u8>> = step
            .received
            .iter()
            .filter(|r| r.bytes.len() >= 2 && r.bytes[1] == refapp::FUNC_RESPONSE)
            .filter(|r| {
                sent.as_ref()
                    .map(|s| !s.bytes.is_empty() && r.bytes[0] & 0x0F == s.bytes[0] & 0x0F)
                    .unwrap_or(false)
            })
            .map(|r| &r.bytes)
            .collect();
        let mutating: Vec<&Cb> = step
            .callbacks
            .iter()
            .map(|c| &c.1)
            .filter(|c| c.is_mutating())
            .collect();

        // executing the duplicate of a RECORD_CURRENT_TIME shows in the time written afterwards, which counts from the recorded moment
        if step.connected || step.disconnected {
            self.recorded_at = None;
        }
        if let (Some(s), true) = (sent.as_ref(), addressed) {
            let plain = s.bytes.len() >= 2 && s.bytes[0] & 0xF0 == 0xC0 && s.src == self.master && s.dest == self.own;
            if plain && s.bytes[1] == refapp::FUNC_RECORD_CURRENT_TIME && s.bytes.len() == 2 {
                if !is_repeat {
                    self.recorded_at = Some(s.t_ms);
                }
            } else if plain && s.bytes[1] == refapp::FUNC_WRITE && s.bytes.len() == 12 && s.bytes[2..6] == [50, 3, 0x07, 1] {
                if let (Some(t0), false) = (self.recorded_at.take(), is_repeat) {
                    let mut v = [0u8; 8];
                    v[..6].copy_from_slice(&s.bytes[6..12]);
                    let expected = u64::from_le_bytes(v) + (s.t_ms - t0);
                    let written: Vec<u64> = step
                        .callbacks
                        .iter()
                        .filter_map(|(_, cb)| if let Cb::WriteAbsTime(x) = cb { Some(*x) } else { None })
                        .collect();
                    if let [got] = written[..] {
                        self.bump("probe.time_written_after_recorded_time_judged");
                        if got > expected + 1 || got + 1 < expected {
                            return Some(Violation::new(
                                "C05/i duplicate-executed-again",
                                "func=24 recorded-time-moved",
                                format!(
                                    "step {}: the time written is {} although the value sent plus the {} ms since RECORD_CURRENT_TIME was first received is {} (a retransmission of RECORD_CURRENT_TIME arrived in between)",
                                    step.op_index, got, s.t_ms - t0, expected
                                ),
                            ));
                        }
                    }
                }
            } else if !(s.bytes.len() >= 2 && s.bytes[1] == refapp::FUNC_CONFIRM) && !(is_repeat && plain) {
                // anything else in between (another request, a broadcast, another master, something malformed) is not modelled
                self.recorded_at = None;
            }
        }

        if let (true, Some(s), Some(last)) =
            (is_repeat && addressed, sent.as_ref(), self.last.clone())
        {
            if s.bytes == last.bytes
                && s.src == last.src
                && s.dest == last.dest
                && s.src == self.master
            {
                // a genuine retransmission of the request processed last
                let func = s.bytes[1];
                let state = if sol_pending_at_arrival.is_some() {
                    1
                } else if unsol_pending_at_arrival {
                    2
                } else {
                    0
                };
                if sol_pending_at_arrival.map(|n| n >= 2).unwrap_or(false) {
                    self.nontrivial = true;
                    self.bump("probe.repeat_in_fragment_2_or_later");
                }
                if unsol_pending_at_arrival {
                    self.nontrivial = true;
                    self.bump("probe.repeat_during_unsolicited_wait");
                }
                let mut verdict = 0u64;
                if func != refapp::FUNC_READ {
                    // (i) never executed twice
                    if !mutating.is_empty() {
                        verdict = 1;
                        violation = Some(Violation::new(
                            "C05/i duplicate-executed-again",
                            format!(
                                "func={} state={} {}",
                                func,
                                ["idle", "sol-confirm-wait", "unsol-confirm-wait"][state],
                                if s.dest >= 0xFFFD {
                                    "broadcast"
                                } else {
                                    "unicast"
                                }
                            ),
                            format!(
                                "step {}: retransmitted function {} caused callbacks {:?}",
                                step.op_index, func, mutating
                            ),
                        ));
                    }
                    // (ii) the reply is the reply first sent
                    if violation.is_none() {
                        match (&last.reply, sol_replies.first()) {
                            (Some(orig), Some(echo)) => {
                                if *echo != orig {
                                    verdict = 2;
                                    let only_iin = orig.len() == echo.len()
                                        && orig.len() >= 4
                                        && orig[..2] == echo[..2]
                                        && orig[4..] == echo[4..];
                                    violation = Some(Violation::new(
                                        "C05/ii echo-differs-from-first-reply",
                                        format!("{} state={}", if only_iin { "echo-differs-only-in-iin" } else { "echo-differs" }, ["idle", "sol-confirm-wait", "unsol-confirm-wait"][state]),
                                        format!(
                                            "step {}: retransmitted function {} was first answered with {} and now with {}",
                                            step.op_index,
                                            func,
                                            crate::verif::io::hex(orig),
                                            crate::verif::io::hex(echo)
                                        ),
                                    ));
                                }
                            }
                            (None, Some(echo)) => {
                                verdict = 3;
                                violation = Some(Violation::new(
                                    "C05/ii duplicate-answered-although-original-was-not",
                                    format!("func={}", func),
                                    format!(
                                        "step {}: retransmission answered with {}",
                                        step.op_index,
                                        crate::verif::io::hex(echo)
                                    ),
                                ));
                            }
                            (Some(_), None) => {
                                // no echo: the property demands the stored reply ("the reply is byte-for-byte the response previously sent")
                                if s.dest == self.own {
                                    verdict = 4;
                                    violation = Some(Violation::new(
                                        "C05/ii duplicate-not-answered",
                                        format!("func={} state={}", func, ["idle", "sol-confirm-wait", "unsol-confirm-wait"][state]),
                                        format!("step {}: retransmitted function {} got no reply although the original was answered", step.op_index, func),
                                    ));
                                }
                            }
                            (None, None) => {}
                        }
                    }
                    // and nothing else is produced in reaction to it: every solicited response transmitted in this step is a copy
                    // of one transmitted before (a second, re-computed response after the echo would be "a mixture of two")
                    if violation.is_none() {
                        for r in step
                            .received
                            .iter()
                            .filter(|r| r.bytes.len() >= 2 && r.bytes[1] == refapp::FUNC_RESPONSE)
                        {
                            if !self.transmitted.contains(&r.bytes) {
                                verdict = 6;
                                violation = Some(Violation::new(
                                    "C05/iii echo-is-not-a-copy",
                                    format!("non-read func={} state={}", func, ["idle", "sol-confirm-wait", "unsol-confirm-wait"][state]),
                                    format!(
                                        "step {}: the retransmitted function {} made the outstation transmit {} which equals no fragment transmitted before",
                                        step.op_index,
                                        func,
                                        crate::verif::io::hex(&r.bytes)
                                    ),
                                ));
                                break;
                            }
                        }
                    }
                } else if state == 1 {
                    // (iii) a READ repeated during a solicited confirm wait: whatever is sent in reaction is a copy (the echo of
                    // fragment n carries the series' sequence number request + n - 1, so every solicited response counts)
                    let all_sol: Vec<&Vec<u8>> = step
                        .received
                        .iter()
                        .filter(|r| r.bytes.len() >= 2 && r.bytes[1] == refapp::FUNC_RESPONSE)
                        .map(|r| &r.bytes)
                        .collect();
                    for r in &all_sol {
                        if !self.transmitted.contains(r) && violation.is_none() {
                            verdict = 5;
                            violation = Some(Violation::new(
                                "C05/iii echo-is-not-a-copy",
                                format!("fragment-no={}", sol_pending_at_arrival.unwrap_or(0).min(3)),
                                format!(
                                    "step {}: READ retransmitted while fragment {} of the series awaits confirmation was answered with {} which equals no fragment transmitted before",
                                    step.op_index,
                                    sol_pending_at_arrival.unwrap_or(0),
                                    crate::verif::io::hex(r)
                                ),
                            ));
                        }
                    }
                }
                self.bump("probe.duplicate_delivered");
                self.fp = mix(&[self.fp, func as u64, state as u64, verdict]);
            }
        } else if let (Some(s), false) = (sent.as_ref(), is_confirm) {
            if matches!(step.op, Op::UnknownFunction(_)) {
                // not a request (answered with an error bit, C12): "the request processed last" stays what it was
                self.bump("probe.unknown_function_between_original_and_duplicate");
            } else if addressed && !is_repeat && s.bytes.len() >= 2 {
                // a new request: becomes "the request processed last"
                self.last = Some(LastRequest {
                    bytes: s.bytes.clone(),
                    src: s.src,
                    dest: s.dest,
                    reply: sol_replies.first().map(|r| (*r).clone()),
                });
                self.fp = mix(&[self.fp, 1000 + s.bytes[1] as u64]);
            } else if addressed && is_repeat {
                // a Repeat that is not a retransmission of the last processed request (e.g. first delivery after a reconnect)
                self.last = Some(LastRequest {
                    bytes: s.bytes.clone(),
                    src: s.src,
                    dest: s.dest,
                    reply: sol_replies.first().map(|r| (*r).clone()),
                });
            }
        }

        // (iii) unsolicited retries re-use the sequence number and must be identical
        for rx in &step.received {
            if rx.bytes.len() >= 2 && rx.bytes[1] == refapp::FUNC_UNSOL_RESPONSE {
                if let Some(prev) = &self.last_unsol {
                    if prev[0] & 0x0F == rx.bytes[0] & 0x0F
                        && *prev != rx.bytes
                        && violation.is_none()
                    {
                        let only_iin = prev.len() == rx.bytes.len()
                            && prev.len() >= 4
                            && prev[..2] == rx.bytes[..2]
                            && prev[4..] == rx.bytes[4..];
                        violation = Some(Violation::new(
                            "C05/iii unsolicited-retry-differs",
                            if only_iin { "differs-only-in-iin" } else { "differs" },
                            format!(
                                "step {}: unsolicited fragment re-uses sequence {} but differs from the previous one: {} vs {}",
                                step.op_index,
                                rx.bytes[0] & 0x0F,
                                crate::verif::io::hex(prev),
                                crate::verif::io::hex(&rx.bytes)
                            ),
                        ));
                    }
                    if prev == &rx.bytes {
                        self.bump("probe.unsolicited_retry_identical");
                    }
                }
                self.last_unsol = Some(rx.bytes.clone());
                self.unsol_pending = true;
            } else if rx.bytes.len() >= 2 && rx.bytes[1] == refapp::FUNC_RESPONSE {
                let con = rx.bytes[0] & 0x20 != 0;
                let fir = rx.bytes[0] & 0x80 != 0;
                if !self.transmitted.contains(&rx.bytes) {
                    if fir {
                        self.series_fragment_no = 1;
                    } else {
                        self.series_fragment_no += 1;
                    }
                }
                // the outstation waits for the confirmation of a READ response; a confirmation asked for by the answer to anything
                // else (after a confirm-mandatory broadcast) is not waited for
                let req_func = match sent.as_ref() {
                    Some(s) if !is_confirm && s.bytes.len() >= 2 => Some(s.bytes[1]),
                    _ => self.last.as_ref().and_then(|l| l.bytes.get(1).copied()),
                };
                self.sol_pending = if con && req_func == Some(refapp::FUNC_READ) {
                    Some(self.series_fragment_no.max(1))
                } else {
                    None
                };
            }
            self.transmitted.push(rx.bytes.clone());
        }
        // a matching confirm ends the waits (the next fragment, if any, was handled above)
        if let (Some(s), true) = (sent.as_ref(), is_confirm) {
            let uns = s.bytes[0] & 0x10 != 0;
            if !uns
                && !step.received.iter().any(|r| {
                    r.bytes.len() >= 2
                        && r.bytes[1] == refapp::FUNC_RESPONSE
                        && r.bytes[0] & 0x20 != 0
                })
            {
                if step.callbacks.iter().any(|(_, c)| matches!(c, Cb::Info(x) if x.starts_with("solicited_confirm_received"))) {
                    self.sol_pending = None;
                }
            }
        }
        violation
    }

    fn nontrivial(&self) -> bool {
        self.nontrivial
    }

    fn fingerprint(&self) -> u64 {
        self.fp
    }

    fn counters(&self) -> Vec<(String, u64)> {
        self.counters.iter().map(|(k, v)| (k.clone(), *v)).collect()
    }
}
