use super::runner::{Codec, Property};

pub mod c06;

pub fn all<C: Codec>() -> Vec<Property> {
    vec![c06::property::<C>()]
}
