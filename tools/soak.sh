#!/bin/bash
# usage: tools/soak.sh <first seed> <last seed> [tier] [props...]
# Runs every check at many seeds with a private copy of the binary and a private output root (/verif/soak, git-ignored), so
# that editing and rebuilding the harness meanwhile does not disturb it and the committed evidence is not overwritten.
# Violations (with replay paths under /verif/soak/replays) are collected in /verif/soak/violations.log.
first=$1; last=$2; tier=${3:-thorough}; shift 3
props=${*:-C01 C02 C03 C04 C05 C06 C07 C08 C11 C12 C13 C14 C15 C16 C17 C18 C19}
cd /verif && ./check build >/dev/null || exit 2
mkdir -p soak/evidence soak/replays
cp sim/target/debug/dnp3sim soak/dnp3sim
cp known_findings.json soak/
for s in $(seq $first $last); do
  for c in $props; do
    out=$(VERIF_ROOT=/verif/soak VERIF_SEED=$s soak/dnp3sim check $c $tier 2>&1)
    line=$(echo "$out" | tail -1)
    echo "$line" >> soak/log
    if ! echo "$line" | grep -q -- "-> OK"; then
      { echo "=== seed $s $c $tier"; echo "$out" | tail -6; } >> soak/violations.log
    fi
  done
done
echo "soak $first..$last $tier done" >> soak/log
