pub mod link;
