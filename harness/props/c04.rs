//! C04 - OPERATE actuates only after its own matching, fresh, directly preceding SELECT (engine S-OUT).

use crate::verif::nodes::outstation::{Cb, CtrlAnswers, OutCfg};
use crate::verif::refcodec::app::{self as refapp, Range, ReqHeader};
use crate::verif::rng::{mix, Rng};
use crate::verif::runner::{erase, Codec, Outcome, Property, Scenario, Tier, Violation};
use crate::verif::sout::{
    self, ConfSel, Dest, Op, Oracle, SeqSel, SoutCase, Step, TimeBase, Who, World,
};
use serde::{Deserialize, Serialize};

pub struct SboScenario;

pub fn property<C: Codec>() -> Property {
    Property {
        id: "C04",
        scenarios: vec![erase::<C, _>(SboScenario)],
    }
}

/// a set of control headers
pub fn gen_controls(rng: &mut Rng) -> Vec<ReqHeader> {
    let nheaders = if rng.chance(3, 4) {
        1
    } else {
        rng.urange(2, 3)
    };
    let mut out = Vec::new();
    for _ in 0..nheaders {
        let (group, var) = *rng.pick(&[(12u8, 1u8), (12, 1), (41, 1), (41, 2), (41, 3), (41, 4)]);
        let count = if rng.chance(2, 3) {
            1
        } else {
            rng.urange(2, 3)
        };
        let wide = rng.chance(1, 3);
        let mut data = Vec::new();
        for _ in 0..count {
            // (with 16-bit prefixes now and then an index that differs from a small one in its high octet only)
            let index = if wide && rng.chance(1, 4) {
                0x100 * rng.range(1, 3) as u16 + rng.below(4) as u16
            } else {
                rng.below(4) as u16
            };
            if wide {
                data.extend_from_slice(&index.to_le_bytes());
            } else {
                data.push(index as u8);
            }
            match (group, var) {
                (12, 1) => data.extend(refapp::crob(
                    *rng.pick(&[0x01u8, 0x03, 0x04, 0x41, 0x81]),
                    1,
                    rng.below(3) as u32 * 100,
                    0,
                    0,
                )),
                (41, 1) => {
                    data.extend_from_slice(&(rng.below(5) as i32 - 2).to_le_bytes());
                    data.push(0);
                }
                (41, 2) => {
                    data.extend_from_slice(&(rng.below(5) as i16 - 2).to_le_bytes());
                    data.push(0);
                }
                (41, 3) => {
                    data.extend_from_slice(&(rng.below(5) as f32 * 0.5).to_le_bytes());
                    data.push(0);
                }
                _ => {
                    data.extend_from_slice(&(rng.below(5) as f64 * 0.25).to_le_bytes());
                    data.push(0);
                }
            }
        }
        out.push(ReqHeader {
            group,
            var,
            range: if wide {
                Range::Prefix16(count as u16)
            } else {
                Range::Prefix8(count as u8)
            },
            data,
        });
    }
    out
}

fn req(func: u8, seq: SeqSel, headers: Vec<ReqHeader>) -> Op {
    Op::Request {
        func,
        seq,
        headers,
        flags: None,
        from: Who::Master,
        to: Dest::Own,
    }
}

fn intervening(rng: &mut Rng, a: &[ReqHeader], b: &[ReqHeader]) -> Vec<Op> {
    match rng.below(19) {
        0 => vec![req(
            refapp::FUNC_READ,
            SeqSel::Next,
            vec![ReqHeader::all(60, 1)],
        )],
        1 => vec![Op::Confirm {
            uns: rng.bool(),
            seq: if rng.bool() {
                ConfSel::Expected
            } else {
                ConfSel::Fixed(rng.below(16) as u8)
            },
            from: Who::Master,
        }],
        2 => vec![Op::Raw {
            bytes: vec![0xC0 | rng.below(16) as u8, 0x03, 0x0C, 0x01, 0x17],
            from: Who::Master,
            to: Dest::Own,
        }],
        3 => vec![Op::Raw {
            bytes: vec![0xC0 | rng.below(16) as u8, 0x70],
            from: Who::Master,
            to: Dest::Own,
        }],
        4 => {
            // a broadcast of any control function (a broadcast SELECT is not a SELECT of this master's session), possibly
            // retransmitted
            let mut v = vec![Op::Request {
                func: *rng.pick(&[
                    refapp::FUNC_DIRECT_OPERATE_NR,
                    refapp::FUNC_DIRECT_OPERATE_NR,
                    refapp::FUNC_SELECT,
                    refapp::FUNC_OPERATE,
                    refapp::FUNC_DIRECT_OPERATE,
                ]),
                seq: if rng.bool() {
                    SeqSel::Fixed(rng.below(16) as u8)
                } else {
                    SeqSel::Same
                },
                headers: if rng.chance(1, 4) { b.to_vec() } else { a.to_vec() },
                flags: None,
                from: Who::Master,
                to: Dest::Bcast(*rng.pick(&[0xFFFFu16, 0xFFFE, 0xFFFD])),
            }];
            for _ in 0..rng.below(3) {
                v.push(Op::Repeat);
            }
            v
        }
        5 => vec![Op::Request {
            func: *rng.pick(&[
                refapp::FUNC_SELECT,
                refapp::FUNC_READ,
                refapp::FUNC_DELAY_MEASURE,
            ]),
            seq: SeqSel::Same,
            headers: if rng.bool() { a.to_vec() } else { vec![] },
            flags: None,
            from: Who::Foreign(7),
            to: Dest::Own,
        }],
        6 => vec![Op::Repeat],
        7 => vec![Op::Repeat, Op::Repeat],
        8 => vec![Op::SleepRel {
            base: TimeBase::SelectTimeout,
            delta_ms: *rng.pick(&[-1i64, 0, 1]),
            since_last_tx: false,
        }],
        9 => vec![Op::Sleep(rng.range(1, 7000))],
        10 => vec![Op::Disconnect { eof: rng.bool() }, Op::Connect],
        11 => vec![Op::Connect],
        12 => vec![Op::Disable, Op::Enable, Op::Connect],
        13 => vec![req(refapp::FUNC_DIRECT_OPERATE, SeqSel::Next, b.to_vec())],
        14 => vec![req(refapp::FUNC_SELECT, SeqSel::Next, b.to_vec())],
        15 => vec![if rng.bool() {
            Op::LinkStatusRequest
        } else {
            Op::SetDecodeLevel(rng.chance(1, 4))
        }],
        _ => {
            // a SELECT that is refused as a whole: the control headers of A or B followed (or preceded) by a header that
            // does not belong in a SELECT - possibly retransmitted
            let mut headers = if rng.chance(2, 3) {
                a.to_vec()
            } else {
                b.to_vec()
            };
            let extra = match rng.below(3) {
                0 => ReqHeader::all(60, 2),
                1 => ReqHeader::all(1, 2),
                _ => ReqHeader {
                    group: 80,
                    var: 1,
                    range: refapp::Range::Range8(7, 7),
                    data: vec![0],
                },
            };
            if rng.chance(3, 4) {
                headers.push(extra);
            } else {
                headers.insert(0, extra);
            }
            let mut v = vec![req(refapp::FUNC_SELECT, SeqSel::Next, headers)];
            for _ in 0..rng.below(3) {
                v.push(Op::Repeat);
            }
            v
        }
    }
}

impl Scenario for SboScenario {
    type Case = SoutCase;

    fn name(&self) -> &'static str {
        "sbo"
    }

    fn runs(&self, tier: Tier) -> u64 {
        match tier {
            Tier::Quick => 90_000,
            Tier::Thorough => 2_400_000,
        }
    }

    fn rule(&self) -> String {
        "histories of up to ~40 application fragments to the real outstation: SELECT/OPERATE pairs over two control sets (g12v1, g41v1-4, 1- and \
         2-byte prefixes, 1..3 headers) with, between the two steps, nothing or one of: READ, CONFIRM, malformed fragment, unknown function, broadcast, \
         foreign-master fragment, exact retransmission(s), time advance to select_timeout-1/0/+1 ms or random, disconnect+reconnect, pre-empting \
         connection, disable/enable, DIRECT_OPERATE, another SELECT, link status request; sequence numbers expected/same/random; control handler \
         answers SUCCESS or a random error per object; non-trivial = an OPERATE arrived while a successful SELECT of the session was outstanding; \
         distinct = hash of the sequence of (fragment kind, oracle verdict class)"
            .to_string()
    }

    fn real_components(&self) -> Vec<&'static str> {
        vec![
            "outstation::session::OutstationSession",
            "outstation::control (select state, control collection)",
            "outstation::task::OutstationTask",
            "tcp::outstation::server_task::ServerTask",
            "transport::real (reader, writer, assembler)",
            "link::layer, link::reader, link::parser",
            "app::parse",
        ]
    }

    fn stub_components(&self) -> Vec<&'static str> {
        vec![
            "physical layer (SimSocket)",
            "TCP accept loop (sessions handed to ServerTask directly)",
            "ControlHandler / OutstationApplication (recording stubs)",
            "scripted master peer (reference codec)",
        ]
    }

    fn generate(&self, rng: &mut Rng, _tier: Tier) -> SoutCase {
        let mut cfg = OutCfg::basic();
        cfg.unsolicited = rng.chance(1, 4);
        cfg.select_timeout_ms = *rng.pick(&[5000u64, 1000, 100, 30_000]);
        cfg.confirm_timeout_ms = *rng.pick(&[5000u64, 2000]);
        cfg.max_controls = if rng.chance(1, 4) {
            Some(rng.range(1, 3) as u16)
        } else {
            None
        };
        cfg.close_mode = rng.bool();
        cfg.decode_all = rng.chance(1, 10);
        cfg.sol_tx = *rng.pick(&[2048usize, 249, 512]);
        let ctrl = if rng.chance(2, 3) {
            CtrlAnswers::AllSuccess
        } else {
            CtrlAnswers::Random {
                seed: rng.next_u64(),
                success_eighths: 6,
            }
        };
        let a = gen_controls(rng);
        let mut b = gen_controls(rng);
        if rng.chance(1, 3) {
            // B differs from A in a single octet
            b = a.clone();
            let h = rng.usize_below(b.len());
            let n = b[h].data.len();
            let at = rng.usize_below(n);
            b[h].data[at] ^= 1 << rng.below(8);
        }
        let mut script = Vec::new();
        if cfg.unsolicited && rng.chance(2, 3) {
            // confirm the null unsolicited response so that the outstation goes to idle
            script.push(Op::Confirm {
                uns: true,
                seq: ConfSel::Expected,
                from: Who::Master,
            });
        }
        let pairs = rng.urange(1, 8);
        for _ in 0..pairs {
            let first = if rng.chance(5, 6) { &a } else { &b };
            let sel_seq = if rng.chance(5, 6) {
                SeqSel::Next
            } else {
                SeqSel::Fixed(rng.below(16) as u8)
            };
            if rng.chance(9, 10) {
                script.push(req(refapp::FUNC_SELECT, sel_seq, first.clone()));
            }
            let n_between = match rng.below(8) {
                0..=3 => 0,
                4..=6 => 1,
                _ => 2,
            };
            for _ in 0..n_between {
                script.extend(intervening(rng, &a, &b));
            }
            let second = if rng.chance(5, 6) {
                first
            } else if rng.bool() {
                &a
            } else {
                &b
            };
            let op_seq = match rng.below(10) {
                0 => SeqSel::Same,
                1 => SeqSel::Fixed(rng.below(16) as u8),
                _ => SeqSel::Next,
            };
            script.push(req(refapp::FUNC_OPERATE, op_seq, second.clone()));
            if rng.chance(1, 5) {
                // a second OPERATE right away (must not actuate again)
                script.push(req(refapp::FUNC_OPERATE, SeqSel::Next, second.clone()));
            }
            if rng.chance(1, 4) {
                script.extend(intervening(rng, &a, &b));
            }
        }
        crate::verif::props::gen_out::sprinkle_splits(rng, &mut script);
        SoutCase {
            cfg,
            ctrl,
            chunk: rng.below(5) as u8,
            chunk_seed: rng.next_u64(),
            script,
        }
    }

    fn shrink(&self, case: &SoutCase) -> Vec<SoutCase> {
        sout::shrink_case(case)
    }

    fn execute(&self, case: &SoutCase, log: bool) -> Outcome {
        let seed = case.chunk_seed;
        sout::execute("C04", case, seed, log, |c| SboOracle::new(c))
    }
}

#[derive(Clone, Debug)]
struct Rx {
    bytes: Vec<u8>,
    src: u16,
    t_ms: u64,
    is_select_from_master: bool,
    /// the SELECT was answered with an all-SUCCESS echo
    succeeded: bool,
    /// what the control handler was asked to select for it: (group, variation, index, contents)
    selected: Vec<(u8, u8, u16, String)>,
}

pub struct SboOracle {
    hist: Vec<Rx>,
    select_timeout: u64,
    rx_size: usize,
    master: u16,
    own: u16,
    self_addr: bool,
    nontrivial: bool,
    fp: u64,
    counters: std::collections::BTreeMap<String, u64>,
}

impl SboOracle {
    pub fn new(case: &SoutCase) -> Self {
        Self {
            hist: Vec::new(),
            select_timeout: case.cfg.select_timeout_ms,
            rx_size: case.cfg.rx,
            master: case.cfg.master_addr,
            own: case.cfg.outstation_addr,
            self_addr: case.cfg.self_address,
            nontrivial: false,
            fp: 0,
            counters: Default::default(),
        }
    }

    fn bump(&mut self, k: &str) {
        *self.counters.entry(k.to_string()).or_insert(0) += 1;
    }
}

/// status octets of the control objects echoed in a response
fn echoed_statuses(frag: &refapp::Fragment) -> Vec<u8> {
    frag.objects
        .iter()
        .filter(|o| o.group == 12 || o.group == 41)
        .filter_map(|o| o.raw.last().copied())
        .collect()
}

fn count_objects(body: &[u8]) -> Option<usize> {
    refapp::decode_objects(body, true)
        .ok()
        .map(|(_, objs)| objs.len())
}

impl SboOracle {
    /// the objects handed to the control handler are the requested ones, in order, with the contents that were selected
    fn operated_objects_differ(
        &mut self,
        step: &Step,
        operated: &[(u8, u8, u16, String)],
        requested: Option<&Vec<(u8, u8, u16)>>,
        sel: Option<&Rx>,
    ) -> Option<Violation> {
        if let Some(req) = requested {
            let got: Vec<(u8, u8, u16)> = operated.iter().map(|o| (o.0, o.1, o.2)).collect();
            self.bump("probe.operated_objects_compared_with_request");
            if &got != req {
                return Some(Violation::new(
                    "C04/operated-objects-differ-from-request",
                    "identity",
                    format!("step {}: the OPERATE names (group, variation, index) {:?} but the handler was asked to operate {:?}", step.op_index, req, got),
                ));
            }
        }
        if let Some(sel) = sel {
            if sel.selected.len() == operated.len() && !operated.is_empty() {
                self.bump("probe.operated_objects_compared_with_selection");
                if sel.selected != operated {
                    return Some(Violation::new(
                        "C04/operated-objects-differ-from-request",
                        "contents",
                        format!("step {}: selected {:?} but operated {:?} although the object octets are identical", step.op_index, sel.selected, operated),
                    ));
                }
            }
        }
        None
    }
}

impl Oracle for SboOracle {
    fn step(&mut self, _world: &World, step: &Step) -> Option<Violation> {
        if step.connected || step.disconnected {
            // a reconnect intervened: nothing selected before it may be operated after it
            self.hist.clear();
            self.fp = mix(&[self.fp, 900 + step.connected as u64]);
        }
        let sent = match &step.sent {
            Some(s) if step.link_up => s.clone(),
            _ => {
                if let Op::Sleep(_) | Op::SleepRel { .. } = step.op {
                    self.fp = mix(&[self.fp, 901]);
                }
                // nothing was delivered in this step: nothing may be actuated in it (a deferred actuation would show up here)
                let n = step
                    .callbacks
                    .iter()
                    .filter(|(_, cb)| matches!(cb, Cb::Operate { op: 0, .. }))
                    .count();
                if n > 0 {
                    return Some(Violation::new(
                        "C04/sbo-actuation-without-operate",
                        "no-fragment-delivered",
                        format!("step {}: {} select-before-operate actuation(s) in a step in which no fragment reached the outstation ({:?})", step.op_index, n, step.op),
                    ));
                }
                return None;
            }
        };
        // is it received by this outstation at all?
        let addressed =
            sent.dest == self.own || (sent.dest == 0xFFFC && self.self_addr) || sent.dest >= 0xFFFD;
        if !addressed || sent.bytes.len() < 2 {
            if addressed {
                // too short to be a fragment, but it is still something that arrived in between
                self.hist.push(Rx {
                    bytes: sent.bytes.clone(),
                    src: sent.src,
                    t_ms: sent.t_ms,
                    is_select_from_master: false,
                    succeeded: false,
                    selected: Vec::new(),
                });
            }
            return None;
        }
        let func = sent.bytes[1];
        let seq = sent.bytes[0] & 0x0F;
        let plain_flags = sent.bytes[0] & 0xF0 == 0xC0;
        let from_master = sent.src == self.master;
        let unicast = sent.dest == self.own || sent.dest == 0xFFFC;
        let sol_response = step
            .received
            .iter()
            .filter_map(|r| r.frag.as_ref())
            .find(|f| f.func == refapp::FUNC_RESPONSE && !f.ctrl.uns && f.ctrl.seq == seq);

        let mut entry = Rx {
            bytes: sent.bytes.clone(),
            src: sent.src,
            t_ms: sent.t_ms,
            is_select_from_master: false,
            succeeded: false,
                    selected: Vec::new(),
        };

        let operate_callbacks: Vec<u8> = step
            .callbacks
            .iter()
            .filter_map(|(_, cb)| match cb {
                Cb::Operate { op: 0, status, .. } => Some(*status),
                _ => None,
            })
            .collect();

        // which objects were operated, with which contents (as the handler saw them)
        let operated: Vec<(u8, u8, u16, String)> = step
            .callbacks
            .iter()
            .filter_map(|(_, cb)| match cb {
                Cb::Operate { op: 0, group, var, index, repr, .. } => Some((*group, *var, *index, repr.clone())),
                _ => None,
            })
            .collect();
        let selected_now: Vec<(u8, u8, u16, String)> = step
            .callbacks
            .iter()
            .filter_map(|(_, cb)| match cb {
                Cb::Select { group, var, index, repr, .. } => Some((*group, *var, *index, repr.clone())),
                _ => None,
            })
            .collect();
        let requested: Option<Vec<(u8, u8, u16)>> = refapp::decode_objects(&sent.bytes[2..], true)
            .ok()
            .map(|(_, objs)| objs.iter().map(|o| (o.group, o.var, o.index.unwrap_or(0) as u16)).collect());

        let mut verdict_class = 0u64;
        let mut violation = None;

        if func == refapp::FUNC_SELECT && from_master && unicast && plain_flags {
            entry.is_select_from_master = true;
            if let Some(resp) = sol_response {
                let st = echoed_statuses(resp);
                let n = count_objects(&sent.bytes[2..]);
                let iin2_err = resp.iin.map(|i| i.1 & 0x07 != 0).unwrap_or(true);
                entry.succeeded = !st.is_empty()
                    && Some(st.len()) == n
                    && st.iter().all(|s| *s == 0)
                    && !iin2_err;
            }
            verdict_class = 10 + entry.succeeded as u64;
            entry.selected = selected_now.clone();
            // a SELECT arms, it never actuates
            if !operate_callbacks.is_empty() {
                violation = Some(Violation::new(
                    "C04/sbo-actuation-without-operate",
                    "func=3 from-master",
                    format!("step {}: the SELECT itself caused {} select-before-operate actuation(s)", step.op_index, operate_callbacks.len()),
                ));
            }
        } else if func == refapp::FUNC_OPERATE {
            // evaluate the property's predicate on our own record of the history
            let n = self.hist.len();
            // collapse exact retransmissions directly before this OPERATE
            let mut j = n as isize - 1;
            let mut retransmissions = false;
            while j > 0
                && self.hist[j as usize].bytes == self.hist[j as usize - 1].bytes
                && self.hist[j as usize].src == self.hist[j as usize - 1].src
            {
                j -= 1;
                retransmissions = true;
            }
            let sel = if j >= 0 {
                Some(self.hist[j as usize].clone())
            } else {
                None
            };
            let mut sel_ok = false;
            let mut elapsed = 0u64;
            if let Some(s) = &sel {
                if s.is_select_from_master && s.succeeded && from_master && unicast && plain_flags {
                    let same_objects = s.bytes[2..] == sent.bytes[2..];
                    let next_seq = (s.bytes[0] & 0x0F).wrapping_add(1) & 0x0F == seq;
                    elapsed = sent.t_ms.saturating_sub(s.t_ms);
                    sel_ok = same_objects && next_seq;
                }
            }
            // an identical fragment was already received in this session: its echo may come from memory (C05)
            // (which earlier request counts as "processed last" depends on states this oracle does not follow - deferred READs,
            // fragments turned down before they were requests - so any identical earlier fragment of the session is accepted
            // as the original; C05 judges the echo itself)
            let is_retransmission = self
                .hist
                .iter()
                .any(|h| h.bytes == sent.bytes && h.src == sent.src);
            let any_select_outstanding = self
                .hist
                .iter()
                .any(|h| h.is_select_from_master && h.succeeded);
            if any_select_outstanding {
                self.nontrivial = true;
            }
            let must_fail = !sel_ok || elapsed > self.select_timeout;
            // the converse clause speaks of a (fresh) SELECT directly followed by its OPERATE: a SELECT that is itself a
            // retransmission of an earlier fragment is answered from memory, and either outcome is accepted then
            let sel_is_fresh = j >= 0
                && !self.hist[..j as usize].iter().any(|h| {
                    h.bytes == self.hist[j as usize].bytes && h.src == self.hist[j as usize].src
                });
            let must_succeed =
                sel_ok && !retransmissions && sel_is_fresh && elapsed < self.select_timeout;
            if sel_ok && elapsed == self.select_timeout {
                self.bump("probe.operate_at_timeout_exact");
            }
            if sel_ok && elapsed + 1 == self.select_timeout {
                self.bump("probe.operate_at_timeout_minus_1");
            }
            if sel_ok && elapsed == self.select_timeout + 1 {
                self.bump("probe.operate_at_timeout_plus_1");
            }
            if retransmissions {
                self.bump("probe.operate_after_retransmitted_select");
            }
            if must_fail {
                verdict_class = 20;
                if any_select_outstanding {
                    self.bump("probe.operate_rejected_with_select_outstanding");
                }
                if !operate_callbacks.is_empty() {
                    let why = if !sel
                        .as_ref()
                        .map(|s| s.is_select_from_master)
                        .unwrap_or(false)
                    {
                        "preceding-fragment-not-select"
                    } else if !sel.as_ref().map(|s| s.succeeded).unwrap_or(false) {
                        "select-did-not-succeed"
                    } else if elapsed > self.select_timeout {
                        "select-timed-out"
                    } else {
                        "objects-or-sequence-differ"
                    };
                    violation = Some(Violation::new(
                        "C04/operate-without-valid-select",
                        why,
                        format!(
                            "step {}: OPERATE seq {} actuated {} object(s) although the predicate is false ({}; elapsed {} ms, timeout {} ms, history length {})",
                            step.op_index,
                            seq,
                            operate_callbacks.len(),
                            why,
                            elapsed,
                            self.select_timeout,
                            n
                        ),
                    ));
                } else if is_retransmission {
                    // an exact retransmission of the previous request is answered from memory (C05):
                    // the echoed statuses are those of the first execution, nothing is actuated again
                    self.bump("probe.operate_retransmitted");
                } else if let Some(resp) = sol_response {
                    let st = echoed_statuses(resp);
                    if st.iter().any(|s| *s == 0) {
                        violation = Some(Violation::new(
                            "C04/rejected-operate-echoes-success",
                            "",
                            format!("step {}: OPERATE that must be rejected was answered with statuses {:?}", step.op_index, st),
                        ));
                    } else if let (true, Some(req)) = (from_master && unicast && plain_flags, requested.as_ref()) {
                        // "every object is answered with a non-success status"
                        self.bump("probe.rejected_operate_echo_counted");
                        if !req.is_empty() && st.len() != req.len() {
                            violation = Some(Violation::new(
                                "C04/rejected-operate-not-every-object-answered",
                                "",
                                format!("step {}: OPERATE of {} objects that must be rejected was answered with {} statuses ({:?})", step.op_index, req.len(), st.len(), st),
                            ));
                        }
                    }
                } else if from_master && unicast && plain_flags && requested.as_ref().map(|r| !r.is_empty()).unwrap_or(false) && sent.bytes.len() <= self.rx_size {
                    violation = Some(Violation::new(
                        "C04/rejected-operate-not-every-object-answered",
                        "no-response",
                        format!("step {}: OPERATE seq {} that must be rejected got no response at all", step.op_index, seq),
                    ));
                }
            } else if must_succeed {
                verdict_class = 21;
                self.bump("probe.operate_accepted");
                let nobj = count_objects(&sent.bytes[2..]).unwrap_or(0);
                if operate_callbacks.len() != nobj {
                    violation = Some(Violation::new(
                        "C04/matching-operate-not-executed-once",
                        if operate_callbacks.len() < nobj { "fewer" } else { "more" },
                        format!(
                            "step {}: SELECT directly followed by its matching OPERATE (elapsed {} ms < {} ms): {} objects but {} operate callbacks",
                            step.op_index,
                            elapsed,
                            self.select_timeout,
                            nobj,
                            operate_callbacks.len()
                        ),
                    ));
                } else if let Some(v) = self.operated_objects_differ(step, &operated, requested.as_ref(), sel.as_ref()) {
                    violation = Some(v);
                } else if let Some(resp) = sol_response {
                    let st = echoed_statuses(resp);
                    if st != operate_callbacks {
                        violation = Some(Violation::new(
                            "C04/operate-echo-status-differs-from-handler",
                            "",
                            format!(
                                "step {}: handler answered {:?}, response echoes {:?}",
                                step.op_index, operate_callbacks, st
                            ),
                        ));
                    }
                } else {
                    violation = Some(Violation::new(
                        "C04/matching-operate-not-answered",
                        "",
                        format!("step {}: matching OPERATE got no response", step.op_index),
                    ));
                }
            } else {
                // either outcome is accepted (the SELECT was itself a copy, or the time-out falls on this very millisecond) -
                // but whichever it is, it is all or nothing: "executed exactly once" or not at all, and what is echoed is
                // what the handler said
                verdict_class = 22;
                let nobj = count_objects(&sent.bytes[2..]).unwrap_or(0);
                if !operate_callbacks.is_empty() && operate_callbacks.len() != nobj {
                    violation = Some(Violation::new(
                        "C04/matching-operate-not-executed-once",
                        if operate_callbacks.len() < nobj { "fewer either-outcome" } else { "more either-outcome" },
                        format!(
                            "step {}: OPERATE of {} objects caused {} operate callbacks",
                            step.op_index,
                            nobj,
                            operate_callbacks.len()
                        ),
                    ));
                } else if let Some(v) = if operated.is_empty() { None } else { self.operated_objects_differ(step, &operated, requested.as_ref(), sel.as_ref()) } {
                    violation = Some(v);
                } else if let (false, Some(resp)) = (operate_callbacks.is_empty(), sol_response) {
                    let st = echoed_statuses(resp);
                    if st != operate_callbacks {
                        violation = Some(Violation::new(
                            "C04/operate-echo-status-differs-from-handler",
                            "either-outcome",
                            format!(
                                "step {}: handler answered {:?}, response echoes {:?}",
                                step.op_index, operate_callbacks, st
                            ),
                        ));
                    }
                }
            }
        } else {
            verdict_class = 30 + (func as u64 % 7);
            // no fragment other than OPERATE may cause a select-before-operate actuation
            if !operate_callbacks.is_empty() {
                violation = Some(Violation::new(
                    "C04/sbo-actuation-without-operate",
                    format!("func={}", func),
                    format!("step {}: a fragment with function {} caused {} select-before-operate actuation(s)", step.op_index, func, operate_callbacks.len()),
                ));
            }
        }
        self.fp = mix(&[
            self.fp,
            func as u64,
            verdict_class,
            from_master as u64,
            unicast as u64,
        ]);
        self.hist.push(entry);
        violation
    }

    fn nontrivial(&self) -> bool {
        self.nontrivial
    }

    fn fingerprint(&self) -> u64 {
        self.fp
    }

    fn counters(&self) -> Vec<(String, u64)> {
        self.counters.iter().map(|(k, v)| (k.clone(), *v)).collect()
    }
}
