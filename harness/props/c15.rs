//! C15 - a master accepts only the answer to its question and confirms what it accepts (engine S-MAST).

use crate::verif::models::mast_hist::{fragment_values, master_time_history, H};
use crate::verif::nodes::master::{AssocCfg, MasterCfg};
use crate::verif::refcodec::app::{self as refapp};
use crate::verif::rng::{mix, Rng};
use crate::verif::runner::{erase, Codec, Outcome, Property, Scenario, Tier, Violation};
use crate::verif::smast::{
    self, EchoMutation, MOp, MastRun, Reply, SeriesDev, SmastCase, UserKind,
};
use std::collections::{BTreeMap, BTreeSet};

pub struct AcceptScenario;

pub fn property<C: Codec>() -> Property {
    Property {
        id: "C15",
        scenarios: vec![erase::<C, _>(AcceptScenario)],
    }
}

pub fn gen_user_request(rng: &mut Rng) -> UserKind {
    match rng.below(10) {
        0..=4 => UserKind::ReadClasses(*rng.pick(&[0x0Fu8, 0x07, 0x08, 0x01])),
        5 | 6 => UserKind::Command {
            sbo: rng.bool(),
            headers: vec![(0..rng.urange(1, 2))
                .map(|i| (rng.below(5) as u8, i as u16, rng.chance(1, 4)))
                .collect()],
        },
        7 => UserKind::TimeSync(rng.range(1, 3) as u8),
        8 => UserKind::Empty(24),
        _ => UserKind::Restart { cold: rng.bool() },
    }
}

pub fn gen_deviation(rng: &mut Rng, other_addr: u16) -> Reply {
    match rng.below(18) {
        0 => Reply::Silent,
        1 => Reply::WrongSeq(rng.range(1, 15) as u8),
        2 | 3 => Reply::StaleThenFaithful(rng.range(1, 15) as u8),
        4 => Reply::WrongSource(other_addr),
        5 => Reply::ForeignThenFaithful(if rng.bool() { other_addr } else { 9999 }),
        6 | 7 => Reply::Flags((rng.below(16) as u8) << 4),
        8 => Reply::Func(*rng.pick(&[130u8, 131, 0, 1, 128])),
        9 => {
            let bit = *rng.pick(&[0x01u8, 0x02, 0x04]);
            if rng.chance(1, 3) {
                Reply::IinCon(0, bit)
            } else {
                Reply::Iin(0, bit)
            }
        }
        10 => Reply::Truncate(rng.urange(1, 12)),
        11 => Reply::Objects(vec![30, 1, 0x00, 5, 3]),
        12 => {
            let n = rng.urange(1, 12);
            Reply::Objects(rng.bytes(n))
        }
        13 => Reply::Dup,
        14 => Reply::UnsolThenFaithful {
            seq: rng.below(16) as u8,
            data: rng.bool(),
            con: rng.chance(3, 4),
        },
        15 => Reply::WithCon,
        16 => Reply::Late(rng.range(1, 7000)),
        _ => Reply::Iin(*rng.pick(&[0x80u8, 0x10, 0x02, 0x0E]), 0x08),
    }
}

impl Scenario for AcceptScenario {
    type Case = SmastCase;

    fn name(&self) -> &'static str {
        "accept"
    }

    fn runs(&self, tier: Tier) -> u64 {
        match tier {
            Tier::Quick => 30_000,
            Tier::Thorough => 800_000,
        }
    }

    fn rule(&self) -> String {
        "the real master (ClientTask + MasterTask) against a scripted outstation: for each kind of outstanding task (user read with 1..3 response fragments, \
         command, time sync step, empty-response request, restart) and for idle, the reply stream mixes the correct response with responses wrong in one \
         respect (sequence, source address, FIR/FIN/CON/UNS, function, truncated or unparsable objects, IIN2 error bits), duplicates, late replies, \
         unsolicited responses (new, exact repeats, with and without data/CON) at every position, and silence; response contents are unique so every value \
         handed to the ReadHandler is attributable; non-trivial = a wrong-in-one-respect fragment arrived while a task was outstanding; distinct = hash of \
         (task kind, deviation kind, verdicts)"
            .to_string()
    }

    fn real_components(&self) -> Vec<&'static str> {
        vec![
            "master::task::MasterTask / MasterSession",
            "master::association (unsolicited handling, sequence numbers)",
            "master::tasks::*",
            "master::extract",
            "tcp::client::ClientTask",
            "transport::real",
            "link::layer/reader/parser",
            "app::parse",
        ]
    }

    fn stub_components(&self) -> Vec<&'static str> {
        vec![
            "TCP sockets (simulated network through hook H3)",
            "scripted outstation (reference codec)",
            "ReadHandler/AssociationHandler/AssociationInformation (recording stubs)",
            "user threads (simulated tasks awaiting the public async API)",
        ]
    }

    fn generate(&self, rng: &mut Rng, _tier: Tier) -> SmastCase {
        let mut cfg = MasterCfg::basic();
        cfg.close_mode = rng.bool();
        cfg.decode_all = rng.chance(1, 12);
        let timeout = *rng.pick(&[1000u64, 2000, 5000]);
        let mut a = AssocCfg::quiet(1024);
        a.response_timeout_ms = timeout;
        cfg.assocs = vec![a];
        if rng.chance(1, 3) {
            let mut b = AssocCfg::quiet(1025);
            b.response_timeout_ms = timeout;
            cfg.assocs.push(b);
        }
        let other = 1025;
        let two = cfg.assocs.len() == 2;
        // in a third of the runs every user read hands over its own handler (read_with_handler)
        let custom_reads = rng.chance(1, 3);
        let mut script = vec![MOp::Enable, MOp::Sleep(1)];
        if rng.chance(1, 5) {
            // start-up gating: the integrity poll is answered late, data arrives unsolicited before it has completed and is
            // retried unchanged afterwards - the retry is the first copy the master accepts
            cfg.assocs[0].startup_integrity = 0x0F;
            let late = rng.range(300, 900);
            script = vec![MOp::Replies { assoc: 0, replies: vec![Reply::Late(late)] }, MOp::Enable, MOp::Sleep(rng.range(1, late.min(200)))];
            script.push(MOp::Unsol { assoc: 0, seq: rng.below(16) as u8, data: true, con: true });
            script.push(MOp::Sleep(late + 200));
            for _ in 0..rng.urange(1, 3) {
                script.push(MOp::UnsolRepeat);
                script.push(MOp::Sleep(rng.range(0, 50)));
            }
        }
        let rounds = rng.urange(1, 6);
        for _ in 0..rounds {
            if rng.chance(1, 3) {
                // mostly short series; sometimes longer than the 4-bit sequence space
                let n = if rng.chance(1, 6) {
                    rng.urange(15, 20)
                } else {
                    rng.urange(1, 3)
                };
                let fragments: Vec<u8> = (0..n)
                    .map(|_| if n > 3 { 1 } else { rng.range(1, 4) as u8 })
                    .collect();
                script.push(MOp::ReadShape {
                    assoc: 0,
                    fragments,
                });
                if n > 1 && rng.chance(1, 2) {
                    let at = match rng.below(4) {
                        0 => 1,
                        1 => n - 1,
                        2 if n > 16 => 16,
                        _ => rng.urange(1, n - 1),
                    };
                    let dev = match rng.below(8) {
                        0..=2 => SeriesDev::Flags((rng.below(16) as u8) << 4),
                        3 => SeriesDev::StaleThenFaithful(rng.range(1, 15) as u8),
                        4 => SeriesDev::Dup,
                        5 => SeriesDev::ForeignThenFaithful(if rng.bool() { other } else { 9999 }),
                        6 => SeriesDev::Truncate(rng.urange(1, 12)),
                        _ => SeriesDev::Skip,
                    };
                    script.push(MOp::SeriesDev { assoc: 0, at, dev });
                }
            }
            // unsolicited traffic while idle (now and then from the other association)
            if rng.chance(1, 4) {
                script.push(MOp::Unsol {
                    assoc: if two && rng.chance(1, 3) { 1 } else { 0 },
                    seq: rng.below(16) as u8,
                    data: rng.bool(),
                    con: rng.chance(3, 4),
                });
                // the outstation retries while its confirmation is lost
                for _ in 0..*rng.pick(&[0usize, 0, 1, 1, 2, 3]) {
                    script.push(MOp::UnsolRepeat);
                }
            }
            let mut replies = Vec::new();
            let ndev = match rng.below(6) {
                0 => 0,
                1..=3 => 1,
                _ => 2,
            };
            for _ in 0..ndev {
                replies.push(gen_deviation(rng, other));
            }
            // (with two associations a quarter of the requests go to the second one, while the first one's traffic goes on)
            let target = if two && rng.chance(1, 4) { 1 } else { 0 };
            if !replies.is_empty() {
                script.push(MOp::Replies { assoc: target, replies });
            }
            script.push(MOp::User {
                assoc: target,
                kind: match gen_user_request(rng) {
                    UserKind::ReadClasses(m) if custom_reads => UserKind::ReadCustom(m),
                    k => k,
                },
            });
            if rng.chance(1, 4) {
                // unsolicited in the middle of the task (of this or of the other association)
                script.push(MOp::Unsol {
                    assoc: if two && rng.chance(1, 2) { 1 } else { 0 },
                    seq: rng.below(16) as u8,
                    data: rng.bool(),
                    con: rng.bool(),
                });
            }
            if rng.chance(1, 6) {
                script.push(MOp::Raw {
                    src: 1024,
                    bytes: vec![0xC0 | rng.below(16) as u8, 129, 0, 0],
                });
            }
            if rng.chance(1, 10) {
                // an unsolicited response from an address the master has no association for
                script.push(MOp::Raw {
                    src: 9999,
                    bytes: vec![0xF0 | rng.below(16) as u8, 130, 0, 0, 30, 1, 0x00, 0, 0, 1, 7, 0, 0, 0],
                });
            }
            script.push(MOp::Sleep(match rng.below(3) {
                0 => timeout + 1,
                1 => rng.range(1, timeout * 2),
                _ => timeout * 3,
            }));
        }
        crate::verif::smast::sprinkle_split_replies(rng, &mut script);
        SmastCase {
            cfg,
            chunk: rng.below(5) as u8,
            chunk_seed: rng.next_u64(),
            latency: if rng.chance(3, 5) {
                (rng.below(50), rng.below(50))
            } else {
                (0, 0)
            },
            script,
            tail_ms: 12_000,
        }
    }

    fn shrink(&self, case: &SmastCase) -> Vec<SmastCase> {
        smast::shrink_case(case)
    }

    fn execute(&self, case: &SmastCase, log: bool) -> Outcome {
        smast::execute("C15", case, log, analyse)
    }
}

#[derive(Clone, Debug)]
struct Tx {
    order: u64,
    t: u64,
    src: u16,
    bytes: Vec<u8>,
    kind: String,
    values: Vec<f64>,
    con: bool,
    uns: bool,
    seq: u8,
    must_accept: bool,
    must_reject: bool,
    delivered: Vec<f64>,
    confirms: u32,
    is_read_response: bool,
    /// held back by the start-up gate: nothing of it may reach the handler
    gated: bool,
    /// the scripted outstation's own labelling of this transmission
    valid: bool,
    answers: Option<u64>,
}

/// Classifies a solicited response against the request the master has outstanding for that outstation at instant `t`.
/// Returns the name of a probe to bump, if any.
fn classify_solicited(
    tx: &mut Tx,
    t: u64,
    outstanding: &mut BTreeMap<u16, Req>,
    alive: bool,
    timeout: u64,
) -> Option<&'static str> {
    let ctrl = refapp::Ctrl::from_u8(tx.bytes[0]);
    let src = tx.src;
    let req = outstanding.get(&src).cloned();
    // Any well-formed response from this outstation that carries exactly the sequence number and FIR the master is
    // waiting for, in time, cannot be told apart from the genuine answer - whatever the scripted outstation meant by it
    // (a stale answer to an earlier request that was held up, a truncation right after the IIN, a raw injection).
    // The master may accept it; from then on the oracle no longer knows the state of this request.
    let indistinguishable = |r: &Req, bytes: &[u8]| {
        !ctrl.uns
            && ctrl.seq == r.next_seq
            && ctrl.fir == r.expect_fir
            // (the flags are part of what makes a fragment look right: a non-final fragment of a READ response asks for
            // confirmation, any other response is a single fragment)
            && if r.func == refapp::FUNC_READ {
                ctrl.fin || ctrl.con
            } else {
                ctrl.fir && ctrl.fin
            }
            && t <= r.deadline
            && (refapp::decode_fragment(bytes).is_ok() || refapp::response_parses_leniently(bytes))
    };
    match req {
        Some(mut r)
            if alive
                && !r.finished
                && (r.uncertain
                    || (!(tx.valid && tx.answers == r.order && r.order.is_some())
                        && indistinguishable(&r, &tx.bytes))) =>
        {
            r.uncertain = true;
            outstanding.insert(src, r);
            Some("probe.indistinguishable_deviation")
        }
        Some(mut r) if alive && tx.valid && tx.answers == r.order && r.order.is_some() && !r.finished => {
            if t < r.deadline && ctrl.seq == r.next_seq && ctrl.fir == r.expect_fir {
                tx.must_accept = true;
                tx.is_read_response = r.func == refapp::FUNC_READ;
                // the series continues with the next sequence number and a fresh timeout
                r.next_seq = (r.next_seq + 1) & 0x0F;
                r.expect_fir = false;
                r.deadline = t + timeout;
                if ctrl.fin {
                    r.finished = true;
                }
                outstanding.insert(src, r);
                None
            } else if t > r.deadline {
                tx.must_reject = true;
                Some("probe.late_response")
            } else if t == r.deadline {
                // arrival exactly at the deadline: either the fragment or the time-out wins, and what follows
                // for this request depends on it
                r.uncertain = true;
                outstanding.insert(src, r);
                Some("probe.arrival_ties_with_deadline")
            } else {
                None
            }
        }
        _ => {
            tx.must_reject = true;
            None
        }
    }
}

#[derive(Clone, Debug)]
struct Req {
    /// order number at which the scripted outstation received the request (known once it got there)
    order: Option<u64>,
    pos: u64,
    func: u8,
    deadline: u64,
    next_seq: u8,
    expect_fir: bool,
    finished: bool,
    /// a fragment the oracle cannot classify (a deviation that happens to be well-formed) may have been accepted for this request
    uncertain: bool,
}

pub fn analyse(
    case: &SmastCase,
    run: &MastRun,
) -> (Option<Violation>, bool, u64, Vec<(String, u64)>) {
    // everything is judged in the order it happened at the master: with latency a fragment sent before a request may arrive after it
    let hist = master_time_history(case, run);
    // instants at which the master started or failed a task for an association on its own initiative (user request, timer):
    // a fragment sent earlier that arrives in that very millisecond may be processed on either side of it
    let mut boundaries: Vec<(u16, u64, u64)> = Vec::new();
    for (order, h) in &hist {
        match h {
            H::TaskStart { t, assoc, .. } | H::TaskFail { t, assoc, .. } => {
                boundaries.push((*assoc, *t, *order))
            }
            H::Request {
                t, dest, worder, ..
            } => boundaries.push((*dest, t.saturating_sub(case.latency.0), *worder)),
            _ => {}
        }
    }
    let mut counters: BTreeMap<String, u64> = BTreeMap::new();
    let mut bump = |k: &str| *counters.entry(k.to_string()).or_insert(0) += 1;
    let assoc_addrs: BTreeSet<u16> = case.cfg.assocs.iter().map(|a| a.address).collect();
    let timeout_of = |addr: u16| {
        case.cfg
            .assocs
            .iter()
            .find(|a| a.address == addr)
            .map(|a| a.response_timeout_ms)
            .unwrap_or(5000)
    };
    let startup_gates = |addr: u16| {
        case.cfg
            .assocs
            .iter()
            .find(|a| a.address == addr)
            .map(|a| a.startup_integrity != 0)
            .unwrap_or(false)
    };

    let mut txs: Vec<Tx> = Vec::new();
    let mut outstanding: BTreeMap<u16, Req> = BTreeMap::new();
    let mut task_alive: BTreeMap<u16, bool> = BTreeMap::new();
    let mut last_unsol: BTreeMap<u16, Vec<u8>> = BTreeMap::new();
    // has the start-up integrity poll of this connection completed (and no restart indication been seen since)?
    let mut integrity_done: BTreeMap<u16, bool> = BTreeMap::new();
    // unsolicited transmissions not yet taken by the master's application layer: indices into `txs` per source
    let mut pending_unsol: BTreeMap<u16, Vec<usize>> = BTreeMap::new();
    // solicited responses that arrived in the millisecond of a task boundary, waiting for their processing point
    let mut pending_sol: BTreeMap<u16, Vec<usize>> = BTreeMap::new();
    let mut tie: BTreeMap<u16, u64> = BTreeMap::new();
    let mut nontrivial = false;
    let mut fp = 0u64;
    let mut violation: Option<Violation> = None;
    // which Tx the handler is currently delivering (by values)
    let mut value_owner: BTreeMap<u64, Vec<usize>> = BTreeMap::new();

    for (pos, (order, h)) in hist.iter().enumerate() {
        let pos = pos as u64;
        if violation.is_some() {
            break;
        }
        match h {
            // (the master's own view of the connection: its first task may start before the outstation has noticed the connection)
            H::Client { .. } => {
                outstanding.clear();
                task_alive.clear();
                last_unsol.clear();
                integrity_done.clear();
                pending_unsol.clear();
            }
            H::TaskStart {
                t,
                assoc,
                func,
                seq,
                ..
            } => {
                task_alive.insert(*assoc, true);
                // the first request of the task is written right here
                outstanding.insert(
                    *assoc,
                    Req {
                        order: None,
                        pos,
                        func: *func,
                        deadline: *t + timeout_of(*assoc),
                        next_seq: *seq,
                        expect_fir: true,
                        finished: false,
                        uncertain: tie.get(assoc) == Some(t),
                    },
                );
            }
            H::TaskSuccess {
                assoc, task, seq, ..
            } => {
                task_alive.insert(*assoc, false);
                if task == "StartupIntegrity" {
                    integrity_done.insert(*assoc, true);
                }
                // success only via an acceptable stream: the last accepted fragment for the outstanding request must be valid and final
                if let Some(req) = outstanding.get(assoc).filter(|r| !r.uncertain) {
                    // requests that expect an empty response: the library deliberately ignores unexpected objects in the reply,
                    // so object-level deviations are not held against it there
                    let objects_matter = matches!(req.func, 1 | 3 | 4 | 5 | 13 | 14 | 23);
                    let ok = txs.iter().any(|t| {
                        !t.uns
                            && t.src == *assoc
                            && t.order > req.pos
                            && t.bytes[0] & 0x40 != 0
                            && (!t.must_reject
                                || (!objects_matter
                                    && (t.kind == "objects-replaced" || t.kind == "truncated")
                                    && t.bytes.len() >= 4))
                    });
                    if !ok {
                        violation = Some(Violation::new(
                            "C15/task-succeeded-without-acceptable-response",
                            task.clone(),
                            format!("task {} (seq {}) for {} reported success but no acceptable final response was transmitted for its request", task, seq, assoc),
                        ));
                    }
                }
                outstanding.remove(assoc);
            }
            H::TaskFail { assoc, .. } => {
                task_alive.insert(*assoc, false);
                outstanding.remove(assoc);
            }
            H::Request {
                t, dest, seq, func, ..
            } => {
                // the master wrote this request `latency.0` ms before the outstation saw it
                let written = t.saturating_sub(case.latency.0);
                if let Some(r) = outstanding.get_mut(dest) {
                    if r.order.is_none() && r.func == *func && r.next_seq == *seq && r.expect_fir {
                        r.order = Some(*order);
                        fp = mix(&[fp, 1, *func as u64]);
                        continue;
                    }
                }
                // a later step of a multi-request task (SELECT then OPERATE, time synchronisation): the task moved on from its
                // previous request, which is a completion of that request - only an acceptable stream may bring it about
                if let Some(prev) = outstanding.get(dest).filter(|r| !r.uncertain && r.order.is_some()) {
                    if task_alive.get(dest).copied().unwrap_or(false) {
                        let objects_matter = matches!(prev.func, 1 | 3 | 4 | 5 | 13 | 14 | 23);
                        let ok = txs.iter().any(|x| {
                            !x.uns
                                && x.src == *dest
                                && x.order > prev.pos
                                && x.t <= written
                                && x.bytes[0] & 0x40 != 0
                                && (!x.must_reject
                                    || (!objects_matter
                                        && (x.kind == "objects-replaced" || x.kind == "truncated")
                                        && x.bytes.len() >= 4))
                        });
                        bump("probe.step_of_multi_request_task_judged");
                        if !ok {
                            violation = Some(Violation::new(
                                "C15/task-advanced-without-acceptable-response",
                                format!("func={}", prev.func),
                                format!(
                                    "the task for {} wrote its next request (function {}, seq {}) at {} ms although no acceptable final response to its previous request (function {}) had arrived",
                                    dest, func, seq, written, prev.func
                                ),
                            ));
                        }
                    }
                }
                outstanding.insert(
                    *dest,
                    Req {
                        order: Some(*order),
                        pos,
                        func: *func,
                        deadline: written + timeout_of(*dest),
                        next_seq: *seq,
                        expect_fir: true,
                        finished: false,
                        uncertain: tie.get(dest) == Some(&written),
                    },
                );
                fp = mix(&[fp, 1, *func as u64]);
            }
            H::PeerTx {
                t,
                src,
                bytes,
                kind,
                valid,
                answers,
                ..
            } => {
                if bytes.len() < 2 {
                    continue;
                }
                let func = bytes[1];
                let ctrl = refapp::Ctrl::from_u8(bytes[0]);
                let values = fragment_values(bytes).unwrap_or_default();
                let mut tx = Tx {
                    order: pos,
                    t: *t,
                    src: *src,
                    bytes: bytes.clone(),
                    kind: kind.clone(),
                    values,
                    con: ctrl.con,
                    uns: func == refapp::FUNC_UNSOL_RESPONSE,
                    seq: ctrl.seq,
                    must_accept: false,
                    must_reject: false,
                    delivered: Vec::new(),
                    confirms: 0,
                    is_read_response: false,
                    gated: false,
                    valid: *valid,
                    answers: *answers,
                };
                let mut deferred = false;
                if func == refapp::FUNC_UNSOL_RESPONSE
                    && ctrl.uns
                    && ctrl.fir
                    && ctrl.fin
                    && refapp::decode_fragment(bytes).is_ok()
                {
                    // an unsolicited response
                    if !assoc_addrs.contains(src) {
                        tx.must_reject = true;
                    } else {
                        // judged when the master's application layer actually takes it (hook H5): fragments arriving in one
                        // millisecond are processed one by one, and whether the integrity poll has completed by then matters
                        pending_unsol.entry(*src).or_default().push(txs.len());
                    }
                } else if func == refapp::FUNC_RESPONSE
                    && boundaries
                        .iter()
                        .any(|(a, bt, bo)| a == src && bt == t && order < bo)
                {
                    // in the millisecond of a task boundary: judged when the master's application layer actually takes the fragment
                    // (hook H5), which says on which side of the boundary that was; if it never does, nothing depended on it
                    pending_sol.entry(*src).or_default().push(txs.len());
                    deferred = true;
                    bump("probe.arrival_ties_with_task_boundary");
                } else if func == refapp::FUNC_RESPONSE {
                    let alive = task_alive.get(src).copied().unwrap_or(false);
                    if let Some(p) = classify_solicited(&mut tx, *t, &mut outstanding, alive, timeout_of(*src)) {
                        bump(p);
                    }
                    if tx.must_reject && task_alive.values().any(|a| *a) {
                        nontrivial = true;
                    }
                } else {
                    // not a response function at all
                    tx.must_reject = true;
                    if task_alive.values().any(|a| *a) {
                        nontrivial = true;
                    }
                }
                if !*valid && task_alive.values().any(|a| *a) {
                    nontrivial = true;
                }
                let idx = txs.len();
                for v in &tx.values {
                    // deviating copies of a response carry the same values as the correct one
                    value_owner.entry(v.to_bits()).or_default().push(idx);
                }
                fp = mix(&[
                    fp,
                    2,
                    tx.must_accept as u64,
                    tx.must_reject as u64,
                    (kind.len() as u64) % 17,
                    tx.uns as u64,
                ]);
                if deferred {
                    // counted at the processing point
                } else if tx.must_accept {
                    bump("probe.fragment_judged_must_accept");
                } else if tx.must_reject {
                    bump("probe.fragment_judged_must_reject");
                } else if !tx.uns {
                    bump("probe.fragment_not_judged");
                }
                txs.push(tx);
            }
            H::MasterRx { t: t_rx, src, bytes } => {
                // a restart indication the master may act on closes the start-up gate again (C17); it counts from the moment
                // the fragment carrying it is processed, whether or not the master accepts that fragment (closing it too
                // often only makes unsolicited data don't-care for longer)
                let closes = bytes.len() >= 4 && bytes[1] >= 129 && bytes[2] & 0x80 != 0;
                if closes && bytes[1] != refapp::FUNC_UNSOL_RESPONSE {
                    integrity_done.insert(*src, false);
                }
                if bytes.len() >= 2 && bytes[1] == refapp::FUNC_RESPONSE {
                    // a solicited response that arrived in the millisecond of a task boundary is judged here, where the master
                    // takes it: the history is exact about what the master had done before this point
                    let idx = pending_sol.get_mut(src).and_then(|q| {
                        let k = q.iter().position(|i| txs[*i].bytes == *bytes)?;
                        Some(q.remove(k))
                    });
                    if let Some(i) = idx {
                        let alive = task_alive.get(src).copied().unwrap_or(false);
                        let mut tx = txs[i].clone();
                        if let Some(p) = classify_solicited(&mut tx, *t_rx, &mut outstanding, alive, timeout_of(*src)) {
                            bump(p);
                        }
                        if tx.must_accept {
                            bump("probe.fragment_judged_must_accept");
                            bump("probe.tie_resolved_at_processing_point");
                        } else if tx.must_reject {
                            bump("probe.fragment_judged_must_reject");
                            bump("probe.tie_resolved_at_processing_point");
                        } else {
                            bump("probe.fragment_not_judged");
                        }
                        txs[i] = tx;
                    }
                }
                if bytes.len() >= 4 && bytes[1] == refapp::FUNC_UNSOL_RESPONSE {
                    // the oldest transmission of exactly these octets from that source that has not been judged yet
                    let idx = pending_unsol.get_mut(src).and_then(|q| {
                        let k = q.iter().position(|i| txs[*i].bytes == *bytes)?;
                        Some(q.remove(k))
                    });
                    if let Some(i) = idx {
                        // with start-up gating configured, data before the integrity poll has completed is C17's subject: not
                        // judged here - and not remembered either, a fragment that was held back is no basis for calling its
                        // retry a repeat
                        // (the indications of the fragment itself are processed first)
                        if bytes[2] & 0x80 != 0 {
                            integrity_done.insert(*src, false);
                        }
                        let gated = startup_gates(*src) && bytes.len() > 4 && !integrity_done.get(src).copied().unwrap_or(false);
                        let repeat = !gated && last_unsol.get(src) == Some(bytes);
                        if !gated {
                            last_unsol.insert(*src, bytes.clone());
                        }
                        if gated {
                            txs[i].gated = true;
                            bump("probe.unsolicited_data_while_gated");
                        } else if repeat {
                            // confirmed but not delivered again
                            txs[i].must_accept = true;
                            for v in txs[i].values.clone() {
                                if let Some(owners) = value_owner.get_mut(&v.to_bits()) {
                                    owners.retain(|o| *o != i);
                                }
                            }
                            txs[i].values.clear();
                            bump("probe.unsolicited_repeat");
                        } else {
                            txs[i].must_accept = true;
                        }
                    }
                }
            }
            H::Meas { assoc, m, .. } => match value_owner.get(&m.value.to_bits()).cloned() {
                None => {
                    violation = Some(Violation::new(
                        "C15/handler-received-value-never-transmitted",
                        "",
                        format!("the ReadHandler of {} received {:?}[{}] = {} which no fragment carried", assoc, m.ptype, m.index, m.value),
                    ));
                }
                Some(owners) => {
                    // attribute the value to the first fragment carrying it that may be accepted and has not delivered it yet
                    let pick = owners
                        .iter()
                        .copied()
                        .find(|i| {
                            !txs[*i].must_reject
                                && !txs[*i].gated
                                && txs[*i].src == *assoc
                                && txs[*i].delivered.iter().filter(|v| **v == m.value).count()
                                    < txs[*i].values.iter().filter(|v| **v == m.value).count()
                        })
                        .or_else(|| {
                            owners
                                .iter()
                                .copied()
                                .find(|i| !txs[*i].must_reject && !txs[*i].gated && txs[*i].src == *assoc)
                        })
                        // whether data held back by the start-up gate is delivered is C17's subject (this oracle closes the gate
                        // conservatively): such a fragment may own the value, as a last resort
                        .or_else(|| owners.iter().copied().find(|i| !txs[*i].must_reject && txs[*i].gated && txs[*i].src == *assoc));
                    match pick {
                        Some(i) => txs[i].delivered.push(m.value),
                        None => {
                            let tx = &txs[owners[0]];
                            if tx.src != *assoc && !tx.must_reject {
                                violation = Some(Violation::new(
                                    "C15/value-delivered-to-wrong-association",
                                    "",
                                    format!("a value transmitted by {} reached the handler of association {}", tx.src, assoc),
                                ));
                            } else {
                                violation = Some(Violation::new(
                                    "C15/rejected-fragment-reached-handler",
                                    tx.kind.clone(),
                                    format!(
                                        "a value carried only by fragment(s) that must not be accepted ('{}': {}) reached the ReadHandler of {}",
                                        tx.kind,
                                        crate::verif::io::hex(&tx.bytes[..tx.bytes.len().min(24)]),
                                        assoc
                                    ),
                                ));
                            }
                        }
                    }
                }
            },
            H::Confirm { dest, seq, uns, .. } => {
                // must be justified by an accepted fragment of that outstation asking for confirmation
                // (several fragments in flight may carry the same sequence number: the confirmation belongs to one the master
                // must accept, the oldest first, before it is credited to one it merely may accept)
                let matches = |t: &Tx| {
                    t.src == *dest
                        && t.con
                        && t.uns == *uns
                        && t.seq == *seq
                        && t.order < pos
                        && t.confirms == 0
                        && !t.must_reject
                };
                let idx = txs
                    .iter()
                    .position(|t| matches(t) && t.must_accept)
                    .or_else(|| txs.iter().rposition(|t| matches(t)));
                let cand = idx.map(|i| &mut txs[i]);
                match cand {
                    Some(t) => t.confirms += 1,
                    None => {
                        let rejected = txs.iter().rev().find(|t| {
                            t.src == *dest
                                && t.con
                                && t.uns == *uns
                                && t.seq == *seq
                                && t.order < pos
                        });
                        violation = Some(Violation::new(
                            "C15/confirm-without-accepted-fragment",
                            match rejected {
                                Some(r) if r.must_reject => format!("rejected-fragment {}", r.kind),
                                Some(_) => "confirmed-twice".to_string(),
                                None => "no-such-fragment".to_string(),
                            },
                            format!("the master sent CONFIRM seq {} uns {} to {} but no accepted, unconfirmed fragment asked for it", seq, uns, dest),
                        ));
                    }
                }
            }
            _ => {}
        }
    }
    // end-of-run obligations
    if violation.is_none() {
        for (i, tx) in txs.iter().enumerate() {
            // the run continues for a tail after the script, so everything transmitted has been processed
            // (automatic retries can keep the traffic going until the history ends: a fragment still on its way then is not judged)
            let arrived = tx.t + case.latency.0 + case.latency.1 + 10 < run.end_ms;
            if tx.must_accept
                && (tx.is_read_response || tx.uns)
                && tx.delivered != tx.values
                && (arrived || !tx.delivered.is_empty())
            {
                let kind = if tx.delivered.is_empty() {
                    "not-delivered"
                } else if tx.delivered.len() > tx.values.len() {
                    "delivered-more-than-once"
                } else {
                    "partial-or-out-of-order"
                };
                violation = Some(Violation::new(
                    "C15/accepted-fragment-not-delivered-exactly-once",
                    format!(
                        "{} {}",
                        kind,
                        if tx.uns { "unsolicited" } else { "solicited" }
                    ),
                    format!(
                        "fragment #{} '{}' ({}) carries {:?}, the ReadHandler received {:?}",
                        i,
                        tx.kind,
                        crate::verif::io::hex(&tx.bytes[..tx.bytes.len().min(24)]),
                        tx.values,
                        tx.delivered
                    ),
                ));
                break;
            }
            // (a fragment that arrived in the last moments of the run may have its confirmation still on the way)
            let settled = tx.t + case.latency.0 + case.latency.1 + 10 < run.end_ms;
            if tx.must_accept && tx.con && tx.confirms != 1 && (settled || tx.confirms > 1) {
                violation = Some(Violation::new(
                    "C15/accepted-fragment-not-confirmed-once",
                    format!("{} confirms={}", if tx.uns { "unsolicited" } else if tx.is_read_response { "read-response" } else { "non-read-response" }, tx.confirms),
                    format!(
                        "fragment '{}' ({}) asks for confirmation and must be accepted, but the master sent {} CONFIRMs for it",
                        tx.kind,
                        crate::verif::io::hex(&tx.bytes[..tx.bytes.len().min(24)]),
                        tx.confirms
                    ),
                ));
                break;
            }
        }
    }
    // H: a handler handed over with a user read receives the fragments of user reads and nothing else; the association's handler
    // receives everything else (judged when all user reads of the run are of one kind)
    let n_custom = case
        .script
        .iter()
        .filter(|op| matches!(op, MOp::User { kind: UserKind::ReadCustom(_), .. }))
        .count();
    let n_plain = case
        .script
        .iter()
        .filter(|op| matches!(op, MOp::User { kind: UserKind::ReadClasses(_), .. }))
        .count();
    if violation.is_none() {
        for (_, h) in &hist {
            if let H::Begin { assoc, read_type, uns, .. } = h {
                let custom = read_type.starts_with("Custom:");
                let single = read_type.ends_with("SinglePoll");
                let bad = if custom && (!single || *uns || n_custom == 0) {
                    Some("request-handler-received-foreign-fragment")
                } else if !custom && single && n_plain == 0 && n_custom > 0 {
                    Some("association-handler-received-response-of-read-with-handler")
                } else {
                    None
                };
                if custom {
                    *counters.entry("probe.fragment_delivered_to_request_handler".to_string()).or_insert(0) += 1;
                }
                if let Some(kind) = bad {
                    violation = Some(Violation::new(
                        "C15/fragment-delivered-to-wrong-handler",
                        kind,
                        format!("a fragment of read type {} (unsolicited: {}) of association {} was delivered to the {} handler", read_type, uns, assoc, if custom { "request's own" } else { "association's" }),
                    ));
                    break;
                }
            }
        }
    }
    // what the user is told: success of a request only together with the successful end of a task of that association (the
    // verdicts above are about that task end - a promise resolved with Ok on another path would escape them)
    if violation.is_none() {
        for (_, h) in &hist {
            if let H::UserDone { t, id, ok: true, .. } = h {
                let Some((_, addr, kind)) = run.user_kinds.iter().find(|u| u.0 == *id) else { continue };
                if matches!(kind, UserKind::LinkStatus) {
                    continue;
                }
                *counters.entry("probe.user_success_tied_to_task_success".to_string()).or_insert(0) += 1;
                let backed = hist.iter().any(|(_, x)| matches!(x, H::TaskSuccess { t: ts, assoc, .. } if assoc == addr && ts == t));
                if !backed {
                    violation = Some(Violation::new(
                        "C15/user-told-success-without-task-success",
                        "",
                        format!("user request {} ({:?}) to {} was reported successful at {} ms but no task of that association ended successfully then", id, kind, addr, t),
                    ));
                    break;
                }
            }
        }
    }
    let out: Vec<(String, u64)> = counters.into_iter().collect();
    (violation, nontrivial, fp, out)
}
