//! Independent reference for the DNP3 transport function (IEEE 1815 clause 8): segmentation of a
//! fragment into <= 249-octet segments with a FIR/FIN/6-bit-sequence header, and reassembly with
//! the rules the property states (one source at a time, FIR starts, consecutive sequence numbers,
//! bounded buffer; anything irregular discards the fragment in progress).

#[derive(Clone, Debug, PartialEq, Eq)]
pub struct Segment {
    pub fir: bool,
    pub fin: bool,
    pub seq: u8,
    pub data: Vec<u8>,
}

impl Segment {
    pub fn header(&self) -> u8 {
        (if self.fin { 0x80 } else { 0 }) | (if self.fir { 0x40 } else { 0 }) | (self.seq & 0x3F)
    }
    pub fn parse(payload: &[u8]) -> Option<Segment> {
        let (h, data) = payload.split_first()?;
        Some(Segment {
            fin: h & 0x80 != 0,
            fir: h & 0x40 != 0,
            seq: h & 0x3F,
            data: data.to_vec(),
        })
    }
    pub fn to_payload(&self) -> Vec<u8> {
        let mut v = Vec::with_capacity(self.data.len() + 1);
        v.push(self.header());
        v.extend_from_slice(&self.data);
        v
    }
}

/// split a fragment into segments starting at sequence `seq`; returns the segments and the next sequence
pub fn segment(fragment: &[u8], mut seq: u8) -> (Vec<Segment>, u8) {
    let mut out = Vec::new();
    let chunks: Vec<&[u8]> = if fragment.is_empty() {
        Vec::new()
    } else {
        fragment.chunks(249).collect()
    };
    let n = chunks.len();
    for (i, c) in chunks.into_iter().enumerate() {
        out.push(Segment {
            fir: i == 0,
            fin: i + 1 == n,
            seq: seq & 0x3F,
            data: c.to_vec(),
        });
        seq = (seq + 1) & 0x3F;
    }
    (out, seq)
}

pub struct Reassembler {
    max: usize,
    /// (source, last seq, accumulated bytes)
    running: Option<(u16, u8, Vec<u8>)>,
}

impl Reassembler {
    pub fn new(max: usize) -> Self {
        Self { max, running: None }
    }

    pub fn reset(&mut self) {
        self.running = None;
    }

    /// feed one segment from `source`; returns a completed fragment if this segment finishes one
    pub fn push(&mut self, source: u16, seg: &Segment) -> Option<(u16, Vec<u8>)> {
        if seg.fir {
            self.running = None;
            if seg.data.len() > self.max {
                return None;
            }
            if seg.fin {
                return Some((source, seg.data.clone()));
            }
            self.running = Some((source, seg.seq, seg.data.clone()));
            return None;
        }
        match self.running.take() {
            None => None,
            Some((src, last, mut acc)) => {
                if src != source || seg.seq != ((last + 1) & 0x3F) {
                    return None; // fragment in progress is discarded together with this segment
                }
                if acc.len() + seg.data.len() > self.max {
                    return None;
                }
                acc.extend_from_slice(&seg.data);
                if seg.fin {
                    Some((src, acc))
                } else {
                    self.running = Some((src, seg.seq, acc));
                    None
                }
            }
        }
    }
}
