pub mod master;
pub mod net;
pub mod outstation;
pub mod peer;
