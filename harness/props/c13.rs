//! C13 - internal indication bits tell the truth (engine S-OUT).
//!
//! For every newly formatted response the IIN octets are compared with a model evaluated at the
//! `get_events_info` lock point of that response (the timeline gives the exact order of user
//! transactions relative to the session's critical sections).

use crate::outstation::database::UpdateInfo;
use crate::verif::models::ledger::{match_events_before, EvState, Ledger};
use crate::verif::nodes::outstation::{Cb, CtrlAnswers};
use crate::verif::props::c03::gen_event_script;
use crate::verif::props::gen_out::*;
use crate::verif::refcodec::app::{self as refapp, Range, ReqHeader};
use crate::verif::rng::{mix, Rng};
use crate::verif::runner::{erase, Codec, Outcome, Property, Scenario, Tier, Violation};
use crate::verif::sout::{self, ConfSel, Dest, Op, Oracle, SeqSel, SoutCase, Step, Who, World, TL};
use std::collections::{BTreeMap, BTreeSet};

pub struct IinScenario;

pub fn property<C: Codec>() -> Property {
    Property {
        id: "C13",
        scenarios: vec![erase::<C, _>(IinScenario)],
    }
}

fn write_restart(value: bool, to: Dest) -> Op {
    Op::Request {
        func: refapp::FUNC_WRITE,
        seq: SeqSel::Next,
        headers: vec![ReqHeader {
            group: 80,
            var: 1,
            range: Range::Range8(7, 7),
            data: vec![value as u8],
        }],
        flags: None,
        from: Who::Master,
        to,
    }
}

impl Scenario for IinScenario {
    type Case = SoutCase;

    fn name(&self) -> &'static str {
        "iin"
    }

    fn runs(&self, tier: Tier) -> u64 {
        match tier {
            Tier::Quick => 90_000,
            Tier::Thorough => 2_400_000,
        }
    }

    fn rule(&self) -> String {
        "the C03 workload (updates incl. lock-point injection, polls, unsolicited series confirmed/timed out/cancelled, reconnects) with small event \
         buffers, plus broadcasts to the three broadcast addresses (WRITE restart bit, DISABLE/ENABLE_UNSOLICITED, DIRECT_OPERATE_NR, unsupported \
         functions), restart-bit writes (0 and 1), application IIN changes; for every newly formatted response (re-sends excluded) the IIN octets are \
         compared with the model at the response's own get_events_info lock point; non-trivial = an overflow or an unconfirmed series occurred while \
         events of two classes were buffered; distinct = hash of (operation kinds, IIN octets seen)"
            .to_string()
    }

    fn real_components(&self) -> Vec<&'static str> {
        vec![
            "outstation::session::OutstationSession (get_response_iin, broadcast handling, restart IIN)",
            "outstation::database (EventBuffer counters, overflow flag)",
            "outstation::task::OutstationTask",
            "tcp::outstation::server_task::ServerTask",
            "transport::real",
            "link::layer/reader/parser",
        ]
    }

    fn stub_components(&self) -> Vec<&'static str> {
        vec![
            "physical layer (SimSocket)",
            "TCP accept loop",
            "OutstationApplication (recording stub, application IIN set by the workload)",
            "scripted master peer (reference codec)",
            "user threads (sim actor + lock-point injection)",
        ]
    }

    fn generate(&self, rng: &mut Rng, _tier: Tier) -> SoutCase {
        let mut cfg = gen_event_cfg(rng);
        if rng.chance(2, 3) {
            for i in 0..8 {
                cfg.event_buffers[i] = rng.range(1, 3) as u16;
            }
        }
        cfg.broadcast = rng.chance(5, 6);
        let ntypes = rng.urange(1, 3);
        cfg.points = gen_points(rng, ntypes, 3, false, false);
        // make sure at least two classes are in use
        if cfg.points.len() >= 2 {
            cfg.points[0].class = 1;
            cfg.points[1].class = rng.range(2, 3) as u8;
        }
        let len = rng.urange(5, 35);
        let base = gen_event_script(rng, &cfg, len);
        // sprinkle the C13-specific operations
        let mut script = Vec::new();
        for op in base {
            script.push(op);
            match rng.below(24) {
                0 => script.push(write_restart(false, Dest::Own)),
                1 => script.push(write_restart(
                    rng.chance(1, 4),
                    if rng.bool() {
                        Dest::Own
                    } else {
                        Dest::Bcast(*rng.pick(&[0xFFFFu16, 0xFFFE, 0xFFFD]))
                    },
                )),
                2 => script.push(Op::SetAppIin(rng.below(16) as u8)),
                3 => {
                    let func = *rng.pick(&[
                        refapp::FUNC_DISABLE_UNSOL,
                        refapp::FUNC_ENABLE_UNSOL,
                        refapp::FUNC_RECORD_CURRENT_TIME,
                        refapp::FUNC_READ,
                        refapp::FUNC_DIRECT_OPERATE_NR,
                    ]);
                    let headers = match func {
                        refapp::FUNC_DISABLE_UNSOL | refapp::FUNC_ENABLE_UNSOL => vec![
                            ReqHeader::all(60, 2),
                            ReqHeader::all(60, 3),
                            ReqHeader::all(60, 4),
                        ],
                        refapp::FUNC_READ => vec![ReqHeader::all(60, 2)],
                        refapp::FUNC_DIRECT_OPERATE_NR => {
                            crate::verif::props::c04::gen_controls(rng)
                        }
                        _ => vec![],
                    };
                    script.push(Op::Request {
                        func,
                        seq: SeqSel::Next,
                        headers,
                        flags: None,
                        from: Who::Master,
                        to: Dest::Bcast(*rng.pick(&[0xFFFFu16, 0xFFFE, 0xFFFD])),
                    });
                }
                4 => script.push(Op::Confirm {
                    uns: false,
                    seq: ConfSel::Expected,
                    from: Who::Master,
                }),
                _ => {}
            }
        }
        crate::verif::props::gen_out::sprinkle_splits(rng, &mut script);
        SoutCase {
            cfg,
            ctrl: CtrlAnswers::AllSuccess,
            chunk: rng.below(5) as u8,
            chunk_seed: rng.next_u64(),
            script,
        }
    }

    fn shrink(&self, case: &SoutCase) -> Vec<SoutCase> {
        sout::shrink_case(case)
    }

    fn execute(&self, case: &SoutCase, log: bool) -> Outcome {
        sout::execute("C13", case, case.chunk_seed, log, |c| IinOracle::new(c))
    }
}

#[derive(Clone, Copy, Debug, PartialEq)]
enum Tri {
    Yes,
    No,
    Unknown,
}

#[derive(Clone, Debug)]
struct Carrier {
    seq: u8,
    ids: Vec<u64>,
    t_ms: u64,
}

#[derive(Clone, Debug)]
struct Snapshot {
    live: BTreeSet<u64>,
    overflow: bool,
}

pub struct IinOracle {
    ledger: Ledger,
    sol: Option<Carrier>,
    unsol: Option<Carrier>,
    last_sol_bytes: Option<Vec<u8>>,
    last_unsol_bytes: Option<Vec<u8>>,
    restart: Tri,
    /// Some(destination address) while a received broadcast has not been reported / confirmed
    bcast: Option<u16>,
    bcast_known: bool,
    /// (unsolicited?, seq) of responses that carried a confirm-mandatory broadcast indication
    bcast_reported_in: Vec<(bool, u8)>,
    /// the outstation is waiting for the confirmation of an unsolicited response (between its own callbacks entering and leaving the wait)
    in_unsol_wait: bool,
    app_bits: u8,
    desync: bool,
    /// the previous request reached the outstation on the current connection (a Repeat is then a retransmission)
    echo_possible: bool,
    nontrivial: bool,
    saw_overflow_or_unconfirmed: bool,
    fp: u64,
    counters: BTreeMap<String, u64>,
    master: u16,
    own: u16,
    broadcast_enabled: bool,
}

impl IinOracle {
    pub fn new(case: &SoutCase) -> Self {
        Self {
            ledger: Ledger::new(&case.cfg),
            sol: None,
            unsol: None,
            last_sol_bytes: None,
            last_unsol_bytes: None,
            restart: Tri::Yes,
            bcast: None,
            bcast_known: true,
            bcast_reported_in: Vec::new(),
            in_unsol_wait: false,
            app_bits: 0,
            desync: false,
            echo_possible: false,
            nontrivial: false,
            saw_overflow_or_unconfirmed: false,
            fp: 0,
            counters: BTreeMap::new(),
            master: case.cfg.master_addr,
            own: case.cfg.outstation_addr,
            broadcast_enabled: case.cfg.broadcast,
        }
    }

    fn bump(&mut self, k: &str) {
        *self.counters.entry(k.to_string()).or_insert(0) += 1;
    }
}

enum Ev<'a> {
    Tl(&'a TL),
    Cb(u64, &'a Cb),
    Frag(&'a crate::verif::nodes::peer::RxFragment),
}

impl Oracle for IinOracle {
    fn step(&mut self, _world: &World, step: &Step) -> Option<Violation> {
        if self.desync {
            self.bump("probe.step_not_judged_after_ledger_mismatch");
            return None;
        }
        if step.connected || step.disconnected {
            self.sol = None;
            self.unsol = None;
            self.in_unsol_wait = false;
            self.echo_possible = false;
            if (step.disconnected || (step.connected && step.link_up)) && self.bcast.is_some() {
                // a session that is being cut or pre-empted may still have formatted a response (consuming the broadcast
                // indication) for the dying connection, which the peer never sees
                self.bcast_known = false;
            }
        }
        if let Op::SetAppIin(bits) = step.op {
            self.app_bits = bits;
        }

        // everything that happened in this step, in its exact order
        let mut evs: Vec<(u64, Ev)> = Vec::new();
        for tl in &step.timeline {
            let o = match tl {
                TL::Lock(_, o) => *o,
                TL::Update { order, .. } => *order,
            };
            evs.push((o, Ev::Tl(tl)));
        }
        for (i, (t, cb)) in step.callbacks.iter().enumerate() {
            evs.push((
                step.callback_orders.get(i).copied().unwrap_or(0),
                Ev::Cb(*t, cb),
            ));
        }
        for rx in &step.received {
            evs.push((rx.order, Ev::Frag(rx)));
        }
        evs.sort_by_key(|e| e.0);

        // what this step's request is
        let sent = if step.link_up {
            step.sent.clone()
        } else {
            None
        };
        let is_echo_step = matches!(step.op, Op::Repeat) && self.echo_possible;
        match &step.op {
            Op::Request { .. } | Op::Raw { .. } => self.echo_possible = step.link_up,
            // a repetition that reaches a session which has not seen the fragment before (new connection) is executed; from
            // then on it is this session's last request and a further repetition is echoed
            Op::Repeat if step.link_up && step.sent.is_some() => self.echo_possible = true,
            _ => {}
        }
        let mut clears_restart = false;
        let mut sent_is_plain_from_master = false;
        if let Some(s) = &sent {
            let from_master = s.src == self.master;
            let to_bcast = s.dest >= 0xFFFD;
            let to_us = s.dest == self.own || to_bcast;
            let plain = s.bytes.len() >= 2 && s.bytes[0] & 0xF0 == 0xC0;
            sent_is_plain_from_master = from_master && to_us && plain;
            if sent_is_plain_from_master {
                let func = s.bytes[1];
                if func == refapp::FUNC_WRITE && (!to_bcast || self.broadcast_enabled) {
                    if let Ok(f) = refapp::decode_fragment(&s.bytes) {
                        for o in &f.objects {
                            if o.group == 80 && o.var == 1 && o.index == Some(7) && o.raw == vec![0]
                            {
                                clears_restart = true;
                            }
                        }
                    }
                }
                // (the unsolicited response may have been transmitted in this very step, before the outstation got to read the confirm)
                let unsol_in_step = step
                    .received
                    .iter()
                    .any(|f| f.bytes.len() >= 2 && f.bytes[1] == 130 && f.bytes[0] & 0x20 != 0);
                if func == refapp::FUNC_CONFIRM
                    && s.bytes[0] & 0x10 == 0
                    && (self.unsol.is_some() || unsol_in_step)
                    && self.bcast == Some(0xFFFE)
                {
                    // a solicited confirm during an unsolicited wait ends a confirm-mandatory indication exactly when it confirms
                    // a solicited response that carried the indication
                    if self.in_unsol_wait && !unsol_in_step && s.bytes.len() == 2 {
                        self.bump("probe.solicited_confirm_in_unsolicited_wait_judged");
                        // (a confirmation confirms the most recent solicited response, not an earlier one that was superseded)
                        let latest = self.bcast_reported_in.iter().rev().find(|e| !e.0).map(|e| e.1);
                        if latest == Some(s.bytes[0] & 0x0F) {
                            self.bcast = None;
                            self.bcast_reported_in.clear();
                        }
                    } else {
                        // (whether the outstation was in that wait when it read the confirm is not known)
                        self.bcast_known = false;
                    }
                }
            } else if s.bytes.len() >= 2 && to_us && s.dest >= 0xFFFD {
                // unusual header flags / foreign master on a broadcast: not modelled
                self.bcast_known = false;
            }
        }
        if clears_restart {
            self.bump("probe.restart_cleared");
        }

        let mut live: BTreeSet<u64> = self.ledger.live().map(|e| e.id).collect();
        let mut overflow = self.ledger.overflow;
        let mut snapshot: Option<Snapshot> = None;
        let mut newest_at_write: Option<Option<u64>> = None;
        // the events that were live when the session took the lock to write the next fragment
        let mut live_at_write: Option<BTreeSet<u64>> = None;
        let mut discarded_now: Vec<u64> = Vec::new();
        let mut bcast_processed = false;

        for (_, ev) in &evs {
            match ev {
                Ev::Tl(TL::Update { op, info, t_ms, .. }) => {
                    if self.ledger.apply_update(op, *info, *t_ms).is_err() {
                        self.desync = true; // C03 reports this
                        return None;
                    }
                    match info {
                        UpdateInfo::Created(id) => {
                            live.insert(*id);
                        }
                        UpdateInfo::Overflow { created, discarded } => {
                            live.insert(*created);
                            live.remove(discarded);
                            discarded_now.push(*discarded);
                            overflow = true;
                            self.saw_overflow_or_unconfirmed = true;
                            self.bump("probe.overflow");
                        }
                        _ => {}
                    }
                }
                Ev::Tl(TL::Lock(site, _)) => {
                    if *site == "get_events_info" {
                        snapshot = Some(Snapshot {
                            live: live.clone(),
                            overflow,
                        });
                    }
                    if *site == "write_unsolicited" || *site == "write_response_headers" {
                        // what the next fragment carries was selected here: only events that exist now qualify
                        newest_at_write = Some(self.ledger.events.keys().next_back().copied());
                        live_at_write = Some(live.clone());
                    }
                }
                Ev::Cb(_, cb) => match cb {
                    Cb::EventCleared(id) => {
                        live.remove(id);
                        if let Some(e) = self.ledger.events.get_mut(id) {
                            e.state = EvState::Released;
                        }
                    }
                    Cb::EndConfirm { .. } => {
                        self.ledger.overflow = overflow;
                        self.ledger.recompute_overflow_after_confirm();
                        overflow = self.ledger.overflow;
                    }
                    Cb::Info(s) => {
                        let seq_of = |s: &str| {
                            s.split_whitespace()
                                .nth(1)
                                .and_then(|x| x.parse::<u8>().ok())
                        };
                        if s.starts_with("broadcast_received") {
                            if let Some(snt) = &sent {
                                if snt.dest >= 0xFFFD {
                                    self.bcast = Some(snt.dest);
                                    self.bcast_known = sent_is_plain_from_master;
                                    self.bcast_reported_in.clear();
                                    bcast_processed = true;
                                    self.bump("probe.broadcast_received");
                                    if clears_restart && s.contains("Processed") {
                                        self.restart = Tri::No;
                                    }
                                    // a DISABLE_UNSOLICITED ends the unsolicited series in flight, by broadcast as by unicast:
                                    // its events are no longer "part of a response still awaiting confirmation"
                                    if s.contains("DisableUnsolicited") && s.contains("Processed") {
                                        self.unsol = None;
                                    }
                                }
                            }
                        } else if s.starts_with("solicited_confirm_timeout")
                            || s.starts_with("solicited_confirm_wait_new_request")
                        {
                            if self
                                .sol
                                .as_ref()
                                .map(|c| !c.ids.is_empty())
                                .unwrap_or(false)
                            {
                                self.saw_overflow_or_unconfirmed = true;
                                self.bump("probe.series_ended_unconfirmed");
                            }
                            self.sol = None;
                        } else if s.starts_with("solicited_confirm_received") {
                            if let Some(q) = seq_of(s) {
                                if self.bcast == Some(0xFFFE)
                                    && self.bcast_reported_in.contains(&(false, q))
                                {
                                    self.bcast = None;
                                    self.bcast_reported_in.clear();
                                }
                            }
                            self.sol = None;
                        } else if s.starts_with("unsolicited_confirmed") {
                            if let Some(q) = seq_of(s) {
                                if self.bcast == Some(0xFFFE)
                                    && self.bcast_reported_in.contains(&(true, q))
                                {
                                    self.bcast = None;
                                    self.bcast_reported_in.clear();
                                }
                            }
                            self.unsol = None;
                            self.in_unsol_wait = false;
                        } else if s.starts_with("enter_unsolicited_confirm_wait") {
                            self.in_unsol_wait = true;
                        } else if s.starts_with("unsolicited_confirm_timeout") && !s.ends_with("false") {
                            self.in_unsol_wait = false;
                        } else if s.starts_with("unsolicited_confirm_timeout")
                            && s.ends_with("false")
                        {
                            self.in_unsol_wait = false;
                            if self
                                .unsol
                                .as_ref()
                                .map(|c| !c.ids.is_empty())
                                .unwrap_or(false)
                            {
                                self.saw_overflow_or_unconfirmed = true;
                                self.bump("probe.series_ended_unconfirmed");
                            }
                            self.unsol = None;
                        }
                    }
                    _ => {}
                },
                Ev::Frag(rx) => {
                    let frag = match &rx.frag {
                        Some(f)
                            if f.func == refapp::FUNC_RESPONSE
                                || f.func == refapp::FUNC_UNSOL_RESPONSE =>
                        {
                            f
                        }
                        _ => continue,
                    };
                    let unsol = frag.func == refapp::FUNC_UNSOL_RESPONSE;
                    // newly formatted responses evaluate their IIN at a get_events_info lock point right before they are
                    // written; anything else is a copy of an earlier fragment (C05)
                    let snap = snapshot.take();
                    let is_write_response = !unsol
                        && sent
                            .as_ref()
                            .map(|s| {
                                s.bytes.len() >= 2
                                    && s.bytes[1] == refapp::FUNC_WRITE
                                    && s.dest == self.own
                                    && s.bytes[0] & 0x0F == frag.ctrl.seq
                            })
                            .unwrap_or(false);
                    if is_write_response && clears_restart && sent_is_plain_from_master {
                        self.restart = Tri::No;
                    }
                    let is_disable_response = !unsol
                        && !is_echo_step
                        && sent_is_plain_from_master
                        && sent
                            .as_ref()
                            .map(|s| {
                                s.dest == self.own
                                    && s.bytes[1] == refapp::FUNC_DISABLE_UNSOL
                                    && s.bytes[0] & 0x0F == frag.ctrl.seq
                            })
                            .unwrap_or(false);
                    // the answer to an exact retransmission is an echo (a copy as far as C13 is concerned)
                    let is_echo = is_echo_step
                        && !unsol
                        && sent
                            .as_ref()
                            .map(|s| !s.bytes.is_empty() && s.bytes[0] & 0x0F == frag.ctrl.seq)
                            .unwrap_or(false);
                    let snap = match snap {
                        Some(s) if !is_echo => s,
                        _ => {
                            if is_disable_response {
                                self.unsol = None;
                            }
                            continue;
                        }
                    };
                    let iin = match frag.iin {
                        Some(i) => i,
                        None => continue,
                    };
                    let meas = refapp::measurements(frag);
                    let events: Vec<&refapp::Meas> = meas.iter().filter(|m| m.is_event).collect();
                    let matched = match live_at_write.take() {
                        Some(allowed) => {
                            newest_at_write = None;
                            crate::verif::models::ledger::match_events_among(&self.ledger, &events, &allowed)
                        }
                        None => match_events_before(
                            &self.ledger,
                            &events,
                            &discarded_now,
                            newest_at_write.take().flatten(),
                        ),
                    };
                    let own_ids = match matched {
                        Ok(ids) => ids,
                        Err(_) => {
                            self.desync = true; // C03's business
                            return None;
                        }
                    };
                    let mut bits = [false; 3];
                    for id in &snap.live {
                        if own_ids.contains(id) {
                            continue;
                        }
                        if !unsol
                            && self
                                .unsol
                                .as_ref()
                                .map(|c| c.ids.contains(id))
                                .unwrap_or(false)
                        {
                            continue;
                        }
                        if let Some(e) = self.ledger.events.get(id) {
                            if (1..=3).contains(&e.class) {
                                bits[e.class as usize - 1] = true;
                            }
                        }
                    }
                    self.bump("probe.response_event_bits_judged");
                    let want = (bits[0], bits[1], bits[2], snap.overflow);
                    let actual = (
                        iin.0 & 0x02 != 0,
                        iin.0 & 0x04 != 0,
                        iin.0 & 0x08 != 0,
                        iin.1 & 0x08 != 0,
                    );
                    if actual != want {
                        let which = if actual.3 != want.3
                            && (actual.0, actual.1, actual.2) == (want.0, want.1, want.2)
                        {
                            "overflow-bit"
                        } else if actual.3 == want.3 {
                            "class-bits"
                        } else {
                            "class-and-overflow-bits"
                        };
                        let dir = if which == "overflow-bit" {
                            if actual.3 {
                                "set-without-reason"
                            } else {
                                "not-set"
                            }
                        } else if (actual.0 && !want.0)
                            || (actual.1 && !want.1)
                            || (actual.2 && !want.2)
                        {
                            "set-without-unwritten-events"
                        } else {
                            "clear-although-unwritten-events"
                        };
                        return Some(Violation::new(
                            "C13/events-iin",
                            format!("{} {}", which, dir),
                            format!(
                                "step {}: {} response seq {} carries IIN {:02X} {:02X}: (class1, class2, class3, overflow) = {:?}, model says {:?}; own events {:?}, events of an outstanding unsolicited response {:?}, live {:?}",
                                step.op_index,
                                if unsol { "unsolicited" } else { "solicited" },
                                frag.ctrl.seq,
                                iin.0,
                                iin.1,
                                actual,
                                want,
                                own_ids,
                                self.unsol.as_ref().map(|c| c.ids.clone()),
                                snap.live
                            ),
                        ));
                    }
                    // restart bit
                    let restart_bit = iin.0 & 0x80 != 0;
                    match self.restart {
                        Tri::Yes if !restart_bit => {
                            return Some(Violation::new(
                                "C13/restart-iin",
                                "cleared-without-write",
                                format!("step {}: restart indication is clear although the master never wrote it to zero", step.op_index),
                            ))
                        }
                        Tri::No if restart_bit => {
                            return Some(Violation::new(
                                "C13/restart-iin",
                                "set-after-clear",
                                format!("step {}: restart indication is set again after the master cleared it", step.op_index),
                            ))
                        }
                        _ => {}
                    }
                    // broadcast bit
                    if self.bcast_known {
                        let bit = iin.0 & 0x01 != 0;
                        if bit != self.bcast.is_some() {
                            return Some(Violation::new(
                                "C13/broadcast-iin",
                                if bit {
                                    "set-without-broadcast"
                                } else {
                                    "not-set-after-broadcast"
                                },
                                format!(
                                    "step {}: broadcast indication is {} but the model says {:?}",
                                    step.op_index, bit, self.bcast
                                ),
                            ));
                        }
                        if let Some(addr) = self.bcast {
                            self.bump("probe.broadcast_reported");
                            if addr != 0xFFFE {
                                self.bcast = None;
                            } else {
                                self.bcast_reported_in.push((unsol, frag.ctrl.seq));
                            }
                        }
                    } else if iin.0 & 0x01 != 0 {
                        // unknown state: a reported indication of an optional/not-required broadcast is consumed
                        if let Some(addr) = self.bcast {
                            if addr != 0xFFFE {
                                self.bcast = None;
                                self.bcast_known = true;
                            }
                        }
                    }
                    // application-controlled bits
                    let app_actual = ((iin.0 >> 4) & 0x01)
                        | (((iin.0 >> 5) & 0x01) << 1)
                        | (((iin.0 >> 6) & 0x01) << 2)
                        | (((iin.1 >> 5) & 0x01) << 3);
                    if app_actual != self.app_bits & 0x0F {
                        return Some(Violation::new(
                            "C13/application-iin",
                            "",
                            format!(
                                "step {}: need-time/local-control/device-trouble/config-corrupt = {:04b}, application answered {:04b}",
                                step.op_index,
                                app_actual,
                                self.app_bits & 0x0F
                            ),
                        ));
                    }
                    let classes_buffered: BTreeSet<u8> =
                        self.ledger.live().map(|e| e.class).collect();
                    if self.saw_overflow_or_unconfirmed && classes_buffered.len() >= 2 {
                        self.nontrivial = true;
                    }
                    self.fp = mix(&[self.fp, iin.0 as u64, iin.1 as u64, unsol as u64]);
                    if frag.ctrl.con {
                        let c = Carrier {
                            seq: frag.ctrl.seq,
                            ids: own_ids.clone(),
                            t_ms: rx.t_ms,
                        };
                        if unsol {
                            self.unsol = Some(c);
                        } else {
                            self.sol = Some(c);
                        }
                    } else if !unsol {
                        self.sol = None;
                    }
                    if is_disable_response {
                        self.unsol = None;
                    }
                }
            }
        }
        self.ledger.overflow = overflow;
        // a broadcast that the session did not announce through its information callback
        if let Some(s) = &sent {
            if s.dest >= 0xFFFD
                && sent_is_plain_from_master
                && s.bytes[1] != refapp::FUNC_CONFIRM
                && !bcast_processed
            {
                self.bcast_known = false;
            }
        }
        let kind = match &step.op {
            Op::Update(_) | Op::UpdateAtLock { .. } => 1,
            Op::Request { func, to, .. } => {
                10 + *func as u64 + if matches!(to, Dest::Bcast(_)) { 100 } else { 0 }
            }
            Op::Confirm { uns, .. } => 40 + *uns as u64,
            Op::Sleep(_) | Op::SleepRel { .. } => 51,
            Op::Connect | Op::Disconnect { .. } => 52,
            _ => 60,
        };
        self.fp = mix(&[self.fp, kind]);
        None
    }

    fn nontrivial(&self) -> bool {
        self.nontrivial
    }

    fn fingerprint(&self) -> u64 {
        self.fp
    }

    fn counters(&self) -> Vec<(String, u64)> {
        self.counters.iter().map(|(k, v)| (k.clone(), *v)).collect()
    }
}
