//! Minimal `tracing` subscriber: formats every event (so that all `Display` paths of the decode
//! levels execute) and optionally forwards the text to the simulation log.

use std::fmt::Write;
use std::sync::atomic::{AtomicU64, Ordering};
use tracing::field::{Field, Visit};
use tracing::span::{Attributes, Id, Record};
use tracing::{Event, Metadata, Subscriber};

pub struct FmtSubscriber {
    next_id: AtomicU64,
}

impl FmtSubscriber {
    pub fn new() -> Self {
        Self {
            next_id: AtomicU64::new(1),
        }
    }
}

struct V<'a>(&'a mut String);

impl Visit for V<'_> {
    fn record_debug(&mut self, field: &Field, value: &dyn std::fmt::Debug) {
        if field.name() == "message" {
            let _ = write!(self.0, "{:?}", value);
        } else {
            let _ = write!(self.0, " {}={:?}", field.name(), value);
        }
    }
}

impl Subscriber for FmtSubscriber {
    fn enabled(&self, _metadata: &Metadata<'_>) -> bool {
        true
    }
    fn new_span(&self, span: &Attributes<'_>) -> Id {
        let mut s = String::new();
        span.record(&mut V(&mut s));
        Id::from_u64(self.next_id.fetch_add(1, Ordering::Relaxed))
    }
    fn record(&self, _span: &Id, values: &Record<'_>) {
        let mut s = String::new();
        values.record(&mut V(&mut s));
    }
    fn record_follows_from(&self, _span: &Id, _follows: &Id) {}
    fn event(&self, event: &Event<'_>) {
        let mut s = String::new();
        event.record(&mut V(&mut s));
        if let Some(core) = super::kernel::current() {
            core.count("trace_events", 1);
            if core.log_enabled() {
                core.log(format!("  lib[{}] {}", event.metadata().level(), s));
            }
        }
    }
    fn enter(&self, _span: &Id) {}
    fn exit(&self, _span: &Id) {}
}

/// run `f` with the formatting subscriber installed for this thread
pub fn with_subscriber<R>(f: impl FnOnce() -> R) -> R {
    let sub = FmtSubscriber::new();
    tracing::subscriber::with_default(sub, f)
}
