pub mod ledger;
