//! Thin binary: supplies the JSON codec (serde_json must not be referenced from inside the
//! library crate) and calls the harness compiled into `dnp3` through hook H1.
struct JsonCodec;

impl dnp3::verif::runner::Codec for JsonCodec {
    fn to_json<T: serde::Serialize>(v: &T) -> String {
        serde_json::to_string(v).expect("serialise")
    }
    fn from_json<T: serde::de::DeserializeOwned>(s: &str) -> Result<T, String> {
        serde_json::from_str(s).map_err(|e| e.to_string())
    }
}

fn main() {
    std::process::exit(dnp3::verif::main::<JsonCodec>());
}
