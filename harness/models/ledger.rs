//! Event ledger + database mirror: the harness' own record of every event the outstation created
//! (ids come from `UpdateInfo`), used by C03, C11, C13, C14 and C02.

use crate::outstation::database::UpdateInfo;
use crate::verif::nodes::outstation::{type_slot, OutCfg, PointCfg, UpdateOp};
use crate::verif::refcodec::app::{self as refapp, Meas, PointType};
use std::collections::BTreeMap;

#[derive(Clone, Copy, Debug, PartialEq, Eq)]
pub enum EvState {
    Live,
    Released,
    Discarded,
}

#[derive(Clone, Debug)]
pub struct LedgerEvent {
    pub id: u64,
    pub ptype: PointType,
    pub index: u16,
    pub class: u8,
    pub value: f64,
    pub bytes: Vec<u8>,
    pub flags: u8,
    pub time: u64,
    pub state: EvState,
    pub created_ms: u64,
}

#[derive(Clone, Debug, PartialEq)]
pub struct StaticVal {
    pub value: f64,
    pub bytes: Vec<u8>,
    pub flags: u8,
    pub time: Option<u64>,
}

pub struct Ledger {
    pub events: BTreeMap<u64, LedgerEvent>,
    pub points: BTreeMap<(PointType, u16), PointCfg>,
    /// current static value of every point (mirror of the database)
    pub mirror: BTreeMap<(PointType, u16), StaticVal>,
    pub buffer_sizes: [u16; 8],
    /// an overflow has happened and no confirmation since has left every type below capacity
    pub overflow: bool,
}

/// the flag octet as it appears on the wire for a recorded event / value
pub fn wire_flags(ptype: PointType, flags: u8, value: f64) -> u8 {
    match ptype {
        PointType::Binary | PointType::BinaryOutputStatus => {
            (flags & 0x7F) | if value != 0.0 { 0x80 } else { 0 }
        }
        PointType::DoubleBit => (flags & 0x3F) | (((value as u8) & 0x03) << 6),
        _ => flags,
    }
}

impl Ledger {
    pub fn new(cfg: &OutCfg) -> Self {
        let mut points = BTreeMap::new();
        let mut mirror = BTreeMap::new();
        for p in &cfg.points {
            // later definitions of the same point are ignored by the database (add returns false)
            points
                .entry((p.ptype, p.index))
                .or_insert_with(|| p.clone());
            mirror
                .entry((p.ptype, p.index))
                .or_insert_with(|| default_static(p.ptype));
        }
        Self {
            events: BTreeMap::new(),
            points,
            mirror,
            buffer_sizes: cfg.event_buffers,
            overflow: false,
        }
    }

    pub fn live(&self) -> impl Iterator<Item = &LedgerEvent> {
        self.events.values().filter(|e| e.state == EvState::Live)
    }

    pub fn live_count_type(&self, t: PointType) -> usize {
        self.live().filter(|e| e.ptype == t).count()
    }

    pub fn live_count_class(&self, c: u8) -> usize {
        self.live().filter(|e| e.class == c).count()
    }

    /// record an applied update; returns an error text if the reported discard is not the oldest live event of that type
    pub fn apply_update(
        &mut self,
        op: &UpdateOp,
        info: UpdateInfo,
        t_ms: u64,
    ) -> Result<(), String> {
        let key = (op.ptype, op.index);
        let exists = self.points.contains_key(&key);
        match info {
            UpdateInfo::NoPoint => {
                if exists {
                    return Err(format!(
                        "update of existing point {:?} reported NoPoint",
                        key
                    ));
                }
                return Ok(());
            }
            _ => {
                if !exists {
                    return Err(format!(
                        "update of undefined point {:?} reported {:?}",
                        key, info
                    ));
                }
            }
        }
        if op.update_static {
            self.mirror.insert(
                key,
                StaticVal {
                    value: op.value,
                    bytes: op.bytes.clone(),
                    flags: op.flags,
                    time: op.time,
                },
            );
        }
        let class = self.points[&key].class;
        let mut result = Ok(());
        let created = match info {
            UpdateInfo::Created(id) => Some(id),
            UpdateInfo::Overflow { created, discarded } => {
                let oldest = self
                    .live()
                    .filter(|e| e.ptype == op.ptype)
                    .map(|e| e.id)
                    .min();
                if oldest != Some(discarded) {
                    result = Err(format!(
                        "overflow of {:?} reported discarded id {} but the oldest live event of that type is {:?}",
                        op.ptype, discarded, oldest
                    ));
                }
                if let Some(e) = self.events.get_mut(&discarded) {
                    e.state = EvState::Discarded;
                }
                self.overflow = true;
                Some(created)
            }
            _ => None,
        };
        if let Some(id) = created {
            if self.events.contains_key(&id) {
                return Err(format!("event id {} was handed out twice", id));
            }
            self.events.insert(
                id,
                LedgerEvent {
                    id,
                    ptype: op.ptype,
                    index: op.index,
                    class,
                    value: op.value,
                    bytes: op.bytes.clone(),
                    flags: op.flags,
                    time: op.time.unwrap_or(0),
                    state: EvState::Live,
                    created_ms: t_ms,
                },
            );
            // capacity check: the buffer may never hold more than the configured number per type
            let max = self.buffer_sizes[type_slot(op.ptype)] as usize;
            if self.live_count_type(op.ptype) > max && result.is_ok() {
                result = Err(format!(
                    "{} live events of type {:?} but the buffer holds at most {} and no discard was reported",
                    self.live_count_type(op.ptype),
                    op.ptype,
                    max
                ));
            }
        }
        result
    }

    /// does the wire object carry exactly what was recorded for this event?
    pub fn matches(ev: &LedgerEvent, m: &Meas) -> bool {
        if ev.ptype != m.ptype || ev.index as u32 != m.index {
            return false;
        }
        if let Some(b) = &m.bytes {
            return *b == ev.bytes;
        }
        if let Some(f) = m.flags {
            if f != wire_flags(ev.ptype, ev.flags, ev.value) {
                return false;
            }
        }
        match m.value {
            Some(v) => {
                if v != ev.value {
                    return false;
                }
            }
            None => return false,
        }
        if let Some(t) = m.time {
            if t != ev.time {
                return false;
            }
        }
        true
    }

    /// after a confirmation: is every type below capacity?
    pub fn recompute_overflow_after_confirm(&mut self) {
        let any_full = refapp::ALL_TYPES.iter().any(|t| {
            let max = self.buffer_sizes[type_slot(*t)] as usize;
            max > 0 && self.live_count_type(*t) >= max
        });
        if !any_full {
            self.overflow = false;
        }
    }
}

pub fn default_static(ptype: PointType) -> StaticVal {
    // a freshly added point: value zero/false, flags RESTART (0x02), no time
    StaticVal {
        // double-bit points start as Indeterminate (3), everything else as 0 / false
        value: if ptype == PointType::DoubleBit {
            3.0
        } else {
            0.0
        },
        bytes: vec![0x00],
        flags: 0x02,
        time: None,
    }
}

/// match the event objects of a fragment to ledger entries (oldest-first, ascending preferred);
/// `also_ok` are ids discarded during the current step (still acceptable in fragments of this step).
/// Returns the matched ids, or the index of the first object that matches nothing.
pub fn match_events(ledger: &Ledger, events: &[&Meas], also_ok: &[u64]) -> Result<Vec<u64>, usize> {
    match_events_before(ledger, events, also_ok, None)
}

/// as `match_events`, considering only events with an id up to `max_id`: a fragment can only carry events that existed when
/// the session took the database lock to write it
pub fn match_events_before(
    ledger: &Ledger,
    events: &[&Meas],
    also_ok: &[u64],
    max_id: Option<u64>,
) -> Result<Vec<u64>, usize> {
    // identical events cannot be told apart on the wire: first the reading that prefers live events, and if that one is not
    // oldest-first while the reading that simply takes the oldest candidate each time is, the latter
    let a = match_events_pref(ledger, events, also_ok, max_id, true)?;
    if a.windows(2).all(|w| w[0] < w[1]) {
        return Ok(a);
    }
    match match_events_pref(ledger, events, also_ok, max_id, false) {
        Ok(b) if b.windows(2).all(|w| w[0] < w[1]) => Ok(b),
        _ => Ok(a),
    }
}

fn match_events_pref(
    ledger: &Ledger,
    events: &[&Meas],
    also_ok: &[u64],
    max_id: Option<u64>,
    prefer_live: bool,
) -> Result<Vec<u64>, usize> {
    let mut ids: Vec<u64> = Vec::new();
    for (i, m) in events.iter().enumerate() {
        let candidates: Vec<&LedgerEvent> = ledger
            .events
            .values()
            .filter(|e| {
                e.state == EvState::Live
                    || (e.state == EvState::Discarded && also_ok.contains(&e.id))
            })
            .filter(|e| !ids.contains(&e.id))
            .filter(|e| max_id.map(|m| e.id <= m).unwrap_or(true))
            .filter(|e| Ledger::matches(e, m))
            .collect();
        let last = ids.last().copied();
        let asc = |e: &&&LedgerEvent| last.map(|l| e.id > l).unwrap_or(true);
        let found = if prefer_live {
            candidates
                .iter()
                .filter(|e| e.state == EvState::Live)
                .find(asc)
                .or_else(|| candidates.iter().find(|e| e.state == EvState::Live))
                .or_else(|| candidates.iter().find(asc))
                .or_else(|| candidates.first())
                .copied()
        } else {
            candidates.iter().find(asc).or_else(|| candidates.first()).copied()
        };
        match found {
            Some(e) => ids.push(e.id),
            None => return Err(i),
        }
    }
    Ok(ids)
}

/// as `match_events`, when it is known exactly which events were live at the moment the fragment was written: only those
/// qualify, whatever happened to them afterwards, oldest first
pub fn match_events_among(
    ledger: &Ledger,
    events: &[&Meas],
    allowed: &std::collections::BTreeSet<u64>,
) -> Result<Vec<u64>, usize> {
    let mut ids: Vec<u64> = Vec::new();
    for (i, m) in events.iter().enumerate() {
        let candidates: Vec<&LedgerEvent> = ledger
            .events
            .values()
            .filter(|e| allowed.contains(&e.id))
            .filter(|e| !ids.contains(&e.id))
            .filter(|e| Ledger::matches(e, m))
            .collect();
        let last = ids.last().copied();
        let found = candidates
            .iter()
            .find(|e| last.map(|l| e.id > l).unwrap_or(true))
            .or_else(|| candidates.first())
            .copied();
        match found {
            Some(e) => ids.push(e.id),
            None => return Err(i),
        }
    }
    Ok(ids)
}
