//! Simulated network for engines that run the real TCP client task (hook H3): every connection
//! attempt is resolved by a plan (accept / refuse / hang); accepted connections are pairs of
//! channels whose far ends are handed to whoever plays the server.

use crate::util::phys::PhysLayer;
use crate::verif::hooks::SimNet;
use crate::verif::io::{self, ChanRef, ChunkMode, SimSocket};
use crate::verif::kernel;
use std::collections::VecDeque;
use std::future::Future;
use std::net::SocketAddr;
use std::pin::Pin;
use std::sync::{Arc, Mutex};
use std::task::{Context, Poll, Waker};

#[derive(Clone, Copy, Debug, PartialEq)]
pub enum ConnectPlan {
    Accept,
    Refuse,
    /// no answer to the SYN: ends with the configured connect timeout, or with the operating system's own (modelled as
    /// `OS_CONNECT_TIMEOUT_MS`) - a real `connect()` never blocks for ever
    Hang,
}

/// the server side of an accepted connection
pub struct Accepted {
    /// octets written here are read by the client
    pub to_client: ChanRef,
    /// octets written by the client
    pub from_client: ChanRef,
    pub t_ms: u64,
}

struct NetState {
    plan: VecDeque<ConnectPlan>,
    accepted: VecDeque<Accepted>,
    accept_waker: Option<Waker>,
    chunk: ChunkMode,
    chunk_seed: u64,
    /// one-way latency (ms) client->server and server->client, with jitter
    latency: (u64, u64),
    jitter: (u64, u64),
    pub attempts: Vec<(u64, ConnectPlan)>,
}

#[derive(Clone)]
pub struct SimNetwork {
    inner: Arc<Mutex<NetState>>,
}

impl SimNetwork {
    pub fn new(chunk: ChunkMode, chunk_seed: u64) -> Self {
        Self {
            inner: Arc::new(Mutex::new(NetState {
                plan: VecDeque::new(),
                accepted: VecDeque::new(),
                accept_waker: None,
                chunk,
                chunk_seed,
                latency: (0, 0),
                jitter: (0, 0),
                attempts: Vec::new(),
            })),
        }
    }

    pub fn set_latency(&self, c2s: u64, s2c: u64, jitter_c2s: u64, jitter_s2c: u64) {
        let mut n = self.inner.lock().unwrap();
        n.latency = (c2s, s2c);
        n.jitter = (jitter_c2s, jitter_s2c);
    }

    pub fn plan(&self, p: ConnectPlan) {
        self.inner.lock().unwrap().plan.push_back(p);
    }

    pub fn clear_plan(&self) {
        self.inner.lock().unwrap().plan.clear();
    }

    pub fn take_accepted(&self) -> Option<Accepted> {
        self.inner.lock().unwrap().accepted.pop_front()
    }

    pub fn attempts(&self) -> Vec<(u64, ConnectPlan)> {
        self.inner.lock().unwrap().attempts.clone()
    }

    /// future resolving to the next accepted connection (for a simulated server task)
    pub fn accept(&self) -> AcceptFuture {
        AcceptFuture { net: self.clone() }
    }
}

pub struct AcceptFuture {
    net: SimNetwork,
}

impl Future for AcceptFuture {
    type Output = Accepted;
    fn poll(self: Pin<&mut Self>, cx: &mut Context<'_>) -> Poll<Accepted> {
        let mut n = self.net.inner.lock().unwrap();
        match n.accepted.pop_front() {
            Some(a) => Poll::Ready(a),
            None => {
                n.accept_waker = Some(cx.waker().clone());
                Poll::Pending
            }
        }
    }
}

/// what the operating system's SYN retries add up to when nobody answers (Windows: about 21 s, Linux: about 127 s)
pub const OS_CONNECT_TIMEOUT_MS: u64 = 21_000;

struct Never;
impl Future for Never {
    type Output = Option<PhysLayer>;
    fn poll(self: Pin<&mut Self>, _cx: &mut Context<'_>) -> Poll<Self::Output> {
        Poll::Pending
    }
}

impl SimNet for SimNetwork {
    fn connect(
        &self,
        _addr: SocketAddr,
    ) -> Pin<Box<dyn Future<Output = Option<PhysLayer>> + Send>> {
        let now = kernel::current().map(|c| c.now_ms()).unwrap_or(0);
        let mut n = self.inner.lock().unwrap();
        let plan = n.plan.pop_front().unwrap_or(ConnectPlan::Accept);
        n.attempts.push((now, plan));
        if let Some(core) = kernel::current() {
            core.count(
                match plan {
                    ConnectPlan::Accept => "net.connect_accepted",
                    ConnectPlan::Refuse => "fault.refuse",
                    ConnectPlan::Hang => "fault.connect_timeout",
                },
                1,
            );
            if core.log_enabled() {
                core.log(format!("net: connection attempt -> {:?}", plan));
            }
        }
        match plan {
            ConnectPlan::Refuse => Box::pin(std::future::ready(None)),
            ConnectPlan::Hang => Box::pin(async {
                tokio::time::sleep(std::time::Duration::from_millis(OS_CONNECT_TIMEOUT_MS)).await;
                None
            }),
            ConnectPlan::Accept => {
                let c2s = io::new_chan();
                let s2c = io::new_chan();
                {
                    let mut c = c2s.lock().unwrap();
                    c.latency_ms = n.latency.0;
                    c.jitter_ms = n.jitter.0;
                }
                {
                    let mut c = s2c.lock().unwrap();
                    c.latency_ms = n.latency.1;
                    c.jitter_ms = n.jitter.1;
                }
                n.chunk_seed = n.chunk_seed.wrapping_add(0x9E37);
                let sock =
                    SimSocket::new("client", s2c.clone(), c2s.clone(), n.chunk, n.chunk_seed)
                        .closing_on_drop();
                n.accepted.push_back(Accepted {
                    to_client: s2c,
                    from_client: c2s,
                    t_ms: now,
                });
                if let Some(w) = n.accept_waker.take() {
                    w.wake();
                }
                Box::pin(std::future::ready(Some(PhysLayer::Sim(Box::new(sock)))))
            }
        }
    }
}
