//! C12 - outstation replies are well-formed, correlated, bounded, and report rejections (engine S-OUT).

use crate::verif::nodes::outstation::{Cb, CtrlAnswers, PointCfg};
use crate::verif::props::c04::gen_controls;
use crate::verif::props::c05::gen_executed_request;
use crate::verif::props::gen_out::*;
use crate::verif::refcodec::app::{self as refapp, Range, ReqHeader};
use crate::verif::rng::{mix, Rng};
use crate::verif::runner::{erase, Codec, Outcome, Property, Scenario, Tier, Violation};
use crate::verif::sout::{
    self, ConfSel, Dest, Op, Oracle, SeqSel, SoutCase, Step, TimeBase, Who, World,
};
use std::collections::BTreeMap;

pub struct ReplyScenario;

pub fn property<C: Codec>() -> Property {
    Property {
        id: "C12",
        scenarios: vec![erase::<C, _>(ReplyScenario)],
    }
}

/// function codes the outstation implements
const IMPLEMENTED: [u8; 19] = [
    0, 1, 2, 3, 4, 5, 6, 7, 8, 9, 10, 11, 12, 13, 14, 20, 21, 23, 24,
];
const NO_ACK: [u8; 4] = [6, 8, 10, 12];

fn definitely_unknown_group(g: u8) -> bool {
    matches!(g, 5..=9 | 14..=19 | 24..=29 | 35..=39 | 44..=49 | 53..=59 | 61..=69 | 71..=79 | 89..=99 | 123..=254)
}

/// a header that is certainly rejected for the given function (or None)
fn gen_rejected_header(rng: &mut Rng, func: u8) -> ReqHeader {
    match rng.below(6) {
        0 => ReqHeader::all(
            *rng.pick(&[5u8, 9, 15, 27, 38, 49, 58, 77, 99, 200]),
            rng.range(1, 3) as u8,
        ),
        1 => ReqHeader {
            // start > stop
            group: 1,
            var: 2,
            range: Range::Range8(9, 3),
            data: vec![],
        },
        2 => match func {
            refapp::FUNC_WRITE => ReqHeader {
                group: 80,
                var: 1,
                range: Range::Range8(4, 4),
                data: vec![0],
            },
            _ => ReqHeader::all(*rng.pick(&[6u8, 16, 26]), 1),
        },
        3 => match func {
            refapp::FUNC_SELECT | refapp::FUNC_OPERATE | refapp::FUNC_DIRECT_OPERATE => {
                ReqHeader::all(60, 1)
            }
            refapp::FUNC_IMMED_FREEZE | refapp::FUNC_FREEZE_CLEAR => ReqHeader::all(30, 0),
            refapp::FUNC_WRITE => ReqHeader {
                group: 80,
                var: 1,
                range: Range::Range8(7, 7),
                data: vec![1],
            },
            _ => ReqHeader::all(7, 1),
        },
        4 => ReqHeader {
            // count header announcing more objects than present (truncated)
            group: 50,
            var: 1,
            range: Range::Count8(3),
            data: vec![1, 2, 3, 4, 5, 6],
        },
        _ => ReqHeader::all(*rng.pick(&[8u8, 18, 28, 37, 47, 57]), 0),
    }
}

impl Scenario for ReplyScenario {
    type Case = SoutCase;

    fn name(&self) -> &'static str {
        "replies"
    }

    fn runs(&self, tier: Tier) -> u64 {
        match tier {
            Tier::Quick => 90_000,
            Tier::Thorough => 2_400_000,
        }
    }

    fn rule(&self) -> String {
        "requests with every function code 0..=255, every FIR/FIN/CON/UNS combination, object headers that are supported, unsupported for the function, \
         unknown, truncated, raw garbage bodies up to the receive buffer, multi-header requests where only some headers are acceptable, oversize control \
         echoes (tx 249..2048, rx 249..2048), sent in idle, solicited confirm wait and unsolicited confirm wait; every transmitted fragment is checked for \
         size, clean decoding (reference decoder, every octet consumed), function/UNS/FIR/FIN/CON/sequence correlation; clear-cut rejections must be \
         answered with IIN2 error bits, CONFIRM and no-ack functions never answered; non-trivial = a multi-header request with mixed acceptability or an \
         oversize echo; distinct = hash of (function class, flags, state, verdict)"
            .to_string()
    }

    fn real_components(&self) -> Vec<&'static str> {
        vec![
            "outstation::session::OutstationSession",
            "app::parse (request parser, header validation)",
            "outstation::control::collection",
            "outstation::database (response writers)",
            "transport::real",
            "link::layer/reader/parser",
        ]
    }

    fn stub_components(&self) -> Vec<&'static str> {
        vec![
            "physical layer (SimSocket)",
            "TCP accept loop",
            "user callbacks (recording stubs)",
            "scripted master peer (reference codec)",
        ]
    }

    fn generate(&self, rng: &mut Rng, _tier: Tier) -> SoutCase {
        let mut cfg = gen_event_cfg(rng);
        cfg.event_buffers = [10; 8];
        cfg.sol_tx = *rng.pick(&[249usize, 249, 300, 512, 2048]);
        cfg.unsol_tx = *rng.pick(&[249usize, 300, 2048]);
        cfg.rx = *rng.pick(&[249usize, 512, 2048, 2048]);
        cfg.max_controls = if rng.chance(1, 5) {
            Some(rng.range(1, 4) as u16)
        } else {
            None
        };
        let nt = rng.range(1, 3) as usize;
        let sparse = rng.chance(1, 4);
        // now and then a database large enough for READ responses of several fragments ("each transmitted fragment fits the
        // configured transmit size and parses cleanly" includes the later fragments and their echoes)
        let large = rng.chance(1, 5);
        cfg.points = gen_points(rng, nt, if large { 60 } else { 3 }, sparse, false);
        let mut clock = 3_000_000u64;
        let mut script = Vec::new();
        if cfg.unsolicited && rng.chance(2, 3) {
            script.push(Op::Confirm {
                uns: true,
                seq: ConfSel::Expected,
                from: Who::Master,
            });
            if rng.bool() {
                script.push(unsol_op(rng, true));
            }
        }
        let n = rng.urange(2, 14);
        for _ in 0..n {
            // optionally move the session into a confirm wait first
            match rng.below(8) {
                0 => {
                    let mut u = gen_update(rng, &cfg.points, &mut clock);
                    u.event_mode = 1;
                    script.push(Op::Update(u));
                    script.push(read_op(vec![
                        class_header(1, None),
                        class_header(2, None),
                        class_header(3, None),
                    ]));
                }
                1 => {
                    let mut u = gen_update(rng, &cfg.points, &mut clock);
                    u.event_mode = 1;
                    script.push(Op::Update(u));
                }
                2 => script.push(Op::Confirm {
                    uns: rng.bool(),
                    seq: ConfSel::Expected,
                    from: Who::Master,
                }),
                3 => script.push(Op::SleepRel {
                    base: TimeBase::ConfirmTimeout,
                    delta_ms: 1,
                    since_last_tx: true,
                }),
                4 if rng.chance(1, 2) => {
                    // the session ends where it stands - a cut, or a new connection replacing the running one - for instance
                    // while an unsolicited response awaits its confirmation; numbering and correlation start over with the next
                    if rng.bool() {
                        script.push(Op::Disconnect { eof: rng.bool() });
                    }
                    script.push(Op::Connect);
                }
                _ => {}
            }
            if large && rng.chance(1, 3) {
                // a class 0 poll answered in several fragments; the master confirms some of them and then sends the READ again
                // while a later fragment awaits its confirmation: what comes back is an echo of that fragment
                script.push(read_op(vec![class_header(0, None)]));
                for _ in 0..rng.urange(0, 3) {
                    script.push(Op::Confirm { uns: false, seq: ConfSel::Expected, from: Who::Master });
                }
                script.push(Op::Repeat);
                if rng.bool() {
                    script.push(Op::Confirm { uns: false, seq: ConfSel::Expected, from: Who::Master });
                }
            }
            script.push(gen_request(rng, &cfg.points, cfg.rx));
            if rng.chance(1, 8) {
                // something answered with an error and not taken for a request, then the previous request again: its reply
                // carries the number of the request it answers, not that of the error response sent in between
                script.push(Op::UnknownFunction(*rng.pick(&[0x70u8, 0x22, 0x7F, 0x63])));
                script.push(Op::Repeat);
            }
            if cfg.unsolicited && rng.chance(1, 6) {
                // a READ that has to be rejected arrives while an unsolicited response awaits its confirmation: it is deferred
                // and answered - with its error bit - once the series ends (by the confirmation or by the time-out)
                script.push(Op::Confirm { uns: true, seq: ConfSel::Expected, from: Who::Master });
                script.push(Op::Request {
                    func: refapp::FUNC_ENABLE_UNSOL,
                    seq: SeqSel::Next,
                    headers: vec![class_header(1, None), class_header(2, None), class_header(3, None)],
                    flags: None,
                    from: Who::Master,
                    to: Dest::Own,
                });
                let mut u = gen_update(rng, &cfg.points, &mut clock);
                u.event_mode = 1;
                script.push(Op::Update(u));
                let mut headers = vec![if rng.bool() {
                    gen_rejected_header(rng, refapp::FUNC_READ)
                } else {
                    // parses, but cannot be read
                    let (g, v) = *rng.pick(&[(1u8, 2u8), (30, 1), (2, 1), (12, 1), (41, 2)]);
                    ReqHeader { group: g, var: v, range: if rng.bool() { Range::Prefix8(rng.range(1, 3) as u8) } else { Range::Prefix16(rng.range(1, 3) as u16) }, data: vec![] }
                }];
                if rng.bool() {
                    headers.push(class_header(0, None));
                }
                if rng.bool() {
                    headers.insert(0, class_header(rng.range(1, 3) as u8, None));
                }
                if rng.chance(1, 4) {
                    // every header is fine - there are just more of them than the outstation accepts in one READ
                    headers = (0..rng.urange(65, 70))
                        .map(|_| {
                            let (g, v) = *rng.pick(&[(30u8, 1u8), (1, 2), (20, 1), (10, 2)]);
                            let i = rng.below(3) as u8;
                            ReqHeader { group: g, var: v, range: Range::Range8(i, i), data: vec![] }
                        })
                        .collect();
                }
                script.push(Op::Request { func: refapp::FUNC_READ, seq: SeqSel::Next, headers, flags: None, from: Who::Master, to: Dest::Own });
                if rng.bool() {
                    script.push(Op::Confirm { uns: true, seq: ConfSel::Expected, from: Who::Master });
                } else {
                    script.push(Op::SleepRel { base: TimeBase::ConfirmTimeout, delta_ms: 1, since_last_tx: true });
                }
            }
        }
        crate::verif::props::gen_out::sprinkle_splits(rng, &mut script);
        SoutCase {
            cfg,
            ctrl: if rng.chance(3, 4) {
                CtrlAnswers::AllSuccess
            } else {
                CtrlAnswers::Random {
                    seed: rng.next_u64(),
                    success_eighths: 5,
                }
            },
            chunk: rng.below(5) as u8,
            chunk_seed: rng.next_u64(),
            script,
        }
    }

    fn shrink(&self, case: &SoutCase) -> Vec<SoutCase> {
        sout::shrink_case(case)
    }

    fn execute(&self, case: &SoutCase, log: bool) -> Outcome {
        sout::execute("C12", case, case.chunk_seed, log, |c| ReplyOracle::new(c))
    }
}

pub fn gen_request(rng: &mut Rng, points: &[PointCfg], rx: usize) -> Op {
    match rng.below(12) {
        0..=2 => gen_executed_request(rng, points, Dest::Own),
        3 => {
            // any function code with plausible or no objects
            let func = if rng.bool() {
                rng.u8()
            } else {
                *rng.pick(&[
                    0u8, 15, 16, 17, 18, 19, 22, 25, 26, 27, 28, 29, 30, 31, 32, 33, 34, 70, 128,
                    129, 130, 131, 255,
                ])
            };
            let headers = match rng.below(3) {
                0 => vec![],
                1 => vec![ReqHeader::all(60, 1)],
                _ => gen_controls(rng),
            };
            Op::Request {
                func,
                seq: SeqSel::Next,
                headers,
                flags: None,
                from: Who::Master,
                to: Dest::Own,
            }
        }
        4 => {
            // every header-flag combination
            let op = gen_executed_request(rng, points, Dest::Own);
            match op {
                Op::Request {
                    func,
                    seq,
                    headers,
                    from,
                    to,
                    ..
                } => Op::Request {
                    func,
                    seq,
                    headers,
                    flags: Some((rng.below(16) as u8) << 4),
                    from,
                    to,
                },
                o => o,
            }
        }
        5 | 6 => {
            // multi-header with mixed acceptability
            let func = *rng.pick(&[
                refapp::FUNC_READ,
                refapp::FUNC_WRITE,
                refapp::FUNC_SELECT,
                refapp::FUNC_DIRECT_OPERATE,
                refapp::FUNC_IMMED_FREEZE,
                refapp::FUNC_ENABLE_UNSOL,
            ]);
            let good: Vec<ReqHeader> = match func {
                refapp::FUNC_READ => gen_event_read(rng, points),
                refapp::FUNC_WRITE => vec![ReqHeader {
                    group: 80,
                    var: 1,
                    range: Range::Range8(7, 7),
                    data: vec![0],
                }],
                refapp::FUNC_SELECT | refapp::FUNC_DIRECT_OPERATE => gen_controls(rng),
                refapp::FUNC_IMMED_FREEZE => vec![ReqHeader::all(20, 0)],
                _ => vec![ReqHeader::all(60, 2)],
            };
            let bad = gen_rejected_header(rng, func);
            let mut headers = Vec::new();
            match rng.below(3) {
                0 => {
                    headers.push(bad);
                    headers.extend(good);
                }
                1 => {
                    headers.extend(good);
                    headers.push(bad);
                }
                _ => {
                    headers.extend(good.clone());
                    headers.push(bad);
                    headers.extend(good);
                }
            }
            Op::Request {
                func,
                seq: SeqSel::Next,
                headers,
                flags: None,
                from: Who::Master,
                to: Dest::Own,
            }
        }
        7 => {
            // oversize control echo: many control objects
            let count = rng.urange(15, 60);
            let mut data = Vec::new();
            for i in 0..count {
                data.push(i as u8);
                data.extend(refapp::crob(0x01, 1, 100, 0, 0));
            }
            let func = *rng.pick(&[
                refapp::FUNC_SELECT,
                refapp::FUNC_OPERATE,
                refapp::FUNC_DIRECT_OPERATE,
            ]);
            Op::Request {
                func,
                seq: SeqSel::Next,
                headers: vec![ReqHeader {
                    group: 12,
                    var: 1,
                    range: Range::Prefix8(count as u8),
                    data,
                }],
                flags: None,
                from: Who::Master,
                to: Dest::Own,
            }
        }
        8 => {
            // raw garbage after a plausible application header
            let n = rng.urange(0, rx.min(600));
            let mut bytes = vec![
                0xC0 | rng.below(16) as u8,
                *rng.pick(&[1u8, 2, 3, 5, 7, 20, 23]),
            ];
            bytes.extend(rng.bytes(n));
            Op::Raw {
                bytes,
                from: Who::Master,
                to: Dest::Own,
            }
        }
        9 => {
            // truncated request
            let op = gen_executed_request(rng, points, Dest::Own);
            if let Op::Request { func, headers, .. } = op {
                let mut bytes = refapp::build_request(
                    refapp::Ctrl::request(rng.below(16) as u8),
                    func,
                    &headers,
                );
                let cut = rng.urange(0, bytes.len().saturating_sub(1));
                bytes.truncate(cut);
                Op::Raw {
                    bytes,
                    from: Who::Master,
                    to: Dest::Own,
                }
            } else {
                Op::Sleep(1)
            }
        }
        10 => Op::Confirm {
            uns: rng.bool(),
            seq: ConfSel::Fixed(rng.below(16) as u8),
            from: Who::Master,
        },
        _ => Op::Request {
            func: *rng.pick(&[refapp::FUNC_READ, refapp::FUNC_WRITE]),
            seq: SeqSel::Next,
            headers: vec![gen_rejected_header(rng, refapp::FUNC_READ)],
            flags: None,
            from: Who::Master,
            to: Dest::Own,
        },
    }
}

pub struct ReplyOracle {
    master: u16,
    own: u16,
    sol_tx: usize,
    unsol_tx: usize,
    rx: usize,
    last_unsol: Option<Vec<u8>>,
    resync_unsol: bool,
    last_sol_seq: Option<u8>,
    last_request_seq: Option<u8>,
    last_read_seq: Option<u8>,
    /// sequence number of a READ that arrived while an unsolicited response awaited its confirmation and has not been answered
    /// yet: it is answered when that wait ends, in a later step, unless another request supersedes it
    deferred_read_seq: Option<u8>,
    unsol_pending: bool,
    /// a READ that must be rejected and was deferred (unsolicited confirm wait): (sequence number, why, step it was sent in)
    deferred_reject: Option<(u8, &'static str, usize)>,
    nontrivial: bool,
    fp: u64,
    counters: BTreeMap<String, u64>,
}

impl ReplyOracle {
    pub fn new(case: &SoutCase) -> Self {
        Self {
            master: case.cfg.master_addr,
            own: case.cfg.outstation_addr,
            sol_tx: case.cfg.sol_tx,
            unsol_tx: case.cfg.unsol_tx,
            rx: case.cfg.rx,
            last_unsol: None,
            resync_unsol: true,
            last_sol_seq: None,
            last_request_seq: None,
            last_read_seq: None,
            deferred_read_seq: None,
            unsol_pending: false,
            deferred_reject: None,
            nontrivial: false,
            fp: 0,
            counters: BTreeMap::new(),
        }
    }

    fn bump(&mut self, k: &str) {
        *self.counters.entry(k.to_string()).or_insert(0) += 1;
    }
}

/// clear-cut reasons for which the request must be rejected (None = not clear-cut)
fn must_reject(bytes: &[u8]) -> Option<&'static str> {
    if bytes.len() < 2 {
        return None;
    }
    let func = bytes[1];
    if func >= 129 {
        // a response function code: not a request at all (the statement is about requests), silence is fine
        return None;
    }
    if !IMPLEMENTED.contains(&func) {
        return Some("function-not-implemented");
    }
    if func == refapp::FUNC_CONFIRM {
        return None;
    }
    let data_present = func != refapp::FUNC_READ;
    match refapp::decode_objects(&bytes[2..], data_present) {
        Err(refapp::DecodeError::Truncated { .. }) => Some("truncated-object-data"),
        Err(refapp::DecodeError::BadRange { .. }) => Some("range-start-after-stop"),
        Err(refapp::DecodeError::UnknownQualifier(q)) => {
            if matches!(q, 0x00 | 0x01 | 0x06 | 0x07 | 0x08 | 0x17 | 0x28 | 0x5B) {
                None
            } else {
                Some("unknown-qualifier")
            }
        }
        Err(refapp::DecodeError::UnknownObject(g, _)) => {
            if definitely_unknown_group(g) {
                Some("unknown-object")
            } else {
                None
            }
        }
        Err(_) => None,
        Ok((headers, objects)) => {
            for h in &headers {
                if definitely_unknown_group(h.group) {
                    return Some("unknown-object");
                }
            }
            match func {
                refapp::FUNC_WRITE => {
                    for o in &objects {
                        if o.group == 80 && o.var == 1 && (o.index != Some(7) || o.raw != vec![0]) {
                            return Some("write-iin-other-than-restart-clear");
                        }
                    }
                    None
                }
                refapp::FUNC_SELECT | refapp::FUNC_OPERATE | refapp::FUNC_DIRECT_OPERATE => {
                    if headers.iter().any(|h| h.group != 12 && h.group != 41) {
                        Some("non-control-object-in-control-request")
                    } else {
                        None
                    }
                }
                refapp::FUNC_READ => {
                    // index-prefixed headers address objects the request would have to carry: nothing to read
                    if headers.iter().any(|h| matches!(h.qualifier, 0x17 | 0x28)) {
                        Some("read-with-index-prefix-qualifier")
                    } else if headers.len() > 64 && headers.iter().all(|h| h.group != 60 && matches!(h.qualifier, 0x00 | 0x01)) {
                        // (the documented limit: `max_read_request_headers`, never less than 64; the workload leaves it at 64.
                        // Every range header takes one of the places; what class headers take is not modelled)
                        Some("more-read-headers-than-accepted")
                    } else {
                        None
                    }
                }
                refapp::FUNC_IMMED_FREEZE | refapp::FUNC_FREEZE_CLEAR => {
                    if headers.iter().any(|h| h.group != 20) {
                        Some("freeze-of-non-counter")
                    } else {
                        None
                    }
                }
                _ => None,
            }
        }
    }
}

impl Oracle for ReplyOracle {
    fn step(&mut self, _world: &World, step: &Step) -> Option<Violation> {
        if step.connected || step.disconnected {
            self.resync_unsol = true;
            self.last_sol_seq = None;
            self.last_request_seq = None;
            self.last_read_seq = None;
            self.deferred_read_seq = None;
            self.unsol_pending = false;
            self.deferred_reject = None;
        }
        for (_, cb) in &step.callbacks {
            if let Cb::Info(s) = cb {
                if s.starts_with("unsolicited_confirmed")
                    || (s.starts_with("unsolicited_confirm_timeout") && s.ends_with("false"))
                {
                    self.unsol_pending = false;
                }
            }
        }
        let sent = if step.link_up {
            step.sent.clone()
        } else {
            None
        };
        let from_master_unicast = sent
            .as_ref()
            .map(|s| s.src == self.master && s.dest == self.own)
            .unwrap_or(false);
        let was_unsol_pending = self.unsol_pending;
        // a FIR response that carries the number of a CONFIRM may be the deferred READ being answered, not a reply to the confirm
        let answers_deferred_read = match (&sent, self.deferred_read_seq) {
            (Some(s), Some(d)) => s.bytes.len() >= 2 && s.bytes[0] & 0x0F == d,
            _ => false,
        };
        if let Some(s) = &sent {
            if from_master_unicast
                && s.bytes.len() >= 2
                && s.bytes.len() <= self.rx
                && s.bytes[1] != refapp::FUNC_CONFIRM
            {
                self.last_request_seq = Some(s.bytes[0] & 0x0F);
                // (any new request supersedes a deferred READ)
                self.deferred_read_seq = None;
                if s.bytes[1] == refapp::FUNC_READ {
                    self.last_read_seq = Some(s.bytes[0] & 0x0F);
                }
            }
        }

        // a deferred READ that must be rejected is answered later (when the unsolicited series ends) - with its error bit;
        // any other request in between supersedes it
        if let Some((dseq, why, at)) = self.deferred_reject {
            let superseded = sent.as_ref().map(|s| s.bytes.len() >= 2 && s.bytes[1] != refapp::FUNC_CONFIRM && s.src == self.master).unwrap_or(false);
            if superseded || !matches!(step.op, Op::Confirm { .. } | Op::Sleep(_) | Op::SleepRel { .. } | Op::Update(_) | Op::UpdateAtLock { .. }) {
                self.deferred_reject = None;
            } else {
                for rx in &step.received {
                    let b = &rx.bytes;
                    if b.len() >= 4 && b[1] == refapp::FUNC_RESPONSE && b[0] & 0x80 != 0 && b[0] & 0x0F == dseq {
                        self.deferred_reject = None;
                        self.bump("probe.deferred_rejected_read_answered");
                        if b[3] & 0x07 == 0 {
                            return Some(Violation::new(
                                "C12/rejection-answered-clean",
                                format!("{} func=1 deferred", why),
                                format!(
                                    "step {}: the READ sent in step {} (sequence {}, {}) was deferred and is now answered with a clean IIN2: {}",
                                    step.op_index,
                                    at,
                                    dseq,
                                    why,
                                    crate::verif::io::hex(&b[..b.len().min(40)])
                                ),
                            ));
                        }
                        break;
                    }
                }
            }
        }

        // --- every transmitted fragment ---
        let mut sol_in_step: Vec<&crate::verif::nodes::peer::RxFragment> = Vec::new();
        for rx in &step.received {
            let b = &rx.bytes;
            if b.len() < 4 {
                return Some(Violation::new(
                    "C12/fragment-too-short",
                    "",
                    format!(
                        "step {}: transmitted fragment {}",
                        step.op_index,
                        crate::verif::io::hex(b)
                    ),
                ));
            }
            let func = b[1];
            let ctrl = refapp::Ctrl::from_u8(b[0]);
            let unsol = func == refapp::FUNC_UNSOL_RESPONSE;
            if func != refapp::FUNC_RESPONSE && func != refapp::FUNC_UNSOL_RESPONSE {
                return Some(Violation::new(
                    "C12/response-function",
                    format!("func={}", func),
                    format!(
                        "step {}: transmitted fragment has function {}",
                        step.op_index, func
                    ),
                ));
            }
            let limit = if unsol { self.unsol_tx } else { self.sol_tx };
            if b.len() > limit {
                return Some(Violation::new(
                    "C12/fragment-exceeds-tx-size",
                    if unsol { "unsolicited" } else { "solicited" },
                    format!(
                        "step {}: fragment of {} octets exceeds the configured {} octets",
                        step.op_index,
                        b.len(),
                        limit
                    ),
                ));
            }
            if rx.frag.is_none() {
                return Some(Violation::new(
                    "C12/fragment-does-not-parse",
                    rx.decode_error
                        .clone()
                        .unwrap_or_default()
                        .split('{')
                        .next()
                        .unwrap_or("")
                        .trim()
                        .to_string(),
                    format!(
                        "step {}: transmitted fragment does not decode ({}): {}",
                        step.op_index,
                        rx.decode_error.clone().unwrap_or_default(),
                        crate::verif::io::hex(&b[..b.len().min(80)])
                    ),
                ));
            }
            if unsol {
                if !(ctrl.uns && ctrl.fir && ctrl.fin && ctrl.con) {
                    return Some(Violation::new(
                        "C12/unsolicited-flags",
                        format!("{:02X}", b[0] & 0xF0),
                        format!(
                            "step {}: unsolicited response with control octet {:02X}",
                            step.op_index, b[0]
                        ),
                    ));
                }
                // across a session change numbers may be skipped (a response written into a dying connection is never seen), but
                // the series of the old session is over: whatever comes first on the new one is a new response and does not
                // take the number of the last one seen
                let prev_session_seq = if self.resync_unsol { self.last_unsol.as_ref().map(|p| p[0] & 0x0F) } else { None };
                if let Some(prev_seq) = prev_session_seq {
                    self.bump("probe.first_unsolicited_after_session_change");
                    if ctrl.seq == prev_seq {
                        return Some(Violation::new(
                            "C12/unsolicited-sequence",
                            "reused-across-session-change",
                            format!(
                                "step {}: the first unsolicited response of the new session carries sequence {} like the last one of the previous session",
                                step.op_index, ctrl.seq
                            ),
                        ));
                    }
                }
                if let (Some(prev), false) = (&self.last_unsol, self.resync_unsol) {
                    let prev_seq = prev[0] & 0x0F;
                    let retry = prev == b;
                    if !retry && ctrl.seq != (prev_seq + 1) & 0x0F {
                        return Some(Violation::new(
                            "C12/unsolicited-sequence",
                            if ctrl.seq == prev_seq {
                                "reused-with-different-content"
                            } else {
                                "not-consecutive"
                            },
                            format!(
                                "step {}: unsolicited sequence {} after {}",
                                step.op_index, ctrl.seq, prev_seq
                            ),
                        ));
                    }
                }
                self.resync_unsol = false;
                self.last_unsol = Some(b.clone());
                self.unsol_pending = true;
            } else {
                if ctrl.uns {
                    return Some(Violation::new(
                        "C12/solicited-with-uns-bit",
                        "",
                        format!(
                            "step {}: solicited response with UNS set: {:02X}",
                            step.op_index, b[0]
                        ),
                    ));
                }
                if ctrl.fir {
                    let ok = Some(ctrl.seq) == self.last_request_seq
                        || Some(ctrl.seq) == self.deferred_read_seq;
                    if Some(ctrl.seq) == self.deferred_read_seq {
                        self.deferred_read_seq = None;
                        self.bump("probe.deferred_read_answered_in_a_later_step");
                    }
                    if !ok {
                        return Some(Violation::new(
                            "C12/solicited-sequence",
                            "first-fragment",
                            format!(
                                "step {}: solicited response seq {} answers no request (last request seq {:?}, last READ seq {:?})",
                                step.op_index, ctrl.seq, self.last_request_seq, self.last_read_seq
                            ),
                        ));
                    }
                } else if let Some(prev) = self.last_sol_seq {
                    // an echo repeats the previous sequence number, a new fragment continues it
                    if ctrl.seq != (prev + 1) & 0x0F && ctrl.seq != prev {
                        return Some(Violation::new(
                            "C12/solicited-sequence",
                            "later-fragment",
                            format!(
                                "step {}: non-FIR fragment seq {} after seq {}",
                                step.op_index, ctrl.seq, prev
                            ),
                        ));
                    }
                }
                self.last_sol_seq = Some(ctrl.seq);
                sol_in_step.push(rx);
            }
        }

        // a READ that went unanswered while an unsolicited response was (or came to be) awaiting its confirmation is deferred
        if let (Some(s), true) = (&sent, from_master_unicast) {
            let b = &s.bytes;
            if b.len() >= 2 && b.len() <= self.rx && b[1] == refapp::FUNC_READ {
                let seq = b[0] & 0x0F;
                let unsol_began = step
                    .received
                    .iter()
                    .any(|rx| rx.bytes.len() >= 2 && rx.bytes[1] == refapp::FUNC_UNSOL_RESPONSE);
                let answered = sol_in_step.iter().any(|r| r.bytes[0] & 0x8F == 0x80 | seq);
                if (was_unsol_pending || unsol_began) && !answered {
                    self.deferred_read_seq = Some(seq);
                }
            }
        }

        // --- the request of this step ---
        let mut verdict = 0u64;
        if let (Some(s), true) = (&sent, from_master_unicast) {
            let b = &s.bytes;
            // a fragment larger than the receive buffer never reaches the application layer
            if b.len() >= 2 && b.len() <= self.rx {
                let func = b[1];
                let seq = b[0] & 0x0F;
                let flags_ok = b[0] & 0xF0 == 0xC0;
                let replies: Vec<&&crate::verif::nodes::peer::RxFragment> = sol_in_step
                    .iter()
                    .filter(|r| r.bytes[0] & 0x0F == seq && r.bytes[0] & 0x80 != 0)
                    .collect();
                if func == refapp::FUNC_CONFIRM && flags_ok
                    || (func == refapp::FUNC_CONFIRM && b[0] & 0xE0 == 0xC0)
                {
                    // a CONFIRM is never answered (a following fragment of a series is not a reply to it: it is non-FIR)
                    if b.len() == 2 && !replies.is_empty() && !matches!(step.op, Op::Repeat) {
                        let r = replies[0];
                        // a FIR response with this sequence number may legitimately be a deferred READ being answered
                        if !answers_deferred_read {
                            return Some(Violation::new(
                                "C12/confirm-answered",
                                "",
                                format!(
                                    "step {}: CONFIRM answered with {}",
                                    step.op_index,
                                    crate::verif::io::hex(&r.bytes)
                                ),
                            ));
                        }
                    }
                    verdict = 1;
                } else if flags_ok {
                    let reject = must_reject(b);
                    if NO_ACK.contains(&func) {
                        verdict = 2;
                        match reject {
                            None => {
                                if refapp::decode_objects(&b[2..], true).is_ok()
                                    && !replies.is_empty()
                                {
                                    return Some(Violation::new(
                                        "C12/no-ack-function-answered",
                                        format!("func={}", func),
                                        format!(
                                            "step {}: function {} answered with {}",
                                            step.op_index,
                                            func,
                                            crate::verif::io::hex(&replies[0].bytes)
                                        ),
                                    ));
                                }
                            }
                            Some(_) => {
                                // silence or an error reply; a clean reply is wrong
                                if let Some(r) = replies.first() {
                                    if r.bytes[3] & 0x07 == 0 {
                                        return Some(Violation::new(
                                            "C12/rejected-no-ack-answered-clean",
                                            format!("func={}", func),
                                            format!(
                                                "step {}: {}",
                                                step.op_index,
                                                crate::verif::io::hex(&r.bytes)
                                            ),
                                        ));
                                    }
                                }
                            }
                        }
                    } else if let Some(why) = reject {
                        verdict = 3;
                        // (a READ that arrives during a solicited confirm wait ends that wait; an unsolicited series may then begin
                        // before the READ is looked at, which defers it just the same)
                        let unsol_began = step
                            .received
                            .iter()
                            .any(|rx| rx.bytes.len() >= 2 && rx.bytes[1] == refapp::FUNC_UNSOL_RESPONSE);
                        let deferred = func == refapp::FUNC_READ && (was_unsol_pending || unsol_began);
                        if why != "function-not-implemented" && b.len() > 4 {
                            self.nontrivial = self.nontrivial
                                || refapp::decode_objects(&b[2..], func != refapp::FUNC_READ)
                                    .map(|h| h.0.len() >= 2)
                                    .unwrap_or(true);
                        }
                        self.bump(&format!("probe.reject.{}", why));
                        match replies.first() {
                            None => {
                                if deferred {
                                    self.deferred_reject = Some((seq, why, step.op_index));
                                    self.bump("probe.rejected_read_deferred");
                                }
                                if !deferred {
                                    return Some(Violation::new(
                                        "C12/rejection-not-answered",
                                        format!("{} func={}", why, func),
                                        format!(
                                            "step {}: request {} ({}) was met with silence",
                                            step.op_index,
                                            crate::verif::io::hex(&b[..b.len().min(40)]),
                                            why
                                        ),
                                    ));
                                }
                            }
                            Some(r) => {
                                if r.bytes[3] & 0x07 == 0 {
                                    return Some(Violation::new(
                                        "C12/rejection-answered-clean",
                                        format!("{} func={}", why, func),
                                        format!(
                                            "step {}: request {} ({}) was answered with IIN2 {:02X}: {}",
                                            step.op_index,
                                            crate::verif::io::hex(&b[..b.len().min(40)]),
                                            why,
                                            r.bytes[3],
                                            crate::verif::io::hex(&r.bytes[..r.bytes.len().min(40)])
                                        ),
                                    ));
                                }
                            }
                        }
                    } else {
                        verdict = 4;
                    }
                    // oversize echo probe
                    if matches!(func, 3 | 4 | 5) && b.len() > self.sol_tx {
                        self.nontrivial = true;
                        self.bump("probe.oversize_echo");
                    }
                } else {
                    verdict = 5; // unusual header flags: only the per-fragment checks apply
                }
                self.fp = mix(&[
                    self.fp,
                    (func as u64).min(40),
                    (b[0] >> 4) as u64,
                    was_unsol_pending as u64,
                    verdict,
                    replies.len().min(2) as u64,
                ]);
            }
        }
        None
    }

    fn nontrivial(&self) -> bool {
        self.nontrivial
    }

    fn fingerprint(&self) -> u64 {
        self.fp
    }

    fn counters(&self) -> Vec<(String, u64)> {
        self.counters.iter().map(|(k, v)| (k.clone(), *v)).collect()
    }
}
