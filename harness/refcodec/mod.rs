pub mod link;
pub mod transport;
pub mod app;
