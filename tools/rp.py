#!/usr/bin/env python3
import json,sys
d=json.load(open(sys.argv[1]))
n=int(sys.argv[2]) if len(sys.argv)>2 else 40
c=d['case']
if 'latency' in c: print('latency',c['latency'],'timeout', c['cfg']['assocs'][0].get('response_timeout_ms'), 'chunk',c.get('chunk'))
for i,o in enumerate(c['script']): print(i, json.dumps(o)[:220])
for l in d['log_tail'][-n:]: print(l[:240])
