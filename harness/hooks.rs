//! Entry points called from the `#[cfg(dnp3_verif)]` hooks in /repo (H3, H4).

use crate::util::phys::PhysLayer;
use std::future::Future;
use std::net::SocketAddr;
use std::pin::Pin;
use std::time::Duration;

/// simulated network, installed per world by the S-PAIR engine
pub trait SimNet: Send + Sync {
    /// resolve a connection attempt: Some(phys) = connected, None = refused; the future may stay
    /// pending forever (connect timeout is then applied by the caller)
    fn connect(&self, addr: SocketAddr) -> Pin<Box<dyn Future<Output = Option<PhysLayer>> + Send>>;
}

/// H4: called right before every `Mutex::lock` of `DatabaseHandle`
pub(crate) fn lock_point(site: &'static str) {
    if let Some(core) = super::kernel::current() {
        core.lock_point(site);
    }
}

/// H5: the transport reader handed a complete fragment to the application layer (the moment it is processed)
pub(crate) fn fragment_popped(source: u16, data: &[u8]) {
    if let Some(core) = super::kernel::current() {
        core.fragment_popped(source, data);
    }
}

/// H5: the transport reader handed a link-layer message (link status request / response) to the application layer;
/// recorded as a popped "fragment" without octets: [0xFF, 1] for a LINK_STATUS response, [0xFF, 0] for a request
pub(crate) fn link_message_popped(source: u16, is_response: bool) {
    if let Some(core) = super::kernel::current() {
        core.fragment_popped(source, &[0xFF, is_response as u8]);
    }
}

/// H3: is a simulated network installed for this thread?
pub(crate) fn network_installed() -> bool {
    match super::kernel::current() {
        Some(core) => core.net().is_some(),
        None => false,
    }
}

/// H3: connect through the simulated network
pub(crate) async fn sim_connect(addr: SocketAddr, timeout: Option<Duration>) -> Option<PhysLayer> {
    let net = super::kernel::current()?.net()?;
    let fut = net.connect(addr);
    match timeout {
        None => fut.await,
        Some(t) => match tokio::time::timeout(t, fut).await {
            Ok(x) => x,
            Err(_) => {
                tracing::warn!(
                    "sim: unable to connect to {} within timeout of {:?}",
                    addr,
                    t
                );
                None
            }
        },
    }
}
