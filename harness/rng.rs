//! Seeded PRNG (splitmix64 seeding + xoshiro256**). Every random choice of a simulated run
//! comes from an instance of this generator derived from VERIF_SEED; nothing else is random.

#[derive(Clone, Debug)]
pub struct Rng {
    s: [u64; 4],
}

pub fn splitmix(x: &mut u64) -> u64 {
    *x = x.wrapping_add(0x9E37_79B9_7F4A_7C15);
    let mut z = *x;
    z = (z ^ (z >> 30)).wrapping_mul(0xBF58_476D_1CE4_E5B9);
    z = (z ^ (z >> 27)).wrapping_mul(0x94D0_49BB_1331_11EB);
    z ^ (z >> 31)
}

/// mix several integers into one seed
pub fn mix(parts: &[u64]) -> u64 {
    let mut acc = 0x1234_5678_9ABC_DEF0u64;
    for p in parts {
        acc ^= *p;
        let mut t = acc;
        acc = splitmix(&mut t) ^ t.rotate_left(17);
    }
    acc
}

impl Rng {
    pub fn new(seed: u64) -> Self {
        let mut x = seed;
        let s = [
            splitmix(&mut x),
            splitmix(&mut x),
            splitmix(&mut x),
            splitmix(&mut x),
        ];
        Self { s }
    }

    pub fn next_u64(&mut self) -> u64 {
        let result = self.s[1].wrapping_mul(5).rotate_left(7).wrapping_mul(9);
        let t = self.s[1] << 17;
        self.s[2] ^= self.s[0];
        self.s[3] ^= self.s[1];
        self.s[1] ^= self.s[2];
        self.s[0] ^= self.s[3];
        self.s[2] ^= t;
        self.s[3] = self.s[3].rotate_left(45);
        result
    }

    /// derive an independent child generator
    pub fn fork(&mut self) -> Rng {
        Rng::new(self.next_u64())
    }

    /// uniform in 0..n (n > 0)
    pub fn below(&mut self, n: u64) -> u64 {
        debug_assert!(n > 0);
        // multiply-shift; bias is irrelevant here
        ((self.next_u64() as u128 * n as u128) >> 64) as u64
    }

    pub fn usize_below(&mut self, n: usize) -> usize {
        self.below(n as u64) as usize
    }

    /// uniform in lo..=hi
    pub fn range(&mut self, lo: u64, hi: u64) -> u64 {
        debug_assert!(lo <= hi);
        if lo == 0 && hi == u64::MAX {
            return self.next_u64();
        }
        lo + self.below(hi - lo + 1)
    }

    pub fn urange(&mut self, lo: usize, hi: usize) -> usize {
        self.range(lo as u64, hi as u64) as usize
    }

    /// true with probability num/den
    pub fn chance(&mut self, num: u64, den: u64) -> bool {
        self.below(den) < num
    }

    pub fn bool(&mut self) -> bool {
        self.next_u64() & 1 == 1
    }

    pub fn u8(&mut self) -> u8 {
        self.next_u64() as u8
    }

    pub fn u16(&mut self) -> u16 {
        self.next_u64() as u16
    }

    pub fn u32(&mut self) -> u32 {
        self.next_u64() as u32
    }

    pub fn pick<'a, T>(&mut self, items: &'a [T]) -> &'a T {
        &items[self.usize_below(items.len())]
    }

    /// weighted pick: returns index
    pub fn weighted(&mut self, weights: &[u32]) -> usize {
        let total: u64 = weights.iter().map(|x| *x as u64).sum();
        let mut x = self.below(total.max(1));
        for (i, w) in weights.iter().enumerate() {
            if x < *w as u64 {
                return i;
            }
            x -= *w as u64;
        }
        weights.len() - 1
    }

    pub fn bytes(&mut self, n: usize) -> Vec<u8> {
        let mut v = Vec::with_capacity(n);
        while v.len() < n {
            let x = self.next_u64().to_le_bytes();
            let take = (n - v.len()).min(8);
            v.extend_from_slice(&x[..take]);
        }
        v
    }

    pub fn shuffle<T>(&mut self, items: &mut [T]) {
        for i in (1..items.len()).rev() {
            let j = self.usize_below(i + 1);
            items.swap(i, j);
        }
    }
}
