//! Simulated physical layer (hook H2). A `SimSocket` is what the library sees through
//! `PhysLayer::Sim`; it reads from an inbox channel and writes to an outbox channel. The other
//! ends are held either by a scripted peer (driver) or by another `SimSocket` (S-PAIR).

use super::kernel;
use super::rng::Rng;
use std::collections::VecDeque;
use std::future::Future;
use std::io;
use std::pin::Pin;
use std::sync::{Arc, Mutex};
use std::task::{Context, Poll, Waker};
use std::time::Duration;

/// H2: the trait behind `PhysLayer::Sim`
pub(crate) trait SimPhys: Send {
    fn poll_read(&mut self, cx: &mut Context<'_>, buf: &mut [u8]) -> Poll<io::Result<usize>>;
    fn poll_write(&mut self, cx: &mut Context<'_>, data: &[u8]) -> Poll<io::Result<()>>;
}

#[derive(Clone, Copy, Debug, PartialEq, Eq)]
pub enum CloseKind {
    /// reads return Ok(0)
    Eof,
    /// reads return ConnectionReset, writes BrokenPipe
    Reset,
}

#[derive(Debug)]
pub struct Seg {
    /// virtual time (ms since world start) at which the bytes become readable
    pub at_ms: u64,
    pub data: Vec<u8>,
    /// read offset inside data
    pub off: usize,
    /// world-wide sequence number of the write
    pub order: u64,
}

/// one direction of a connection
#[derive(Default)]
pub struct Chan {
    pub q: VecDeque<Seg>,
    pub waker: Option<Waker>,
    /// set when the connection is cut; observed by the reader after the queue drains (Eof) or at once (Reset)
    pub closed: Option<CloseKind>,
    /// nothing is delivered before this virtual time (stall fault)
    pub hold_until_ms: u64,
    /// total bytes ever pushed
    pub pushed: u64,
    /// every segment written, with its write time (kept only when `record` is set)
    pub record: bool,
    pub written: Vec<(u64, Vec<u8>)>,
    /// fail the next write with this error kind (fault)
    pub fail_next_write: Option<io::ErrorKind>,
    /// extra one-way latency applied to segments written into this channel
    pub latency_ms: u64,
    pub jitter_ms: u64,
    /// extra delay for the next write only (a reply that is held up)
    pub hold_next_ms: u64,
    /// cut the connection right after the n-th write from now: what was written last is lost in flight (Reset) or is the
    /// last thing the reader gets (Eof)
    pub cut_after_writes: Option<(u32, CloseKind)>,
}

pub type ChanRef = Arc<Mutex<Chan>>;

pub fn new_chan() -> ChanRef {
    Arc::new(Mutex::new(Chan::default()))
}

pub fn chan_push(chan: &ChanRef, at_ms: u64, data: Vec<u8>) {
    if data.is_empty() {
        return;
    }
    let waker = {
        let mut c = chan.lock().unwrap();
        c.pushed += data.len() as u64;
        if c.record {
            c.written.push((at_ms, data.clone()));
        }
        // keep delivery order (TCP): never earlier than the previous segment
        let at = match c.q.back() {
            Some(last) => last.at_ms.max(at_ms),
            None => at_ms,
        };
        let order = kernel::current().map(|c| c.next_order()).unwrap_or(0);
        c.q.push_back(Seg {
            at_ms: at,
            data,
            off: 0,
            order,
        });
        c.waker.take()
    };
    if let Some(w) = waker {
        w.wake();
    }
}

pub fn chan_close(chan: &ChanRef, kind: CloseKind) {
    let waker = {
        let mut c = chan.lock().unwrap();
        if c.closed.is_none() {
            c.closed = Some(kind);
        }
        if kind == CloseKind::Reset {
            c.q.clear();
        }
        c.waker.take()
    };
    if let Some(w) = waker {
        w.wake();
    }
}

pub fn chan_wake(chan: &ChanRef) {
    let waker = chan.lock().unwrap().waker.take();
    if let Some(w) = waker {
        w.wake();
    }
}

/// like chan_drain, with the world-wide sequence number of each write
pub fn chan_drain_ordered(chan: &ChanRef) -> Vec<(u64, u64, Vec<u8>)> {
    let mut c = chan.lock().unwrap();
    let mut out = Vec::new();
    while let Some(seg) = c.q.pop_front() {
        out.push((seg.at_ms, seg.order, seg.data));
    }
    out
}

/// take everything written so far (driver side of an outbox)
pub fn chan_drain(chan: &ChanRef) -> Vec<(u64, Vec<u8>)> {
    let mut c = chan.lock().unwrap();
    let mut out = Vec::new();
    while let Some(seg) = c.q.pop_front() {
        out.push((seg.at_ms, seg.data));
    }
    out
}

#[derive(Clone, Copy, Debug, PartialEq, Eq)]
pub enum ChunkMode {
    /// deliver everything that is available (bounded by the caller's buffer)
    All,
    /// one byte per read
    One,
    /// 1..=3 bytes per read
    Tiny,
    /// a fresh draw per read among: 1, 2, small, half, all, all-but-one
    Mixed,
    /// uniformly 1..=available
    Uniform,
}

impl ChunkMode {
    pub fn from_index(i: u64) -> Self {
        match i % 5 {
            0 => ChunkMode::All,
            1 => ChunkMode::One,
            2 => ChunkMode::Tiny,
            3 => ChunkMode::Mixed,
            _ => ChunkMode::Uniform,
        }
    }
}

pub struct SimSocket {
    pub inbox: ChanRef,
    pub outbox: ChanRef,
    pub chunk: ChunkMode,
    pub datagram: bool,
    rng: Rng,
    sleep: Option<Pin<Box<tokio::time::Sleep>>>,
    name: &'static str,
    /// explicit read sizes (cycled); overrides `chunk` when non-empty
    plan: Vec<usize>,
    plan_idx: usize,
    /// dropping the socket closes the connection in both directions (what the operating system does); opt-in because the
    /// engines that script connects and disconnects themselves close their channels explicitly
    close_on_drop: bool,
}

impl Drop for SimSocket {
    fn drop(&mut self) {
        if self.close_on_drop {
            chan_close(&self.outbox, CloseKind::Eof);
            chan_close(&self.inbox, CloseKind::Eof);
        }
    }
}

impl SimSocket {
    pub fn new(
        name: &'static str,
        inbox: ChanRef,
        outbox: ChanRef,
        chunk: ChunkMode,
        seed: u64,
    ) -> Self {
        Self {
            inbox,
            outbox,
            chunk,
            datagram: false,
            rng: Rng::new(seed),
            sleep: None,
            name,
            plan: Vec::new(),
            plan_idx: 0,
            close_on_drop: false,
        }
    }

    pub fn closing_on_drop(mut self) -> Self {
        self.close_on_drop = true;
        self
    }

    pub fn with_plan(mut self, plan: Vec<usize>) -> Self {
        self.plan = plan;
        self
    }

    pub fn datagram(mut self, on: bool) -> Self {
        self.datagram = on;
        self
    }

    fn pick_len(&mut self, avail: usize, cap: usize) -> usize {
        let max = avail.min(cap).max(1);
        if !self.plan.is_empty() {
            let k = self.plan[self.plan_idx % self.plan.len()];
            self.plan_idx += 1;
            return k.clamp(1, max);
        }
        let k = match self.chunk {
            ChunkMode::All => max,
            ChunkMode::One => 1,
            ChunkMode::Tiny => self.rng.urange(1, 3),
            ChunkMode::Uniform => self.rng.urange(1, max),
            ChunkMode::Mixed => match self.rng.below(7) {
                0 => 1,
                1 => 2,
                2 => self.rng.urange(1, 12),
                3 => max / 2,
                4 => max,
                5 => max.saturating_sub(1),
                _ => self.rng.urange(1, max),
            },
        };
        k.clamp(1, max)
    }
}

impl SimPhys for SimSocket {
    fn poll_read(&mut self, cx: &mut Context<'_>, buf: &mut [u8]) -> Poll<io::Result<usize>> {
        let core = kernel::current();
        let now = core.as_ref().map(|c| c.now_ms()).unwrap_or(0);
        let inbox = self.inbox.clone();
        let mut c = inbox.lock().unwrap();

        if let Some(CloseKind::Reset) = c.closed {
            return Poll::Ready(Err(io::Error::new(
                io::ErrorKind::ConnectionReset,
                "sim: connection reset",
            )));
        }

        let head_at = c.q.front().map(|s| s.at_ms.max(c.hold_until_ms));
        match head_at {
            None => {
                if let Some(CloseKind::Eof) = c.closed {
                    return Poll::Ready(Ok(0));
                }
                c.waker = Some(cx.waker().clone());
                Poll::Pending
            }
            Some(at) if at > now => {
                // not deliverable yet: arm a timer on the virtual clock
                c.waker = Some(cx.waker().clone());
                drop(c);
                let mut sleep = Box::pin(tokio::time::sleep(Duration::from_millis(at - now)));
                let _ = sleep.as_mut().poll(cx);
                self.sleep = Some(sleep);
                Poll::Pending
            }
            Some(_) => {
                self.sleep = None;
                if buf.is_empty() {
                    return Poll::Ready(Ok(0));
                }
                let n = if self.datagram {
                    // one datagram per read, truncated to the caller's buffer like UDP
                    let seg = c.q.pop_front().unwrap();
                    let data = &seg.data[seg.off..];
                    let n = data.len().min(buf.len());
                    buf[..n].copy_from_slice(&data[..n]);
                    n
                } else {
                    // how many contiguous bytes are deliverable now
                    let hold = c.hold_until_ms;
                    let avail: usize =
                        c.q.iter()
                            .take_while(|s| s.at_ms.max(hold) <= now)
                            .map(|s| s.data.len() - s.off)
                            .sum();
                    let want = self.pick_len(avail, buf.len());
                    let mut n = 0;
                    while n < want {
                        let seg = c.q.front_mut().unwrap();
                        let take = (seg.data.len() - seg.off).min(want - n);
                        buf[n..n + take].copy_from_slice(&seg.data[seg.off..seg.off + take]);
                        seg.off += take;
                        n += take;
                        if seg.off == seg.data.len() {
                            c.q.pop_front();
                        }
                    }
                    n
                };
                drop(c);
                if let Some(core) = core {
                    core.progress();
                    core.trace_bytes(0x7278, &buf[..n]);
                    if core.log_enabled() {
                        core.log(format!("{} rx {} bytes: {}", self.name, n, hex(&buf[..n])));
                    }
                    core.count("phys_reads", 1);
                }
                Poll::Ready(Ok(n))
            }
        }
    }

    fn poll_write(&mut self, _cx: &mut Context<'_>, data: &[u8]) -> Poll<io::Result<()>> {
        let core = kernel::current();
        let now = core.as_ref().map(|c| c.now_ms()).unwrap_or(0);
        // a reset observed on the inbox also breaks the write side
        if let Some(CloseKind::Reset) = self.inbox.lock().unwrap().closed {
            return Poll::Ready(Err(io::Error::new(
                io::ErrorKind::BrokenPipe,
                "sim: broken pipe",
            )));
        }
        let (lat, fail, closed) = {
            let mut o = self.outbox.lock().unwrap();
            let jitter = if o.jitter_ms > 0 {
                self.rng.below(o.jitter_ms + 1)
            } else {
                0
            };
            let hold = std::mem::take(&mut o.hold_next_ms);
            (
                o.latency_ms + jitter + hold,
                o.fail_next_write.take(),
                o.closed,
            )
        };
        if let Some(kind) = fail {
            return Poll::Ready(Err(io::Error::new(kind, "sim: injected write error")));
        }
        if closed.is_some() {
            return Poll::Ready(Err(io::Error::new(
                io::ErrorKind::BrokenPipe,
                "sim: broken pipe",
            )));
        }
        if let Some(core) = &core {
            core.trace_bytes(0x7478, data);
            if core.log_enabled() {
                core.log(format!(
                    "{} tx {} bytes: {}",
                    self.name,
                    data.len(),
                    hex(data)
                ));
            }
            core.count("phys_writes", 1);
        }
        chan_push(&self.outbox, now + lat, data.to_vec());
        let cut = {
            let mut o = self.outbox.lock().unwrap();
            match o.cut_after_writes.take() {
                Some((n, kind)) if n <= 1 => Some(kind),
                Some((n, kind)) => {
                    o.cut_after_writes = Some((n - 1, kind));
                    None
                }
                None => None,
            }
        };
        if let Some(kind) = cut {
            if let Some(core) = &core {
                core.count("fault.cut_after_write", 1);
                if core.log_enabled() {
                    core.log(format!(
                        "{}: connection cut right after this write ({:?})",
                        self.name, kind
                    ));
                }
            }
            chan_close(&self.outbox, kind);
            chan_close(&self.inbox, kind);
        }
        Poll::Ready(Ok(()))
    }
}

pub fn hex(data: &[u8]) -> String {
    let mut s = String::with_capacity(data.len() * 3);
    for (i, b) in data.iter().enumerate() {
        if i > 0 {
            s.push(' ');
        }
        s.push_str(&format!("{:02X}", b));
    }
    s
}
