//! Deterministic simulation harness for stepfunc/dnp3 (compiled into the crate through hook H1,
//! only with `--cfg dnp3_verif`). See /verif/DESIGN.md.
#![allow(missing_docs, unreachable_pub, dead_code, unused, clippy::all)]

pub mod hooks;
pub mod io;
pub mod kernel;
pub mod models;
pub mod nodes;
pub mod props;
pub mod refcodec;
pub mod rng;
pub mod runner;
pub mod smast;
pub mod sout;
pub mod spair;
pub mod trace_sub;

use runner::{Codec, Property, Tier};

fn properties<C: Codec>() -> Vec<Property> {
    props::all::<C>()
}

fn usage() -> i32 {
    eprintln!("usage: dnp3sim check <Cnn> quick|thorough | replay <file> | trace <Cnn> <n> [quick|thorough] | list");
    2
}

pub fn main<C: Codec>() -> i32 {
    kernel::install_panic_hook();
    let args: Vec<String> = std::env::args().collect();
    let seed: u64 = std::env::var("VERIF_SEED")
        .ok()
        .and_then(|s| s.parse().ok())
        .unwrap_or(1);
    let props = properties::<C>();
    match args.get(1).map(|s| s.as_str()) {
        Some("list") => {
            for p in &props {
                let names: Vec<&str> = p.scenarios.iter().map(|s| s.name()).collect();
                println!("{} {}", p.id, names.join(","));
            }
            0
        }
        Some("check") => {
            let id = match args.get(2) {
                Some(x) => x.as_str(),
                None => return usage(),
            };
            let tier = match args.get(3).map(|s| s.as_str()) {
                Some("thorough") => Tier::Thorough,
                Some("quick") | None => Tier::Quick,
                _ => return usage(),
            };
            println!("VERIF_SEED={}", seed);
            match props.iter().find(|p| p.id == id) {
                Some(p) => runner::run_check::<C>(p, tier, seed),
                None => {
                    eprintln!("harness error: unknown property {}", id);
                    2
                }
            }
        }
        Some("replay") => match args.get(2) {
            Some(path) => runner::run_replay::<C>(&props, path),
            None => usage(),
        },
        Some("dump") => {
            // dump <Cnn> <run> [scenario index]: the generated case of one run as a replay document (for debugging)
            let id = match args.get(2) {
                Some(x) => x.as_str(),
                None => return usage(),
            };
            let run: u64 = args.get(3).and_then(|s| s.parse().ok()).unwrap_or(0);
            let si: usize = args.get(4).and_then(|s| s.parse().ok()).unwrap_or(0);
            match props.iter().find(|p| p.id == id) {
                Some(p) => match p.scenarios.get(si) {
                    Some(sc) => {
                        println!(
                            "{{\"property\":\"{}\",\"scenario\":\"{}\",\"seed\":{},\"run\":{},\"case\":{}}}",
                            p.id,
                            sc.name(),
                            seed,
                            run,
                            sc.gen_json(seed, run, Tier::Quick)
                        );
                        0
                    }
                    None => 2,
                },
                None => 2,
            }
        }
        Some("trace") => {
            let id = match args.get(2) {
                Some(x) => x.as_str(),
                None => return usage(),
            };
            let n: u64 = args.get(3).and_then(|s| s.parse().ok()).unwrap_or(100);
            let tier = match args.get(4).map(|s| s.as_str()) {
                Some("thorough") => Tier::Thorough,
                _ => Tier::Quick,
            };
            match props.iter().find(|p| p.id == id) {
                Some(p) => runner::run_trace(p, tier, seed, n),
                None => 2,
            }
        }
        _ => usage(),
    }
}
