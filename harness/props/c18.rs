//! C18 - time synchronisation sets the outstation's clock to the master's.
//! Scenario "pair" (S-PAIR): real master and real outstation, constant one-way delays, honest or dishonest processing delay.
//! Scenario "scripted" (S-MAST): real master against a scripted outstation doing the same arithmetic, with unrelated traffic,
//! unexpected objects and a NEED_TIME indication that does not go away.

use crate::verif::models::mast_hist::{master_time_history, H};
use crate::verif::nodes::master::{AssocCfg, MEv, MasterCfg};
use crate::verif::nodes::outstation::{Cb, CtrlAnswers, OutCfg};
use crate::verif::rng::{mix, Rng};
use crate::verif::runner::{erase, Codec, Outcome, Property, Scenario, Tier, Violation};
use crate::verif::smast::{self, MOp, MastRun, Reply, SmastCase, UserKind};
use crate::verif::spair::{self, POp, PairCase, PairRun};
use std::collections::BTreeMap;

pub const MAX48: u64 = (1u64 << 48) - 1;

pub struct PairScenario;
pub struct ScriptedScenario;

pub fn property<C: Codec>() -> Property {
    Property {
        id: "C18",
        scenarios: vec![erase::<C, _>(PairScenario), erase::<C, _>(ScriptedScenario)],
    }
}

fn gen_delay(rng: &mut Rng) -> u64 {
    match rng.below(8) {
        0 => 0,
        1 => 1,
        2 => rng.range(2, 50),
        3 => rng.range(50, 2000),
        4 => rng.range(2000, 20_000),
        5 => rng.range(20_000, 70_000),
        6 => 65_535,
        _ => rng.range(0, 500),
    }
}

impl Scenario for PairScenario {
    type Case = PairCase;

    fn name(&self) -> &'static str {
        "pair"
    }

    fn runs(&self, tier: Tier) -> u64 {
        match tier {
            Tier::Quick => 30_000,
            Tier::Thorough => 800_000,
        }
    }

    fn rule(&self) -> String {
        "the real master and the real outstation connected through the simulated network: master clock base anywhere in 0..2^48-1 (weighted to the \
         top of the range), constant one-way delays forward and backward of 0..70 s each, outstation processing delay 0..70 s reported honestly (the \
         harness holds the reply for exactly that long) or dishonestly (more than was held, up to more than the round trip), the three procedures, \
         abandoned attempts (reply to the first step held beyond the response timeout) before a complete one, NEED_TIME left standing, the application \
         refusing the time; non-trivial = the two one-way delays differ or a processing delay was reported; distinct = hash of (procedure, delay classes, \
         honesty, outcome)"
            .to_string()
    }

    fn real_components(&self) -> Vec<&'static str> {
        vec![
            "master::tasks::time::TimeSyncTask",
            "master::task::MasterTask / MasterSession",
            "outstation::session (DELAY_MEASURE, RECORD_CURRENT_TIME, WRITE g50v1/g50v3)",
            "tcp::client::ClientTask, tcp::server_task::ServerTask",
            "transport::real, link::layer/reader/parser, app::parse, app::format",
        ]
    }

    fn stub_components(&self) -> Vec<&'static str> {
        vec![
            "TCP sockets and listener (simulated network through hook H3)",
            "master wall clock (AssociationHandler::get_current_time = base + virtual time)",
            "outstation application (recording stub: write_absolute_time, get_processing_delay_ms, NEED_TIME)",
        ]
    }

    fn generate(&self, rng: &mut Rng, _tier: Tier) -> PairCase {
        let f = gen_delay(rng);
        let b = if rng.chance(1, 4) { f } else { gen_delay(rng) };
        let proc = rng.range(1, 3) as u8;
        // reported and actually held processing delay
        let held = if proc == 2 && rng.chance(2, 3) {
            gen_delay(rng).min(65_535)
        } else {
            0
        };
        let reported: u64 = match rng.below(6) {
            0..=3 => held,
            4 => (held + rng.range(1, 5000)).min(65_535),
            _ => (f + b + held + rng.range(1, 3000)).min(65_535),
        };
        let rtt = f + b + held;
        let timeout = rtt + *rng.pick(&[1000u64, 5000]);
        let mut mcfg = MasterCfg::basic();
        let mut a = AssocCfg::quiet(1024);
        a.response_timeout_ms = timeout;
        mcfg.assocs = vec![a];
        mcfg.close_mode = rng.bool();
        let mut ocfg = OutCfg::basic();
        ocfg.unsolicited = false;
        ocfg.close_mode = rng.bool();
        ocfg.confirm_timeout_ms = 5000;

        let mut script = vec![POp::Enable, POp::Sleep(rng.range(0, 50))];
        // an abandoned attempt first: the reply to its first step comes after the master has given up
        let mut t_sync = 0u64;
        let abandoned = rng.chance(1, 4);
        if abandoned {
            script.push(POp::HoldNext {
                to_master: true,
                ms: timeout + rng.range(1, 2000),
            });
            script.push(POp::User(UserKind::TimeSync(if rng.chance(3, 4) {
                proc
            } else {
                rng.range(1, 3) as u8
            })));
            let gap = timeout * 2 + 3000 + rng.range(0, 30_000);
            script.push(POp::Sleep(gap));
            t_sync += gap;
        }
        let need_time_stays = rng.chance(1, 10);
        let refuse = if rng.chance(1, 12) {
            rng.range(1, 2) as u8
        } else {
            0
        };
        script.push(POp::ProcessingDelay(reported as u16));
        if need_time_stays {
            script.push(POp::NeedTime(true));
        }
        if refuse != 0 {
            script.push(POp::TimeWriteResult(refuse));
        }
        if held > 0 {
            script.push(POp::HoldNext {
                to_master: true,
                ms: held,
            });
        }
        if held == 0 && rng.chance(1, 4) {
            // the synchronisation is requested while another request is in flight: it waits in the queue for about a round trip,
            // which is no part of the propagation delay
            script.push(POp::User(UserKind::ReadClasses(0x0F)));
            if rng.bool() {
                script.push(POp::Sleep(rng.range(0, f + b + 1)));
            }
        }
        script.push(POp::User(UserKind::TimeSync(proc)));
        script.push(POp::Sleep(timeout * 3 + 2000));
        // master clock: usually far from the end of the 48-bit range, sometimes so that the time to write just fits or just does not
        let approx_write = t_sync + 50 + rtt + rtt;
        mcfg.wall_clock_base = match rng.below(6) {
            0 | 1 => 1_700_000_000_000,
            2 => rng.range(0, 1_000_000),
            3 => MAX48.saturating_sub(approx_write + 1_000_000 + rng.range(0, 1_000_000)),
            _ => MAX48.saturating_sub(t_sync + rng.range(0, 2 * rtt + 200)),
        };
        PairCase {
            mcfg,
            ocfg,
            ctrl: CtrlAnswers::AllSuccess,
            chunk: (rng.below(5) as u8, rng.below(5) as u8),
            chunk_seed: rng.next_u64(),
            latency: (f, b),
            script,
            tail_ms: 1000,
        }
    }

    fn shrink(&self, case: &PairCase) -> Vec<PairCase> {
        spair::shrink_case(case)
    }

    fn execute(&self, case: &PairCase, log: bool) -> Outcome {
        spair::execute("C18", case, log, analyse_pair)
    }
}

fn class(d: u64) -> u64 {
    match d {
        0 => 0,
        1..=49 => 1,
        50..=1999 => 2,
        2000..=19_999 => 3,
        _ => 4,
    }
}

pub fn analyse_pair(
    case: &PairCase,
    run: &PairRun,
) -> (Option<Violation>, bool, u64, Vec<(String, u64)>) {
    let mut counters: BTreeMap<String, u64> = BTreeMap::new();
    let mut bump = |k: &str| *counters.entry(k.to_string()).or_insert(0) += 1;
    let (f, b) = case.latency;
    let m0 = case.mcfg.wall_clock_base;
    let timeout = case.mcfg.assocs[0].response_timeout_ms;
    let mut violation: Option<Violation> = None;
    let mut nontrivial = false;
    let mut fp = 0u64;

    // the state of the script at each user request
    let mut reported = 0u64;
    let mut need_time = false;
    let mut refuse = 0u8;
    let mut hold_armed = 0u64;
    let mut user_no = 0u64;
    let mut faults_before = false;
    for (i, op) in case.script.iter().enumerate() {
        match op {
            POp::ProcessingDelay(p) => reported = *p as u64,
            POp::NeedTime(x) => need_time = *x,
            POp::TimeWriteResult(k) => refuse = *k,
            POp::HoldNext {
                to_master: true,
                ms,
            } => hold_armed = *ms,
            POp::Cut { .. } | POp::Stall { .. } | POp::Disable => faults_before = true,
            POp::User(k) if !matches!(k, UserKind::TimeSync(_)) => user_no += 1,
            POp::User(UserKind::TimeSync(proc)) => {
                let id = user_no;
                user_no += 1;
                let held = std::mem::take(&mut hold_armed);
                let t_submit = run
                    .op_marks
                    .iter()
                    .find(|m| m.0 == i)
                    .map(|m| m.1)
                    .unwrap_or(0);
                let done = run.master_log.iter().find_map(|(t, _, ev)| match ev {
                    MEv::UserDone { id: x, ok, outcome } if *x == id => {
                        Some((*t, *ok, outcome.clone()))
                    }
                    _ => None,
                });
                let Some((t_done, ok, outcome)) = done else {
                    violation.get_or_insert(Violation::new(
                        "C18/time-sync-never-completed",
                        "",
                        format!(
                            "time synchronisation {} submitted at {} ms had no outcome",
                            id, t_submit
                        ),
                    ));
                    continue;
                };
                // what the outstation application was told in the meantime
                let writes: Vec<(u64, u64)> = run
                    .out_log
                    .iter()
                    .filter_map(|(t, _, cb)| match cb {
                        Cb::WriteAbsTime(ts) if *t >= t_submit && *t <= t_done => Some((*t, *ts)),
                        _ => None,
                    })
                    .collect();
                fp = mix(&[
                    fp,
                    *proc as u64,
                    class(f),
                    class(b),
                    class(held),
                    (reported != held) as u64,
                    ok as u64,
                ]);
                if f != b || reported > 0 {
                    nontrivial = true;
                }
                let honest = reported == held;
                if ok {
                    bump("probe.reported_success");
                    // the time handed to the application, at the instant it was handed over
                    let Some((t_cb, ts)) = writes.last().copied() else {
                        violation.get_or_insert(Violation::new(
                            "C18/success-without-time-written",
                            format!("proc={}", proc),
                            format!("time synchronisation {} (procedure {}) reported success but write_absolute_time was never called", id, proc),
                        ));
                        continue;
                    };
                    let truth = m0 + t_cb;
                    if truth <= MAX48 {
                        let err = if ts > truth { ts - truth } else { truth - ts };
                        let bound = match proc {
                            1 | 3 => Some(f + 1),
                            _ => {
                                if honest {
                                    Some((if f > b { f - b } else { b - f }) + 1)
                                } else {
                                    None
                                }
                            }
                        };
                        if let Some(bound) = bound {
                            bump("probe.accuracy_checked");
                            if err > bound {
                                violation.get_or_insert(Violation::new(
                                    "C18/clock-error-beyond-bound",
                                    format!("proc={}", proc),
                                    format!(
                                        "procedure {}: at {} ms the outstation application was handed {} while the master's clock read {} (error {} ms); forward delay {} ms, backward {} ms, processing delay held {} / reported {} ms: bound {} ms",
                                        proc, t_cb, ts, truth, err, f, b, held, reported, bound
                                    ),
                                ));
                            }
                        }
                    }
                    // success must not be reported when ...
                    let rtt = f + b + held;
                    let why = if need_time {
                        Some("the outstation still indicated NEED_TIME afterwards")
                    } else if refuse != 0 {
                        Some("the outstation application refused the time (IIN2 error)")
                    } else if *proc == 2 && reported > rtt + 1 {
                        Some("the reported processing delay exceeded the round trip")
                    } else {
                        None
                    };
                    if let Some(why) = why {
                        violation.get_or_insert(Violation::new(
                            "C18/success-reported-although-it-had-to-fail",
                            why.split(' ').nth(2).unwrap_or("").to_string(),
                            format!("procedure {}: reported success although {} (f {} b {} held {} reported {})", proc, why, f, b, held, reported),
                        ));
                    }
                    // "... or the written time would not fit 48 bits": whatever the procedure, the time written is at least the
                    // master's clock one forward delay before it reached the application (LAN: the recorded instant plus what
                    // elapsed at the outstation; non-LAN and direct: the master's clock when the WRITE left, plus a correction >= 0)
                    // the clock reading the library worked from (the last one before the time reached the application), when it
                    // was a true 48-bit reading: the time to write is that reading plus what the procedure adds to it
                    let reading = run.master_log.iter().rev().find_map(|(t, _, ev)| match ev {
                        MEv::GetTime { t: Some(g), .. } if *t >= t_submit && *t <= t_cb => Some((*t, *g)),
                        _ => None,
                    });
                    if let Some((t_g, g)) = reading {
                        if g <= MAX48 {
                            let to_write = match proc {
                                1 => g + (t_cb - t_g).saturating_sub(f),
                                2 => g + rtt.saturating_sub(reported) / 2,
                                _ => g,
                            };
                            bump("probe.success_judged_against_48_bits");
                            if to_write > MAX48 + 1 {
                                violation.get_or_insert(Violation::new(
                                    "C18/success-reported-although-it-had-to-fail",
                                    "48-bits",
                                    format!(
                                        "procedure {}: reported success and handed {} to the application at {} ms although the time to write was {} (clock reading {} at {} ms; f {} b {} held {} reported {}), which does not fit 48 bits",
                                        proc, ts, t_cb, to_write, g, t_g, f, b, held, reported
                                    ),
                                ));
                            }
                        }
                    }
                } else {
                    bump("probe.reported_failure");
                    // a complete, undisturbed procedure with an honest outstation succeeds
                    let rtt = f + b + held;
                    let fits = match proc {
                        // the master adds the propagation delay to its clock at the moment the delay response arrives
                        2 => m0 + t_submit + rtt + (rtt.saturating_sub(reported)) / 2 + 2 <= MAX48,
                        // the outstation adds the time between the two requests to the recorded master time
                        1 => m0 + t_submit + rtt + 2 <= MAX48,
                        _ => m0 + t_submit + 2 <= MAX48,
                    };
                    let first_attempt_clean = !faults_before && rtt < timeout;
                    let expected_ok = first_attempt_clean
                        && !need_time
                        && refuse == 0
                        && !(*proc == 2 && reported + 1 >= rtt)
                        && fits
                        && run.connections == 1;
                    // an earlier abandoned attempt leaves a late reply in the stream: it arrives during this attempt and is ignored,
                    // but (for a READ-less task) nothing else changes - still expected to succeed unless it is still in flight
                    let earlier_hold_in_flight = id > 0;
                    // (the statement demands failure in certain cases, it never demands success: a failure of a clean procedure is
                    // counted - it would make the accuracy clauses vacuous if it were the rule - but it is not a violation)
                    if expected_ok && !earlier_hold_in_flight {
                        let _ = &outcome;
                        bump("probe.clean_time_sync_failed");
                    }
                }
            }
            _ => {}
        }
    }
    let out: Vec<(String, u64)> = counters.into_iter().collect();
    (violation, nontrivial, fp, out)
}

// ---------------------------------------------------------------------------------------------------------------------

impl Scenario for ScriptedScenario {
    type Case = SmastCase;

    fn name(&self) -> &'static str {
        "scripted"
    }

    fn runs(&self, tier: Tier) -> u64 {
        match tier {
            Tier::Quick => 15_000,
            Tier::Thorough => 400_000,
        }
    }

    fn rule(&self) -> String {
        "the real master against a scripted outstation that performs the outstation side of the three procedures arithmetically (records its \
         receive time, holds the delay response for the reported time or not), with unsolicited responses, stale wrong-sequence replies and foreign replies \
         interleaved at every step, replies with unexpected objects, a NEED_TIME indication that does not go away, and replies later than the response \
         timeout; non-trivial = something was interleaved or deviated; distinct = hash of (procedure, deviation kinds, outcome)"
            .to_string()
    }

    fn real_components(&self) -> Vec<&'static str> {
        vec![
            "master::tasks::time::TimeSyncTask",
            "master::task::MasterTask / MasterSession",
            "tcp::client::ClientTask",
            "transport::real, link, app::parse",
        ]
    }

    fn stub_components(&self) -> Vec<&'static str> {
        vec!["TCP sockets (H3)", "scripted outstation (reference codec, time arithmetic of IEEE 1815 written independently)", "master wall clock stub"]
    }

    fn generate(&self, rng: &mut Rng, _tier: Tier) -> SmastCase {
        let mut cfg = MasterCfg::basic();
        let f = gen_delay(rng).min(20_000);
        let b = if rng.bool() {
            f
        } else {
            gen_delay(rng).min(20_000)
        };
        let p = if rng.bool() {
            gen_delay(rng).min(20_000)
        } else {
            0
        };
        let mut a = AssocCfg::quiet(1024);
        a.response_timeout_ms = f + b + p + *rng.pick(&[1000u64, 4000]);
        cfg.assocs = vec![a];
        cfg.wall_clock_base = if rng.chance(1, 4) {
            MAX48 - rng.range(0, 3 * (f + b + p) + 100)
        } else {
            1_700_000_000_000
        };
        let mut script = vec![MOp::Enable, MOp::Sleep(1)];
        let rounds = rng.urange(1, 3);
        for _ in 0..rounds {
            let proc = rng.range(1, 3) as u8;
            let honest = rng.chance(3, 4);
            script.push(MOp::ProcessingDelay {
                assoc: 0,
                ms: if honest {
                    p as u16
                } else {
                    (f + b + p + rng.range(1, 2000)).min(65_535) as u16
                },
                honest,
            });
            if rng.chance(1, 8) {
                script.push(MOp::SetIin {
                    assoc: 0,
                    iin1: 0x10,
                    iin2: 0,
                });
                script.push(MOp::StickyNeedTime(rng.bool()));
            }
            let nrep = *rng.pick(&[0usize, 0, 1, 2]);
            let mut replies = Vec::new();
            for _ in 0..nrep {
                replies.push(match rng.below(8) {
                    0 => Reply::Faithful,
                    1 => Reply::StaleThenFaithful(rng.range(1, 15) as u8),
                    2 => Reply::ForeignThenFaithful(1025),
                    3 => Reply::UnsolThenFaithful {
                        seq: rng.below(16) as u8,
                        data: rng.bool(),
                        con: rng.bool(),
                    },
                    4 => Reply::Objects(vec![50, 1, 0x07, 1, 1, 2, 3, 4, 5, 6]),
                    5 => Reply::Silent,
                    6 => Reply::Iin(0, 0x04),
                    _ => Reply::Objects(vec![52, 1, 0x07, 1, 9, 0]),
                });
            }
            if !replies.is_empty() {
                script.push(MOp::Replies { assoc: 0, replies });
            }
            script.push(MOp::User {
                assoc: 0,
                kind: UserKind::TimeSync(proc),
            });
            if rng.chance(1, 3) {
                script.push(MOp::Sleep(rng.range(0, f + b + p + 10)));
                script.push(MOp::Unsol {
                    assoc: 0,
                    seq: rng.below(16) as u8,
                    data: rng.bool(),
                    con: rng.bool(),
                });
            }
            script.push(MOp::Sleep(3 * (f + b + p) + 10_000));
        }
        SmastCase {
            cfg,
            chunk: rng.below(5) as u8,
            chunk_seed: rng.next_u64(),
            latency: (f, b),
            script,
            tail_ms: 1000,
        }
    }

    fn shrink(&self, case: &SmastCase) -> Vec<SmastCase> {
        smast::shrink_case(case)
    }

    fn execute(&self, case: &SmastCase, log: bool) -> Outcome {
        smast::execute("C18", case, log, analyse_scripted)
    }
}

pub fn analyse_scripted(
    case: &SmastCase,
    run: &MastRun,
) -> (Option<Violation>, bool, u64, Vec<(String, u64)>) {
    let hist = master_time_history(case, run);
    let mut counters: BTreeMap<String, u64> = BTreeMap::new();
    let mut bump = |k: &str| *counters.entry(k.to_string()).or_insert(0) += 1;
    let (f, b) = case.latency;
    let m0 = case.cfg.wall_clock_base;
    let mut violation: Option<Violation> = None;
    let mut nontrivial = false;
    let mut fp = 0u64;
    // script state at each request
    let mut reported = 0u64;
    let mut honest = true;
    let mut need_time_sticky = false;
    let mut user_no = 0u64;
    for (i, op) in case.script.iter().enumerate() {
        match op {
            MOp::ProcessingDelay { ms, honest: h, .. } => {
                reported = *ms as u64;
                honest = *h;
            }
            MOp::StickyNeedTime(x) => need_time_sticky = *x,
            MOp::User {
                kind: UserKind::TimeSync(proc),
                ..
            } => {
                let id = user_no;
                user_no += 1;
                let t_submit = run
                    .op_marks
                    .iter()
                    .find(|m| m.0 == i)
                    .map(|m| m.1)
                    .unwrap_or(0);
                let done = hist.iter().find_map(|(_, h)| match h {
                    H::UserDone {
                        t,
                        id: x,
                        ok,
                        outcome,
                    } if *x == id => Some((*t, *ok, outcome.clone())),
                    _ => None,
                });
                let Some((t_done, ok, _outcome)) = done else {
                    violation.get_or_insert(Violation::new(
                        "C18/time-sync-never-completed",
                        "scripted",
                        format!("time synchronisation {} had no outcome", id),
                    ));
                    continue;
                };
                // what the scripted outstation answered to the requests of this synchronisation
                let mut used: Vec<String> = Vec::new();
                let mut unanswered = false;
                for (order, h) in &hist {
                    if let H::Request { t, func, .. } = h {
                        let written = t.saturating_sub(f);
                        if written < t_submit || written > t_done || !matches!(*func, 2 | 23 | 24) {
                            continue;
                        }
                        let answers: Vec<(bool, String)> = hist
                            .iter()
                            .filter_map(|(_, x)| match x {
                                H::PeerTx {
                                    answers,
                                    valid,
                                    kind,
                                    t: ta,
                                    ..
                                } if *answers == Some(*order) && *ta <= t_done => {
                                    Some((*valid, kind.clone()))
                                }
                                _ => None,
                            })
                            .collect();
                        if !answers.iter().any(|a| a.0) {
                            unanswered = true;
                        }
                        for a in answers {
                            used.push(a.1);
                        }
                    }
                }
                let deviated = unanswered || used.iter().any(|k| k != "faithful");
                if deviated {
                    nontrivial = true;
                }
                fp = mix(&[
                    fp,
                    *proc as u64,
                    ok as u64,
                    used.len() as u64,
                    deviated as u64,
                    honest as u64,
                ]);
                // what was written to the scripted outstation during this request: (virtual ms at the outstation, value, variation)
                let written: Vec<(u64, u64, u8)> = run
                    .time_written
                    .iter()
                    .filter(|w| w.0 >= t_submit && w.0 <= t_done)
                    .cloned()
                    .collect();
                let must_fail = unanswered || (need_time_sticky && run.need_time_was_set);
                if ok {
                    bump("probe.reported_success");
                    if must_fail {
                        violation.get_or_insert(Violation::new(
                            "C18/success-reported-although-it-had-to-fail",
                            "scripted",
                            format!("procedure {} reported success although a step was answered with {:?} / NEED_TIME stayed set: {}", proc, used, need_time_sticky),
                        ));
                    }
                    let Some((t_w, value, var)) = written.last().copied() else {
                        violation.get_or_insert(Violation::new(
                            "C18/success-without-time-written",
                            "scripted",
                            format!(
                                "procedure {} reported success but no time was written",
                                proc
                            ),
                        ));
                        continue;
                    };
                    // the outstation's resulting clock at the moment of the write
                    let clock = if var == 3 {
                        // last recorded time: the outstation adds what elapsed since it received RECORD_CURRENT_TIME
                        let recorded = run
                            .recorded_at
                            .iter()
                            .rev()
                            .find(|r| **r <= t_w)
                            .copied()
                            .unwrap_or(t_w);
                        value + (t_w - recorded)
                    } else {
                        value
                    };
                    let truth = m0 + t_w;
                    if truth <= MAX48 {
                        let err = if clock > truth {
                            clock - truth
                        } else {
                            truth - clock
                        };
                        let bound = match proc {
                            1 | 3 => Some(f + 1),
                            _ => {
                                if honest {
                                    Some((if f > b { f - b } else { b - f }) + 1)
                                } else {
                                    None
                                }
                            }
                        };
                        // an unsolicited response or stale reply in front of the delay response does not change the arithmetic:
                        // they travel on the same stream and do not hold the response back
                        if let Some(bound) = bound {
                            bump("probe.accuracy_checked");
                            if err > bound {
                                violation.get_or_insert(Violation::new(
                                    "C18/clock-error-beyond-bound",
                                    format!("scripted proc={}", proc),
                                    format!("procedure {}: outstation clock {} vs master clock {} at {} ms (error {} ms, bound {} ms; f {} b {} reported {} honest {})", proc, clock, truth, t_w, err, bound, f, b, reported, honest),
                                ));
                            }
                        }
                    }
                    // non-LAN: the time to write is the master's clock reading on arrival of the delay response plus half of the
                    // round trip not spent in the outstation; it must fit 48 bits (a true 48-bit reading is required to judge)
                    if *proc == 2 && honest {
                        let reading = run.master_log.iter().rev().find_map(|(t, _, ev)| match ev {
                            MEv::GetTime { t: Some(g), .. } if *t >= t_submit && *t + f <= t_w + 1 => Some((*t, *g)),
                            _ => None,
                        });
                        if let Some((t_g, g)) = reading {
                            if g <= MAX48 {
                                bump("probe.success_judged_against_48_bits");
                                let to_write = g + (f + b) / 2;
                                if to_write > MAX48 + 1 {
                                    violation.get_or_insert(Violation::new(
                                        "C18/success-reported-although-it-had-to-fail",
                                        "scripted-48-bits",
                                        format!(
                                            "non-LAN procedure reported success and wrote {} although the time to write was {} (clock reading {} at {} ms, f {} b {}), which does not fit 48 bits",
                                            value, to_write, g, t_g, f, b
                                        ),
                                    ));
                                }
                            }
                        }
                    }
                    if *proc == 2 && !honest && reported > f + b + 1 {
                        violation.get_or_insert(Violation::new(
                            "C18/success-reported-although-it-had-to-fail",
                            "scripted-delay",
                            format!("non-LAN procedure reported success although the reported processing delay {} ms exceeds the round trip {} ms", reported, f + b),
                        ));
                    }
                } else {
                    bump("probe.reported_failure");
                }
            }
            _ => {}
        }
    }
    let out: Vec<(String, u64)> = counters.into_iter().collect();
    (violation, nontrivial, fp, out)
}
