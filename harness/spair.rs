//! Engine S-PAIR: the real master (ClientTask + MasterTask) and the real outstation (ServerTask + OutstationTask) talk to
//! each other through the simulated network, with latencies, chunking, holds and cuts injected between them.

use crate::verif::io::{self, ChanRef, ChunkMode, CloseKind};
use crate::verif::kernel::{self, Sim};
use crate::verif::nodes::master::{MEv, MasterCfg, MasterNode};
use crate::verif::nodes::net::{Accepted, ConnectPlan, SimNetwork};
use crate::verif::nodes::outstation::{Cb, CtrlAnswers, OutCfg, OutNode, UpdateOp};
use crate::verif::smast::{classes_of, order_now, spawn_user, UserKind};
use serde::{Deserialize, Serialize};
use std::sync::{Arc, Mutex};
use std::time::Duration;

#[derive(Clone, Debug, Serialize, Deserialize, PartialEq)]
pub enum POp {
    Enable,
    Disable,
    /// a master user request
    User(UserKind),
    AddPoll {
        classes: u8,
        period_ms: u64,
    },
    DemandPoll(usize),
    /// one database transaction of the outstation application
    Update(Vec<UpdateOp>),
    Cut {
        eof: bool,
    },
    /// nothing is delivered in this direction for `ms`
    Stall {
        to_master: bool,
        ms: u64,
    },
    /// the next write in this direction is held up by `ms` (on top of the latency)
    HoldNext {
        to_master: bool,
        ms: u64,
    },
    /// the connection is cut right after the n-th write from now in this direction (what was written last is lost when `eof` is false)
    CutAfterWrites {
        to_master: bool,
        nth: u32,
        eof: bool,
    },
    /// a database transaction made by another thread at the moment the outstation task reaches a lock / wait point
    /// (site substring, occurrences to skip)
    UpdateAtLock {
        site: String,
        skip: u32,
        ops: Vec<UpdateOp>,
    },
    /// what the outstation application reports as its processing delay
    ProcessingDelay(u16),
    /// the outstation application's NEED_TIME indication
    NeedTime(bool),
    /// answer of the application to write_absolute_time: 0 ok, 1 not supported, 2 parameter error
    TimeWriteResult(u8),
    NetPlan(Vec<u8>),
    Sleep(u64),
}

#[derive(Clone, Debug, Serialize, Deserialize)]
pub struct PairCase {
    pub mcfg: MasterCfg,
    pub ocfg: OutCfg,
    pub ctrl: CtrlAnswers,
    /// read chunking of the master's and of the outstation's socket
    pub chunk: (u8, u8),
    pub chunk_seed: u64,
    /// one-way latency master->outstation, outstation->master (ms)
    pub latency: (u64, u64),
    pub script: Vec<POp>,
    pub tail_ms: u64,
}

pub struct PairRun {
    pub master_log: Vec<(u64, u64, MEv)>,
    /// outstation application callbacks: (virtual ms, order, callback)
    pub out_log: Vec<(u64, u64, Cb)>,
    /// database transactions applied: (virtual ms, order, update, result)
    pub updates: Vec<(u64, u64, UpdateOp, crate::outstation::database::UpdateInfo)>,
    pub op_marks: Vec<(usize, u64, u64)>,
    pub user_kinds: Vec<(u64, u16, UserKind)>,
    pub net_attempts: Vec<(u64, ConnectPlan)>,
    pub end_ms: u64,
    pub master_rx: Vec<(u64, u64, u16, Vec<u8>)>,
    pub connections: u64,
}

type Conn = Arc<Mutex<Option<(ChanRef, ChanRef)>>>;

pub async fn drive(sim: &Sim, case: &PairCase) -> PairRun {
    sim.core().record_popped.set(true);
    let net = SimNetwork::new(ChunkMode::from_index(case.chunk.0 as u64), case.chunk_seed);
    net.set_latency(case.latency.0, case.latency.1, 0, 0);
    let out = OutNode::start(sim, &case.ocfg, case.ctrl.clone());
    let connector = out.connector();
    let conn: Conn = Arc::new(Mutex::new(None));
    let connections = Arc::new(Mutex::new(0u64));
    {
        // the listening socket: every accepted connection goes to the outstation's server task
        let net = net.clone();
        let conn = conn.clone();
        let connections = connections.clone();
        let chunk = ChunkMode::from_index(case.chunk.1 as u64);
        let seed = case.chunk_seed ^ 0x5EED;
        sim.spawn("acceptor", async move {
            let mut n = 0u64;
            loop {
                let Accepted {
                    to_client,
                    from_client,
                    ..
                } = net.accept().await;
                n += 1;
                *connections.lock().unwrap() = n;
                *conn.lock().unwrap() = Some((from_client.clone(), to_client.clone()));
                connector
                    .connect_with(from_client, to_client, chunk, seed.wrapping_add(n))
                    .await;
            }
        });
    }
    let mut node = MasterNode::start(sim, &case.mcfg, net.clone()).await;
    let mut polls: Vec<crate::master::PollHandle> = Vec::new();
    let mut op_marks = Vec::new();
    let mut user_kinds = Vec::new();
    let updates: Arc<Mutex<Vec<(u64, u64, UpdateOp, crate::outstation::database::UpdateInfo)>>> =
        Arc::new(Mutex::new(Vec::new()));
    // transactions waiting for the outstation task to reach a lock point: (site, occurrences to skip, updates)
    let lockq: Arc<Mutex<Vec<(String, u32, Vec<UpdateOp>)>>> = Arc::new(Mutex::new(Vec::new()));
    let tracker = Arc::new(Mutex::new(crate::verif::nodes::outstation::StaticTracker::new(&case.ocfg)));
    if case.ocfg.controls_update_db {
        out.rec.lock().unwrap().db_on_operate = Some(crate::verif::nodes::outstation::DbOnOperate {
            tracker: tracker.clone(),
            updates: updates.clone(),
            count: 0,
        });
    }
    {
        let lockq = lockq.clone();
        let updates = updates.clone();
        let tracker = tracker.clone();
        let db = out.handle.get_database_handle();
        sim.set_lock_hook(Box::new(move |site| {
            if site == "transaction" {
                return;
            }
            let mut q = lockq.lock().unwrap();
            let mut i = 0;
            while i < q.len() {
                if site.contains(q[i].0.as_str()) {
                    if q[i].1 == 0 {
                        let (_, _, ops) = q.remove(i);
                        let core = kernel::current();
                        let t = core.as_ref().map(|c| c.now_ms()).unwrap_or(0);
                        let mut results = Vec::new();
                        let mut tr = tracker.lock().unwrap();
                        db.transaction(|d| {
                            for u in &ops {
                                results.push(tr.apply(u, d));
                            }
                        });
                        drop(tr);
                        if let Some(core) = &core {
                            core.count("fault.update_at_lock_point", 1);
                            if core.log_enabled() {
                                core.log(format!(
                                    "  user transaction at lock point '{}': {} updates",
                                    site,
                                    ops.len()
                                ));
                            }
                        }
                        let mut ups = updates.lock().unwrap();
                        for (u, r) in results.into_iter() {
                            let order = core.as_ref().map(|c| c.next_order()).unwrap_or(0);
                            ups.push((t, order, u, r));
                        }
                        continue;
                    } else {
                        q[i].1 -= 1;
                    }
                }
                i += 1;
            }
        }));
    }
    let mut next_user_id = 0u64;
    sim.settle().await;
    for (i, op) in case.script.iter().enumerate() {
        op_marks.push((i, sim.now_ms(), sim.core().next_order()));
        sim.log(|| format!("op {}: {:?}", i, op));
        match op {
            POp::Enable => {
                let mut c = node.channel.clone();
                sim.spawn("enable", async move {
                    let _ = c.enable().await;
                });
            }
            POp::Disable => {
                let mut c = node.channel.clone();
                sim.spawn("disable", async move {
                    let _ = c.disable().await;
                });
                sim.count("fault.disable");
            }
            POp::User(kind) => {
                if let Some(h) = node.assocs.first() {
                    let h = h.clone();
                    node.rec.lock().unwrap().push(MEv::Other {
                        assoc: h.address().raw_value(),
                        what: format!("user-request id={} {:?}", next_user_id, kind),
                    });
                    spawn_user(sim, &node, next_user_id, &h, kind);
                    user_kinds.push((next_user_id, h.address().raw_value(), kind.clone()));
                    next_user_id += 1;
                }
            }
            POp::AddPoll { classes, period_ms } => {
                if let Some(h) = node.assocs.first() {
                    let mut h = h.clone();
                    let slot: Arc<Mutex<Option<crate::master::PollHandle>>> =
                        Arc::new(Mutex::new(None));
                    let s2 = slot.clone();
                    let req = crate::master::ReadRequest::class_scan(classes_of(*classes));
                    let period = Duration::from_millis(*period_ms);
                    sim.spawn("add-poll", async move {
                        if let Ok(p) = h.add_poll(req, period).await {
                            *s2.lock().unwrap() = Some(p);
                        }
                    });
                    sim.settle().await;
                    let added = slot.lock().unwrap().take();
                    if let Some(p) = added {
                        polls.push(p);
                    }
                }
            }
            POp::DemandPoll(k) => {
                if !polls.is_empty() {
                    let mut p = polls[*k % polls.len()].clone();
                    sim.spawn("demand-poll", async move {
                        let _ = p.demand().await;
                    });
                }
            }
            POp::Update(ops) => {
                let (t, _) = order_now();
                let mut results = Vec::new();
                let mut tr = tracker.lock().unwrap();
                out.handle.transaction(|db| {
                    for u in ops {
                        results.push(tr.apply(u, db));
                    }
                });
                drop(tr);
                let mut ups = updates.lock().unwrap();
                for (u, r) in results.into_iter() {
                    let order = sim.core().next_order();
                    ups.push((t, order, u, r));
                }
            }
            POp::Cut { eof } => {
                let c = conn.lock().unwrap().clone();
                if let Some((a, b)) = c {
                    let kind = if *eof {
                        CloseKind::Eof
                    } else {
                        CloseKind::Reset
                    };
                    io::chan_close(&a, kind);
                    io::chan_close(&b, kind);
                    sim.count("fault.cut");
                }
            }
            POp::Stall { to_master, ms } => {
                let c = conn.lock().unwrap().clone();
                if let Some((c2s, s2c)) = c {
                    let ch = if *to_master { s2c } else { c2s };
                    let until = sim.now_ms() + ms;
                    let mut g = ch.lock().unwrap();
                    g.hold_until_ms = g.hold_until_ms.max(until);
                    sim.count("fault.stall");
                }
            }
            POp::HoldNext { to_master, ms } => {
                let c = conn.lock().unwrap().clone();
                if let Some((c2s, s2c)) = c {
                    let ch = if *to_master { s2c } else { c2s };
                    ch.lock().unwrap().hold_next_ms = *ms;
                    sim.count("fault.hold_next");
                }
            }
            POp::CutAfterWrites {
                to_master,
                nth,
                eof,
            } => {
                let c = conn.lock().unwrap().clone();
                if let Some((c2s, s2c)) = c {
                    let ch = if *to_master { s2c } else { c2s };
                    ch.lock().unwrap().cut_after_writes = Some((
                        (*nth).max(1),
                        if *eof {
                            CloseKind::Eof
                        } else {
                            CloseKind::Reset
                        },
                    ));
                }
            }
            POp::UpdateAtLock { site, skip, ops } => {
                lockq
                    .lock()
                    .unwrap()
                    .push((site.clone(), *skip, ops.clone()));
            }
            POp::ProcessingDelay(ms) => {
                out.rec.lock().unwrap().processing_delay_ms = *ms;
            }
            POp::NeedTime(on) => {
                out.rec.lock().unwrap().app_iin.need_time = *on;
            }
            POp::TimeWriteResult(k) => {
                out.rec.lock().unwrap().time_write_result = match k {
                    0 => Ok(()),
                    1 => Err(crate::outstation::RequestError::NotSupported),
                    _ => Err(crate::outstation::RequestError::ParameterError),
                };
            }
            POp::NetPlan(plan) => {
                for x in plan {
                    net.plan(match x % 3 {
                        0 => ConnectPlan::Accept,
                        1 => ConnectPlan::Refuse,
                        _ => ConnectPlan::Hang,
                    });
                }
            }
            POp::Sleep(ms) => {
                sim.sleep_ms(*ms).await;
            }
        }
        sim.settle().await;
    }
    if case.tail_ms > 0 {
        sim.sleep_ms(case.tail_ms).await;
    }
    sim.settle().await;
    let end_ms = sim.now_ms();
    let out_log: Vec<(u64, u64, Cb)> = {
        let r = out.rec.lock().unwrap();
        r.log
            .iter()
            .zip(r.orders.iter())
            .map(|((t, cb), o)| (*t, *o, cb.clone()))
            .collect()
    };
    let master_log = node.rec.lock().unwrap().log.clone();
    let n = *connections.lock().unwrap();
    let _ = kernel::current();
    let updates = updates.lock().unwrap().clone();
    PairRun {
        master_log,
        out_log,
        updates,
        op_marks,
        user_kinds,
        net_attempts: net.attempts(),
        end_ms,
        master_rx: sim.core().popped.borrow().clone(),
        connections: n,
    }
}

// ---------------------------------------------------------------------------------------------
use crate::verif::kernel::{Exit, RunParams};
use crate::verif::runner::{Outcome, Violation};

pub fn execute<F>(prop: &'static str, case: &PairCase, log: bool, analyse: F) -> Outcome
where
    F: FnOnce(&PairCase, &PairRun) -> (Option<Violation>, bool, u64, Vec<(String, u64)>),
{
    let mut outcome = Outcome::default();
    let result: Arc<Mutex<Option<PairRun>>> = Arc::new(Mutex::new(None));
    let r2 = result.clone();
    let case2 = case.clone();
    let params = RunParams {
        log,
        sched_seed: case.chunk_seed,
        tokio_seed: case.chunk_seed ^ 0x517C_C1B7,
        step_cap: 2_000_000,
        ..Default::default()
    };
    let decode_all = case.mcfg.decode_all || case.ocfg.decode_all;
    let run = move || {
        kernel::run_world(params, move |sim| async move {
            let r = drive(&sim, &case2).await;
            *r2.lock().unwrap() = Some(r);
        })
    };
    let report = if decode_all || log {
        crate::verif::trace_sub::with_subscriber(run)
    } else {
        run()
    };
    outcome.sim_ms = report.sim_ms;
    outcome.steps = report.steps;
    outcome.trace_hash = report.trace_hash;
    outcome.log = report.log;
    for (k, v) in &report.counters {
        if k.starts_with("fault.") || k.starts_with("probe.") {
            outcome.count(k, *v);
        }
    }
    outcome.count(
        "fault.rechunk",
        report.counters.get("phys_reads").copied().unwrap_or(0),
    );
    match &report.exit {
        Exit::Done => {}
        Exit::Panic(task, msg, loc) => {
            if loc.contains("/verif/") {
                outcome.harness_error =
                    Some(format!("harness panic in {}: {} at {}", task, msg, loc));
            } else {
                let short = loc.rsplit("/dnp3/src/").next().unwrap_or(loc).to_string();
                outcome.violation = Some(Violation::new(
                    &format!("{}/panic", prop),
                    short,
                    format!("task '{}' panicked: {} at {}", task, msg, loc),
                ));
            }
            return outcome;
        }
        Exit::Spin(task) => {
            outcome.violation = Some(Violation::new(
                &format!("{}/spin", prop),
                task.clone(),
                format!("task '{}' was polled more than the spin budget without virtual time advancing or input being consumed", task),
            ));
            return outcome;
        }
        other => {
            outcome.harness_error = Some(format!("run ended with {:?}", other));
            return outcome;
        }
    }
    let run = result.lock().unwrap().take();
    match run {
        Some(run) => {
            let (v, nt, fp, counters) = analyse(case, &run);
            outcome.violation = v;
            outcome.nontrivial = nt;
            outcome.fingerprint = fp;
            for (k, n) in counters {
                outcome.count(&k, n);
            }
        }
        None => outcome.harness_error = Some("driver produced no result".to_string()),
    }
    outcome
}

pub fn shrink_case(case: &PairCase) -> Vec<PairCase> {
    let mut out = Vec::new();
    for s in crate::verif::runner::shrink_vec(&case.script) {
        let mut c = case.clone();
        c.script = s;
        out.push(c);
    }
    if case.chunk != (0, 0) {
        let mut c = case.clone();
        c.chunk = (0, 0);
        out.push(c);
    }
    if case.mcfg.decode_all || case.ocfg.decode_all {
        let mut c = case.clone();
        c.mcfg.decode_all = false;
        c.ocfg.decode_all = false;
        out.push(c);
    }
    for (i, op) in case.script.iter().enumerate() {
        match op {
            POp::Sleep(ms) if *ms > 1 => {
                let mut c = case.clone();
                c.script[i] = POp::Sleep(ms / 2);
                out.push(c);
            }
            POp::Update(ops) if ops.len() > 1 => {
                for r in crate::verif::runner::shrink_vec(ops) {
                    let mut c = case.clone();
                    c.script[i] = POp::Update(r);
                    out.push(c);
                }
            }
            _ => {}
        }
    }
    out
}
