#!/usr/bin/env python3
"""Writes /tmp/seeded-out/<id>/PROMPT.txt for the seeded-defect sub-agents (property text + scratch worktree only)."""
import json, os, sys
props = {json.loads(l)['id']: json.loads(l) for l in open('/verif/properties.jsonl')}
T = open('/verif/tools/mutant_prompt.txt').read()
for id in sys.argv[1:]:
    p = props[id]
    os.makedirs(f'/tmp/seeded-out/{id}', exist_ok=True)
    open(f'/tmp/seeded-out/{id}/PROMPT.txt','w').write(T.format(wt=f'/tmp/wt-{id}', id=id, title=p['title'], statement=p['statement'], quant=p['quantifier']['text'], files=', '.join(p['anchors']['files'][:8])))
    print("wrote", id)
