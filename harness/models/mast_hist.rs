//! Merged, ordered view of an S-MAST run: what the master transmitted (as seen by the scripted
//! outstation), what the scripted outstation transmitted (with its own verdict of validity), and
//! what the master told its user (handler callbacks, task information, request outcomes).

use crate::verif::nodes::master::{MEv, RxMeas};
use crate::verif::refcodec::app::{self as refapp};
use crate::verif::smast::{MastRun, PeerEv, SmastCase};

#[derive(Clone, Debug)]
pub enum H {
    /// request (non-confirm) written by the master and received by outstation `dest`
    /// `worder` = world-wide order number of the moment the master wrote it
    Request {
        t: u64,
        worder: u64,
        dest: u16,
        seq: u8,
        func: u8,
        bytes: Vec<u8>,
        session: u32,
    },
    /// CONFIRM written by the master
    Confirm {
        t: u64,
        worder: u64,
        dest: u16,
        seq: u8,
        uns: bool,
        session: u32,
    },
    /// fragment transmitted by the scripted outstation (t = time it reaches the master)
    PeerTx {
        t: u64,
        src: u16,
        bytes: Vec<u8>,
        kind: String,
        valid: bool,
        answers: Option<u64>,
        session: u32,
    },
    Begin {
        t: u64,
        assoc: u16,
        read_type: String,
        seq: u8,
        uns: bool,
    },
    Meas {
        t: u64,
        assoc: u16,
        m: RxMeas,
    },
    End {
        t: u64,
        assoc: u16,
        seq: u8,
    },
    TaskStart {
        t: u64,
        assoc: u16,
        task: String,
        func: u8,
        seq: u8,
    },
    TaskSuccess {
        t: u64,
        assoc: u16,
        task: String,
        func: u8,
        seq: u8,
    },
    TaskFail {
        t: u64,
        assoc: u16,
        task: String,
        err: String,
    },
    Unsolicited {
        t: u64,
        assoc: u16,
        dup: bool,
        seq: u8,
    },
    UserRequest {
        t: u64,
        assoc: u16,
        id: u64,
        what: String,
    },
    UserDone {
        t: u64,
        id: u64,
        ok: bool,
        outcome: String,
    },
    Client {
        t: u64,
        state: String,
    },
    Connected {
        t: u64,
        session: u32,
    },
    Closed {
        t: u64,
        session: u32,
    },
    LinkRx {
        t: u64,
        worder: u64,
        ctrl: u8,
        dest: u16,
    },
    /// link status reply of outstation `src` (t = time it reaches the master)
    LinkTx {
        t: u64,
        src: u16,
    },
    GetTime {
        t: u64,
        assoc: u16,
        value: Option<u64>,
    },
    Op {
        t: u64,
        index: usize,
    },
    Other {
        t: u64,
        assoc: u16,
        what: String,
    },
    /// the master's transport reader handed this fragment to the application layer (exact processing point)
    MasterRx {
        t: u64,
        src: u16,
        bytes: Vec<u8>,
    },
    /// the master's transport reader handed a link status request / response from `src` to the application layer
    MasterLinkRx {
        t: u64,
        src: u16,
        response: bool,
    },
    File {
        t: u64,
        id: u64,
        what: String,
        block: u32,
        len: usize,
        content_ok: bool,
        detail: String,
    },
}

impl H {
    pub fn t(&self) -> u64 {
        match self {
            H::Request { t, .. }
            | H::Confirm { t, .. }
            | H::PeerTx { t, .. }
            | H::Begin { t, .. }
            | H::Meas { t, .. }
            | H::End { t, .. }
            | H::TaskStart { t, .. }
            | H::TaskSuccess { t, .. }
            | H::TaskFail { t, .. }
            | H::Unsolicited { t, .. }
            | H::UserRequest { t, .. }
            | H::UserDone { t, .. }
            | H::Client { t, .. }
            | H::Connected { t, .. }
            | H::Closed { t, .. }
            | H::LinkRx { t, .. }
            | H::LinkTx { t, .. }
            | H::GetTime { t, .. }
            | H::Op { t, .. }
            | H::File { t, .. }
            | H::MasterRx { t, .. }
            | H::MasterLinkRx { t, .. }
            | H::Other { t, .. } => *t,
        }
    }
}

/// the whole run as one list ordered by the world-wide order number; each entry carries its order
pub fn history(case: &SmastCase, run: &MastRun) -> Vec<(u64, H)> {
    let mut out: Vec<(u64, H)> = Vec::new();
    for ev in &run.peer_log {
        match ev {
            PeerEv::Rx {
                t,
                order,
                worder,
                dest,
                bytes,
                session,
                ..
            } => {
                if bytes.len() >= 2 && bytes[1] == refapp::FUNC_CONFIRM {
                    out.push((
                        *order,
                        H::Confirm {
                            t: *t,
                            worder: *worder,
                            dest: *dest,
                            seq: bytes[0] & 0x0F,
                            uns: bytes[0] & 0x10 != 0,
                            session: *session,
                        },
                    ));
                } else {
                    out.push((
                        *order,
                        H::Request {
                            t: *t,
                            worder: *worder,
                            dest: *dest,
                            seq: bytes.first().copied().unwrap_or(0) & 0x0F,
                            func: bytes.get(1).copied().unwrap_or(0xFF),
                            bytes: bytes.clone(),
                            session: *session,
                        },
                    ));
                }
            }
            PeerEv::Tx {
                t,
                order,
                src,
                bytes,
                kind,
                valid,
                answers,
                session,
            } => out.push((
                *order,
                H::PeerTx {
                    t: *t + case.latency.1,
                    src: *src,
                    bytes: bytes.clone(),
                    kind: kind.clone(),
                    valid: *valid,
                    answers: *answers,
                    session: *session,
                },
            )),
            PeerEv::LinkRx {
                t,
                order,
                worder,
                frame,
            } => out.push((
                *order,
                H::LinkRx {
                    t: *t,
                    worder: *worder,
                    ctrl: frame.ctrl,
                    dest: frame.dest,
                },
            )),
            PeerEv::LinkTx { t, order, src } => out.push((
                *order,
                H::LinkTx {
                    t: *t + case.latency.1,
                    src: *src,
                },
            )),
            PeerEv::Connected { t, order, session } => out.push((
                *order,
                H::Connected {
                    t: *t,
                    session: *session,
                },
            )),
            PeerEv::Closed { t, order, session } => out.push((
                *order,
                H::Closed {
                    t: *t,
                    session: *session,
                },
            )),
            PeerEv::Note { .. } => {}
        }
    }
    for (t, order, ev) in &run.master_log {
        let h = match ev {
            MEv::BeginFragment {
                assoc,
                read_type,
                seq,
                uns,
                ..
            } => H::Begin {
                t: *t,
                assoc: *assoc,
                read_type: read_type.clone(),
                seq: *seq,
                uns: *uns,
            },
            MEv::Meas { assoc, m } => H::Meas {
                t: *t,
                assoc: *assoc,
                m: m.clone(),
            },
            MEv::EndFragment { assoc, seq } => H::End {
                t: *t,
                assoc: *assoc,
                seq: *seq,
            },
            MEv::TaskStart {
                assoc,
                task,
                func,
                seq,
            } => H::TaskStart {
                t: *t,
                assoc: *assoc,
                task: task.clone(),
                func: *func,
                seq: *seq,
            },
            MEv::TaskSuccess {
                assoc,
                task,
                func,
                seq,
            } => H::TaskSuccess {
                t: *t,
                assoc: *assoc,
                task: task.clone(),
                func: *func,
                seq: *seq,
            },
            MEv::TaskFail { assoc, task, err } => H::TaskFail {
                t: *t,
                assoc: *assoc,
                task: task.clone(),
                err: err.clone(),
            },
            MEv::Unsolicited { assoc, dup, seq } => H::Unsolicited {
                t: *t,
                assoc: *assoc,
                dup: *dup,
                seq: *seq,
            },
            MEv::Client(s) => H::Client {
                t: *t,
                state: s.clone(),
            },
            MEv::GetTime { assoc, t: v } => H::GetTime {
                t: *t,
                assoc: *assoc,
                value: *v,
            },
            MEv::UserDone { id, ok, outcome } => H::UserDone {
                t: *t,
                id: *id,
                ok: *ok,
                outcome: outcome.clone(),
            },
            MEv::Other { assoc, what } => {
                if let Some(rest) = what.strip_prefix("user-request id=") {
                    let id = rest
                        .split_whitespace()
                        .next()
                        .and_then(|x| x.parse().ok())
                        .unwrap_or(0);
                    H::UserRequest {
                        t: *t,
                        assoc: *assoc,
                        id,
                        what: rest.to_string(),
                    }
                } else {
                    H::Other {
                        t: *t,
                        assoc: *assoc,
                        what: what.clone(),
                    }
                }
            }
            MEv::File {
                id,
                what,
                block,
                len,
                content_ok,
                detail,
            } => H::File {
                t: *t,
                id: *id,
                what: what.clone(),
                block: *block,
                len: *len,
                content_ok: *content_ok,
                detail: detail.clone(),
            },
            MEv::AbsTime { assoc, t: v } => H::Other {
                t: *t,
                assoc: *assoc,
                what: format!("abs-time {}", v),
            },
        };
        out.push((*order, h));
    }
    for (t, order, src, bytes) in &run.master_rx {
        if bytes.len() == 2 && bytes[0] == 0xFF {
            // link-layer message (see hooks::link_message_popped)
            out.push((
                *order,
                H::MasterLinkRx {
                    t: *t,
                    src: *src,
                    response: bytes[1] == 1,
                },
            ));
        } else {
            out.push((
                *order,
                H::MasterRx {
                    t: *t,
                    src: *src,
                    bytes: bytes.clone(),
                },
            ));
        }
    }
    for (i, t, order) in &run.op_marks {
        out.push((*order, H::Op { t: *t, index: *i }));
    }
    out.sort_by_key(|e| e.0);
    out
}

/// numeric values carried by the measurement objects of a fragment, in wire order
pub fn fragment_values(bytes: &[u8]) -> Option<Vec<f64>> {
    let f = refapp::decode_fragment(bytes).ok()?;
    Some(
        refapp::measurements(&f)
            .iter()
            .filter_map(|m| m.value)
            .collect(),
    )
}

/// the history re-ordered by the time each event happened *at the master*: requests and confirms were written `latency.0` before
/// the outstation saw them, outstation fragments arrive `latency.1` after they were sent (already folded into `PeerTx::t`).
/// Events of the same master millisecond keep their world-wide order. Returns (original order, event).
pub fn master_time_history(case: &SmastCase, run: &MastRun) -> Vec<(u64, H)> {
    let mut h = history(case, run);
    let key = |e: &(u64, H)| -> u64 {
        match &e.1 {
            H::Request { t, .. } | H::Confirm { t, .. } | H::LinkRx { t, .. } => {
                t.saturating_sub(case.latency.0)
            }
            other => other.t(),
        }
    };
    // what the master wrote is placed where it wrote it
    let ord = |e: &(u64, H)| -> u64 {
        match &e.1 {
            H::Request { worder, .. } | H::Confirm { worder, .. } | H::LinkRx { worder, .. } => {
                *worder
            }
            _ => e.0,
        }
    };
    h.sort_by(|a, b| key(a).cmp(&key(b)).then(ord(a).cmp(&ord(b))));
    h
}
