#!/usr/bin/env python3
"""usage: tools/keep_seed.py <Cnn> <n> <caught: yes|no|n/a> "<needs>" "<what was run / result>"
copies /tmp/seeded-out/<Cnn>/<n>/{patch.diff,demo.diff,notes.md,confirm.log} to /verif/seeded/<Cnn>-<n>/ and writes meta.json"""
import sys, os, shutil, json, subprocess
pid, n, caught, needs, ran = sys.argv[1:6]
# optional: source batch directory and worktree base (second batch: /tmp/seeded2-out, /tmp/wt2), number to keep it under
out_base = os.environ.get("OUT_BASE", "/tmp/seeded-out")
wt_base = os.environ.get("WT_BASE", "/tmp/wt")
keep_n = os.environ.get("KEEP_AS", n)
src = f"{out_base}/{pid}/{n}"
dst = f"/verif/seeded/{pid}-{keep_n}"
os.makedirs(dst, exist_ok=True)
for f in ["patch.diff", "patch.rebased.diff", "demo.diff", "notes.md", "confirm.log"]:
    if os.path.exists(os.path.join(src, f)):
        shutil.copy(os.path.join(src, f), os.path.join(dst, f))
confirm = ""
if os.path.exists(os.path.join(src, "confirm.log")):
    lines = [l for l in open(os.path.join(src, "confirm.log")) if l.startswith("CONFIRMED") or l.startswith("NOT-CONFIRMED")]
    confirm = lines[-1].strip() if lines else ""
base = os.environ.get("BASE_COMMIT") or subprocess.run(["git", "-C", f"{wt_base}-{pid}", "rev-parse", "HEAD"], capture_output=True, text=True).stdout.strip()
meta = {
    "property": pid,
    "seed": f"{pid}-{keep_n}",
    "origin": "independent sub-agent given only the property text and a scratch worktree",
    "base_commit": base,
    "needs_to_manifest": needs,
    "confirmed": confirm,
    "caught_by_check": caught,
    "what_was_run": ran,
}
json.dump(meta, open(os.path.join(dst, "meta.json"), "w"), indent=1)
print("kept", dst)
