//! C08 - the transport layer delivers exactly the fragments that were segmented (engine S-TRANS).
//!
//! Real code: two transport::real::writer::Writer (two senders), one transport::real::reader::Reader
//! with its link Layer and Assembler. Stub: phys + a frame-level fault stage between them.
//! Oracle: reference deframer + reference reassembler over the stream that actually arrives, plus
//! exact attribution (fragment contents are unique).

use crate::app::EndpointType;
use crate::decode::DecodeLevel;
use crate::link::reader::LinkModes;
use crate::link::{EndpointAddress, LinkErrorMode, LinkReadMode};
use crate::outstation::Feature;
use crate::transport::real::reader::Reader;
use crate::transport::real::writer::Writer;
use crate::transport::{FragmentAddr, TransportData};
use crate::util::phys::{PhysAddr, PhysLayer};
use crate::verif::io::{self, ChunkMode, CloseKind, SimSocket};
use crate::verif::kernel::{self, Exit, RunParams};
use crate::verif::refcodec::link as reflink;
use crate::verif::refcodec::link::RefFrame;
use crate::verif::refcodec::transport as reftr;
use crate::verif::rng::{mix, Rng};
use crate::verif::runner::{
    erase, shrink_vec, Codec, Outcome, Property, Scenario, Tier, Violation,
};
use serde::{Deserialize, Serialize};
use std::sync::{Arc, Mutex};

#[derive(Clone, Debug, Serialize, Deserialize)]
pub struct Frag {
    pub sender: u8,
    pub len: usize,
    pub content_seed: u64,
}

#[derive(Clone, Debug, Serialize, Deserialize)]
pub enum FFault {
    Drop(usize),
    Dup(usize),
    /// swap frame i with frame i+1
    Swap(usize),
    /// rewrite the link source address of frame i
    Readdress(usize, u16),
    /// flip one bit of frame i (bit offset within the frame)
    Flip(usize, usize),
    /// rebuild frame i (valid CRCs) with only the first n data octets of its segment - a segment shape the library's own
    /// writer never produces: a short middle segment, or a transport octet and nothing else
    Shorten(usize, usize),
    /// rebuild frame i with other FIR/FIN bits in its transport octet (bit 0 = FIR, bit 1 = FIN)
    TransportFlags(usize, u8),
}

#[derive(Clone, Debug, Serialize, Deserialize)]
pub struct Case {
    pub reader_is_master: bool,
    pub rx_buffer: usize,
    pub close_mode: bool,
    pub reader_addr: u16,
    pub sender_addr: [u16; 2],
    pub pre_advance: [u8; 2],
    pub fragments: Vec<Frag>,
    /// when true the frames of the two senders are interleaved frame by frame following `merge`
    pub interleave: bool,
    pub merge: Vec<u8>,
    pub faults: Vec<FFault>,
    pub cuts: Vec<usize>,
    /// cancellation fault: the stream arrives piece by piece (sizes from `cuts`); after each listed piece the pending read
    /// future of the transport reader is dropped and a new one created (what the session loops do when a timer, a database
    /// change or a user message wakes them)
    #[serde(default)]
    pub cancel_after: Vec<usize>,
    /// the driver calls `read` once more before it takes a completed fragment (as a session that retained it would)
    #[serde(default)]
    pub hold: bool,
    /// session change: the connection ends after this many per-mille of the frames (in the middle of a fragment, more often than
    /// not), the reader is reset as the tasks do at the start of every session, and the rest arrives on a new connection
    #[serde(default)]
    pub session_cut: Option<u16>,
}

pub struct TransScenario;

pub fn property<C: Codec>() -> Property {
    Property {
        id: "C08",
        scenarios: vec![erase::<C, _>(TransScenario)],
    }
}

const FLENS: [usize; 24] = [
    1, 2, 100, 247, 248, 249, 250, 251, 497, 498, 499, 500, 746, 747, 748, 996, 997, 1245, 1494,
    1743, 1992, 2047, 2048, 2048,
];

fn content(f: &Frag) -> Vec<u8> {
    let mut rng = Rng::new(f.content_seed);
    rng.bytes(f.len)
}

fn addr(rng: &mut Rng) -> u16 {
    match rng.below(4) {
        0 => 1,
        1 => 1024,
        2 => 0xFFEF,
        _ => rng.range(0, 0xFFEF) as u16,
    }
}

impl Scenario for TransScenario {
    type Case = Case;

    fn name(&self) -> &'static str {
        "transport"
    }

    fn runs(&self, tier: Tier) -> u64 {
        match tier {
            Tier::Quick => 120_000,
            Tier::Thorough => 4_000_000,
        }
    }

    fn rule(&self) -> String {
        "1..6 fragments with unique random content (lengths weighted on multiples and off-by-ones of 249 up to 2048) from two senders whose \
         writers start at any of the 64 sequence numbers, written through the real transport writers, then dropped/duplicated/swapped/\
         re-addressed/bit-flipped/interleaved at link-frame level and re-chunked at byte level into the real transport reader (buffers 249..=2048, \
         both error modes, both roles); non-trivial = at least one multi-segment fragment AND at least one frame-level fault or interleaving; \
         distinct = hash of (role, buffer class, fragment segment counts, fault kinds and relative positions, interleaving)"
            .to_string()
    }

    fn real_components(&self) -> Vec<&'static str> {
        vec![
            "transport::real::writer::Writer",
            "transport::real::reader::Reader",
            "transport::real::assembler::Assembler",
            "link::layer::Layer",
            "link::reader::Reader",
            "link::parser",
            "link::format",
        ]
    }

    fn stub_components(&self) -> Vec<&'static str> {
        vec![
            "physical layer (SimSocket)",
            "frame-level fault stage between writers and reader",
        ]
    }

    fn generate(&self, rng: &mut Rng, _tier: Tier) -> Case {
        let reader_is_master = rng.bool();
        let rx_buffer = match rng.below(5) {
            0 => 249,
            1 => 2048,
            2 => *rng.pick(&[250usize, 498, 499, 747, 1000, 1494]),
            _ => rng.urange(249, 2048),
        };
        let reader_addr = addr(rng);
        let a = addr(rng);
        let mut b = addr(rng);
        if b == a {
            b = a.wrapping_add(1) % 0xFFF0;
        }
        let two_senders = rng.chance(1, 3);
        let n = rng.urange(1, 6);
        let mut fragments = Vec::new();
        for _ in 0..n {
            let len = if rng.chance(3, 4) {
                let l = *rng.pick(&FLENS);
                // mostly keep within the buffer, sometimes exceed it
                if l > rx_buffer && rng.chance(3, 4) {
                    rng.urange(1, rx_buffer)
                } else {
                    l
                }
            } else {
                rng.urange(1, 2048)
            };
            fragments.push(Frag {
                sender: if two_senders { rng.below(2) as u8 } else { 0 },
                len,
                content_seed: rng.next_u64(),
            });
        }
        let total_frames: usize = fragments.iter().map(|f| (f.len + 248) / 249).sum();
        let interleave = two_senders && rng.chance(1, 2);
        let merge: Vec<u8> = (0..total_frames).map(|_| rng.below(2) as u8).collect();
        let mut faults = Vec::new();
        let nf = match rng.below(6) {
            0 | 1 => 0,
            2 | 3 => 1,
            4 => 2,
            _ => rng.urange(2, 5),
        };
        for _ in 0..nf {
            let i = rng.usize_below(total_frames.max(1));
            faults.push(match rng.below(8) {
                0 => FFault::Drop(i),
                1 => FFault::Dup(i),
                2 => FFault::Swap(i),
                3 => FFault::Readdress(i, if rng.bool() { b } else { addr(rng) }),
                4 => FFault::Flip(i, rng.usize_below(292 * 8)),
                5 => FFault::Shorten(i, if rng.chance(1, 3) { 0 } else { rng.usize_below(249) }),
                6 => FFault::TransportFlags(i, rng.below(4) as u8),
                _ => FFault::Drop(i),
            });
        }
        let has_flip = faults.iter().any(|f| matches!(f, FFault::Flip(..)));
        let close_mode = if has_flip {
            rng.chance(1, 4)
        } else {
            rng.bool()
        };
        let cuts = match rng.below(6) {
            0 => vec![1],
            1 => vec![4096],
            2 => (0..rng.urange(1, 6)).map(|_| rng.urange(1, 3)).collect(),
            3 => (0..rng.urange(1, 8))
                .map(|_| *rng.pick(&[1usize, 9, 10, 11, 17, 18, 19, 28, 291, 292, 293, 584]))
                .collect(),
            4 => (0..rng.urange(2, 8)).map(|_| rng.urange(1, 60)).collect(),
            _ => (0..rng.urange(2, 6))
                .map(|_| rng.urange(100, 900))
                .collect(),
        };
        let cancel_after: Vec<usize> = if rng.chance(1, 4) {
            (0..rng.urange(1, 6)).map(|_| rng.urange(0, 15)).collect()
        } else {
            Vec::new()
        };
        Case {
            reader_is_master,
            rx_buffer,
            close_mode,
            reader_addr,
            sender_addr: [a, b],
            pre_advance: [rng.below(64) as u8, rng.below(64) as u8],
            fragments,
            interleave,
            merge,
            faults,
            cuts,
            cancel_after,
            hold: rng.chance(1, 3),
            session_cut: if rng.chance(1, 5) { Some(rng.range(1, 999) as u16) } else { None },
        }
    }

    fn shrink(&self, case: &Case) -> Vec<Case> {
        let mut out = Vec::new();
        for f in shrink_vec(&case.fragments) {
            if f.is_empty() {
                continue;
            }
            let mut c = case.clone();
            c.fragments = f;
            out.push(c);
        }
        for f in shrink_vec(&case.faults) {
            let mut c = case.clone();
            c.faults = f;
            out.push(c);
        }
        if case.interleave {
            let mut c = case.clone();
            c.interleave = false;
            out.push(c);
        }
        if case.cuts.len() > 1 || case.cuts.first() != Some(&4096) {
            let mut c = case.clone();
            c.cuts = vec![4096];
            out.push(c);
        }
        for (i, f) in case.fragments.iter().enumerate() {
            if f.len > 1 {
                for new_len in [f.len / 2, f.len - 1] {
                    let mut c = case.clone();
                    c.fragments[i].len = new_len.max(1);
                    out.push(c);
                }
            }
        }
        if case.pre_advance != [0, 0] {
            let mut c = case.clone();
            c.pre_advance = [0, 0];
            out.push(c);
        }
        out
    }

    fn execute(&self, case: &Case, log: bool) -> Outcome {
        let mut outcome = Outcome::default();
        let case = case.clone();
        let result: Arc<Mutex<Option<RunResult>>> = Arc::new(Mutex::new(None));
        let r2 = result.clone();
        let case2 = case.clone();
        let params = RunParams {
            log,
            step_cap: 500_000,
            ..Default::default()
        };
        let report = kernel::run_world(params, move |sim| async move {
            let res = drive(&sim, &case2).await;
            *r2.lock().unwrap() = Some(res);
        });
        outcome.sim_ms = report.sim_ms;
        outcome.steps = report.steps;
        outcome.trace_hash = report.trace_hash;
        outcome.log = report.log;
        match &report.exit {
            Exit::Done => {}
            Exit::Panic(task, msg, loc) => {
                if loc.contains("/verif/") {
                    outcome.harness_error =
                        Some(format!("harness panic in {}: {} at {}", task, msg, loc));
                } else {
                    outcome.violation = Some(Violation::new(
                        "C08/panic",
                        loc.clone(),
                        format!("task {} panicked: {} at {}", task, msg, loc),
                    ));
                }
                return outcome;
            }
            other => {
                outcome.violation = Some(Violation::new(
                    "C08/no-termination",
                    format!("{:?}", other)
                        .split('(')
                        .next()
                        .unwrap_or("")
                        .to_string(),
                    format!("transport reader did not finish: {:?}", other),
                ));
                return outcome;
            }
        }
        let res = result.lock().unwrap().take().expect("driver result");
        outcome.violation = res.violation;
        outcome.nontrivial = res.nontrivial;
        outcome.fingerprint = res.fingerprint;
        for (k, v) in res.counters {
            outcome.count(k, v);
        }
        outcome.count(
            "fault.rechunk",
            report.counters.get("phys_reads").copied().unwrap_or(0),
        );
        outcome.count(
            "fault.read_future_cancelled",
            report.counters.get("fault.read_future_cancelled").copied().unwrap_or(0),
        );
        outcome
    }
}

struct RunResult {
    violation: Option<Violation>,
    nontrivial: bool,
    fingerprint: u64,
    counters: Vec<(&'static str, u64)>,
}

fn ep(a: u16) -> EndpointAddress {
    EndpointAddress::try_new(a).expect("generator only produces endpoint addresses")
}

async fn drive(sim: &kernel::Sim, case: &Case) -> RunResult {
    let mut counters: Vec<(&'static str, u64)> = Vec::new();
    let sender_type = if case.reader_is_master {
        EndpointType::Outstation
    } else {
        EndpointType::Master
    };
    let sender_ctrl: u8 = if case.reader_is_master { 0x44 } else { 0xC4 };
    let dest = FragmentAddr {
        link: ep(case.reader_addr),
        phys: PhysAddr::None,
    };

    // 1. segment every fragment with the real writers
    let mut per_sender_frames: [Vec<(usize, Vec<u8>)>; 2] = [Vec::new(), Vec::new()]; // (fragment index, frame bytes)
    let mut seg_violation = None;
    for s in 0..2usize {
        let outbox = io::new_chan();
        let sock = SimSocket::new("writer", io::new_chan(), outbox.clone(), ChunkMode::All, 0);
        let mut phys = PhysLayer::Sim(Box::new(sock));
        let mut writer = Writer::new(sender_type, ep(case.sender_addr[s]));
        for _ in 0..case.pre_advance[s] {
            let _ = writer
                .write(&mut phys, DecodeLevel::nothing(), dest, &[0xEE])
                .await;
        }
        io::chan_drain(&outbox);
        let mut seq = case.pre_advance[s] & 0x3F;
        for (fi, f) in case.fragments.iter().enumerate() {
            if f.sender as usize != s {
                continue;
            }
            let data = content(f);
            if let Err(err) = writer
                .write(&mut phys, DecodeLevel::nothing(), dest, &data)
                .await
            {
                seg_violation = Some(Violation::new(
                    "C08/write-failed",
                    "",
                    format!(
                        "writer returned {:?} for a {}-byte fragment",
                        err,
                        data.len()
                    ),
                ));
            }
            let frames = io::chan_drain(&outbox);
            // what the writer put on the wire for this fragment must be a well-formed segment series that carries exactly
            // this fragment: every octet part of a correct link frame with the right control and addresses, every segment with
            // 1..=249 octets of data, and the reference reassembler gets the fragment - and nothing else - out of it. (How the
            // fragment is cut into segments, and where the sequence numbers start, is the writer's business.)
            let _ = seq;
            let got: Vec<Vec<u8>> = frames.into_iter().map(|x| x.1).collect();
            let stream: Vec<u8> = got.iter().flatten().copied().collect();
            let parsed = reflink::deframe(&stream, false);
            let mut problem: Option<String> = None;
            if parsed.first_error.is_some() {
                problem = Some(format!("framing error {:?}", parsed.first_error));
            }
            let mut reasm = reftr::Reassembler::new(4096);
            let mut out: Vec<(u16, Vec<u8>)> = Vec::new();
            for (_, fr) in &parsed.frames {
                if fr.ctrl != sender_ctrl || fr.dest != case.reader_addr || fr.src != case.sender_addr[s] {
                    problem.get_or_insert(format!("frame with control {:#04x} from {} to {}", fr.ctrl, fr.src, fr.dest));
                }
                match reftr::Segment::parse(&fr.payload) {
                    Some(seg) if !seg.data.is_empty() && seg.data.len() <= 249 => {
                        if let Some(done) = reasm.push(fr.src, &seg) {
                            out.push(done);
                        }
                    }
                    _ => {
                        problem.get_or_insert(format!("segment with {} octets of payload", fr.payload.len()));
                    }
                }
            }
            if problem.is_none() && out != vec![(case.sender_addr[s], data.clone())] {
                problem = Some(format!(
                    "the segments reassemble to {:?} fragment(s) of {:?} octets",
                    out.len(),
                    out.iter().map(|o| o.1.len()).collect::<Vec<_>>()
                ));
            }
            if let (Some(pr), true) = (problem, seg_violation.is_none()) {
                seg_violation = Some(Violation::new(
                    "C08/segmentation-differs",
                    format!("len={} frames={}", data.len() % 249, got.len()),
                    format!(
                        "what the writer produced for a {}-byte fragment ({} frames) is not a well-formed segment series carrying it: {}",
                        data.len(),
                        got.len(),
                        pr
                    ),
                ));
            }
            for fr in got {
                per_sender_frames[s].push((fi, fr));
            }
        }
    }
    if let Some(v) = seg_violation {
        return RunResult {
            violation: Some(v),
            nontrivial: false,
            fingerprint: 0,
            counters,
        };
    }

    // 2. merge
    let mut frames: Vec<Vec<u8>> = Vec::new();
    if case.interleave {
        let mut idx = [0usize, 0usize];
        let mut m = 0;
        while idx[0] < per_sender_frames[0].len() || idx[1] < per_sender_frames[1].len() {
            let mut s = case.merge.get(m).copied().unwrap_or(0) as usize % 2;
            m += 1;
            if idx[s] >= per_sender_frames[s].len() {
                s = 1 - s;
            }
            frames.push(per_sender_frames[s][idx[s]].1.clone());
            idx[s] += 1;
        }
        counters.push(("fault.interleave", 1));
    } else {
        // fragment order as listed
        let mut idx = [0usize, 0usize];
        for (fi, f) in case.fragments.iter().enumerate() {
            let s = f.sender as usize;
            while idx[s] < per_sender_frames[s].len() && per_sender_frames[s][idx[s]].0 == fi {
                frames.push(per_sender_frames[s][idx[s]].1.clone());
                idx[s] += 1;
            }
        }
    }

    // 3. frame-level faults
    let mut readdressed = false;
    let mut fault_fired = case.interleave;
    for f in &case.faults {
        if frames.is_empty() {
            break;
        }
        match f {
            FFault::Drop(i) => {
                let i = i % frames.len();
                frames.remove(i);
                counters.push(("fault.seg_drop", 1));
                fault_fired = true;
            }
            FFault::Dup(i) => {
                let i = i % frames.len();
                let c = frames[i].clone();
                frames.insert(i, c);
                counters.push(("fault.seg_dup", 1));
                fault_fired = true;
            }
            FFault::Swap(i) => {
                if frames.len() >= 2 {
                    let i = i % (frames.len() - 1);
                    frames.swap(i, i + 1);
                    counters.push(("fault.seg_swap", 1));
                    fault_fired = true;
                }
            }
            FFault::Readdress(i, src) => {
                let i = i % frames.len();
                if let reflink::Candidate::Frame(mut fr, _) = reflink::candidate(&frames[i]) {
                    fr.src = *src;
                    frames[i] = reflink::build_frame(&fr);
                    readdressed = true;
                    counters.push(("fault.seg_readdress", 1));
                    fault_fired = true;
                }
            }
            FFault::Shorten(i, keep) => {
                let i = i % frames.len();
                if let reflink::Candidate::Frame(mut fr, _) = reflink::candidate(&frames[i]) {
                    if !fr.payload.is_empty() {
                        fr.payload.truncate(1 + keep % fr.payload.len());
                        frames[i] = reflink::build_frame(&fr);
                        counters.push(("fault.seg_shortened", 1));
                        // (what the receiver is then entitled to deliver is no longer one of the written fragments)
                        readdressed = true;
                        fault_fired = true;
                    }
                }
            }
            FFault::TransportFlags(i, bits) => {
                let i = i % frames.len();
                if let reflink::Candidate::Frame(mut fr, _) = reflink::candidate(&frames[i]) {
                    if !fr.payload.is_empty() {
                        fr.payload[0] = (fr.payload[0] & 0x3F) | ((bits & 1) << 6) | ((bits & 2) << 6);
                        frames[i] = reflink::build_frame(&fr);
                        counters.push(("fault.seg_flags_rewritten", 1));
                        readdressed = true;
                        fault_fired = true;
                    }
                }
            }
            FFault::Flip(i, bit) => {
                let i = i % frames.len();
                let nbits = frames[i].len() * 8;
                let b = bit % nbits;
                frames[i][b / 8] ^= 1 << (b % 8);
                counters.push(("fault.flip", 1));
                fault_fired = true;
            }
        }
    }
    let stream: Vec<u8> = frames.concat();
    // where the first connection ends (a frame boundary; without the cancellation fault only)
    let session_cut: Option<usize> = match case.session_cut {
        Some(pm) if case.cancel_after.is_empty() && frames.len() >= 2 => {
            let k = (frames.len() * pm as usize / 1000).clamp(1, frames.len() - 1);
            Some(frames[..k].iter().map(|f| f.len()).sum())
        }
        _ => None,
    };
    if session_cut.is_some() {
        counters.push(("fault.session_change_mid_stream", 1));
        fault_fired = true;
    }

    // 4. reference: deframe, link filter, reassemble - every session on its own, nothing carried over
    let discard = !case.close_mode;
    let mut reasm = reftr::Reassembler::new(case.rx_buffer);
    let mut expected: Vec<(u16, Vec<u8>)> = Vec::new();
    let parts: Vec<&[u8]> = match session_cut {
        Some(k) => vec![&stream[..k], &stream[k..]],
        None => vec![&stream[..]],
    };
    for part in parts {
        reasm.reset();
        let deframed = reflink::deframe(part, discard);
        for (_, fr) in &deframed.frames {
            // link filter for what this scenario can produce: unconfirmed user data from the opposite
            // station type, addressed to the reader, from an endpoint address
            if fr.ctrl != sender_ctrl || fr.dest != case.reader_addr || fr.src >= 0xFFF0 {
                continue;
            }
            if let Some(seg) = reftr::Segment::parse(&fr.payload) {
                if let Some(done) = reasm.push(fr.src, &seg) {
                    expected.push(done);
                }
            }
        }
    }

    // 5. the real reader
    let delivered: Arc<Mutex<Vec<(u16, Vec<u8>)>>> = Arc::new(Mutex::new(Vec::new()));
    let d2 = delivered.clone();
    let inbox = io::new_chan();
    let cancelling = !case.cancel_after.is_empty();
    let sock = SimSocket::new("reader", inbox.clone(), io::new_chan(), ChunkMode::All, 0)
        .with_plan(if cancelling { Vec::new() } else { case.cuts.clone() });
    let inbox2 = io::new_chan();
    let sock2 = session_cut.map(|_| {
        SimSocket::new("reader-2", inbox2.clone(), io::new_chan(), ChunkMode::All, 0).with_plan(case.cuts.clone())
    });
    let cancel = Arc::new(tokio::sync::Notify::new());
    let cancel2 = cancel.clone();
    let modes = LinkModes {
        error_mode: if case.close_mode {
            LinkErrorMode::Close
        } else {
            LinkErrorMode::Discard
        },
        read_mode: LinkReadMode::Stream,
    };
    let rx_buffer = case.rx_buffer;
    let reader_addr = ep(case.reader_addr);
    let is_master = case.reader_is_master;
    let hold = case.hold;
    let task = sim.spawn("transport-reader", async move {
        let mut phys = PhysLayer::Sim(Box::new(sock));
        let mut reader = if is_master {
            Reader::master(modes, reader_addr, rx_buffer)
        } else {
            Reader::outstation(modes, reader_addr, Feature::Disabled, rx_buffer)
        };
        let mut next_session = sock2;
        loop {
            let res = tokio::select! {
                biased;
                _ = cancel2.notified() => {
                    if let Some(core) = crate::verif::kernel::current() {
                        core.count("fault.read_future_cancelled", 1);
                    }
                    // like the session loops, which look for a complete fragment every time they wake up, whatever woke them
                    while let Some(data) = reader.pop() {
                        if let TransportData::Fragment(f) = data {
                            d2.lock()
                                .unwrap()
                                .push((f.info.addr.link.raw_value(), f.data.to_vec()));
                        }
                    }
                    continue;
                }
                r = reader.read(&mut phys, DecodeLevel::nothing()) => r,
            };
            match res {
                Ok(()) => {
                    // a session may keep a fragment for later (a request that arrives during a confirm wait is looked at again
                    // from idle) and call `read` again first: the fragment must still be there, untouched by what follows it
                    if hold && matches!(reader.peek(), Some(TransportData::Fragment(_))) {
                        if let Some(core) = crate::verif::kernel::current() {
                            core.count("fault.read_again_before_pop", 1);
                        }
                        let again = tokio::select! {
                            biased;
                            r = reader.read(&mut phys, DecodeLevel::nothing()) => Some(r),
                            _ = std::future::ready(()) => None,
                        };
                        if let Some(Err(_)) = again {
                            break;
                        }
                    }
                    while let Some(data) = reader.pop() {
                        if let TransportData::Fragment(f) = data {
                            d2.lock()
                                .unwrap()
                                .push((f.info.addr.link.raw_value(), f.data.to_vec()));
                        }
                    }
                }
                Err(_) => match next_session.take() {
                    Some(s2) => {
                        // the session is over: the task resets its reader and runs the next one on the new connection
                        reader.reset();
                        phys = PhysLayer::Sim(Box::new(s2));
                    }
                    None => break,
                },
            }
        }
    });
    if cancelling {
        let mut pos = 0usize;
        let mut k = 0usize;
        while pos < stream.len() {
            let want = if case.cuts.is_empty() { stream.len() } else { case.cuts[k % case.cuts.len()] };
            let n = want.max(1).min(stream.len() - pos);
            io::chan_push(&inbox, 0, stream[pos..pos + n].to_vec());
            pos += n;
            sim.settle().await;
            if case.cancel_after.contains(&k) {
                cancel.notify_one();
                sim.settle().await;
            }
            k += 1;
        }
    } else if let Some(k) = session_cut {
        io::chan_push(&inbox, 0, stream[..k].to_vec());
        io::chan_push(&inbox2, 0, stream[k..].to_vec());
        io::chan_close(&inbox2, CloseKind::Eof);
    } else {
        io::chan_push(&inbox, 0, stream.clone());
    }
    io::chan_close(&inbox, CloseKind::Eof);
    sim.settle().await;
    let mut guard = 0;
    while !sim.task_done(task) && guard < 100 {
        sim.sleep_ms(1000).await;
        guard += 1;
    }
    let got = delivered.lock().unwrap().clone();

    // 6. oracle
    let mut violation = None;
    if got != expected {
        let idx = got
            .iter()
            .zip(expected.iter())
            .position(|(a, b)| a != b)
            .unwrap_or(got.len().min(expected.len()));
        let kind = if got.len() < expected.len() && got[..] == expected[..got.len()] {
            "fragment-lost"
        } else if got.len() > expected.len() && got[..expected.len()] == expected[..] {
            "extra-fragment"
        } else {
            "fragment-differs"
        };
        violation = Some(Violation::new(
            "C08/ii-iii delivered-vs-reference",
            kind,
            format!(
                "reader delivered {} fragments, reference reassembler {}; first difference at #{}: lib={:?} ref={:?}",
                got.len(),
                expected.len(),
                idx,
                got.get(idx).map(|f| (f.0, f.1.len())),
                expected.get(idx).map(|f| (f.0, f.1.len())),
            ),
        ));
    }
    if violation.is_none() && !readdressed {
        // (i) exact attribution: unique contents
        for (src, data) in &got {
            let ok = case.fragments.iter().any(|f| {
                case.sender_addr[f.sender as usize] == *src
                    && f.len == data.len()
                    && &content(f) == data
            });
            if !ok {
                violation = Some(Violation::new(
                    "C08/i delivered-fragment-never-written",
                    "",
                    format!("a delivered fragment of {} bytes from {} equals none of the written fragments", data.len(), src),
                ));
                break;
            }
        }
    }
    if violation.is_none() && !fault_fired {
        // (iv) fault-free: output == input (fragments that fit the buffer), whatever the chunking
        let want: Vec<(u16, Vec<u8>)> = case
            .fragments
            .iter()
            .filter(|f| f.len <= case.rx_buffer)
            .map(|f| (case.sender_addr[f.sender as usize], content(f)))
            .collect();
        if got != want {
            violation = Some(Violation::new(
                "C08/iv fault-free-stream-not-delivered",
                "",
                format!(
                    "wrote {} deliverable fragments, reader delivered {}",
                    want.len(),
                    got.len()
                ),
            ));
        }
    }

    let multi = case.fragments.iter().any(|f| f.len > 249);
    let nontrivial = multi && fault_fired;
    if case.fragments.iter().any(|f| f.len > case.rx_buffer) {
        counters.push(("probe.fragment_exceeds_rx_buffer", 1));
    }
    if case.pre_advance.iter().zip(0..2).any(|(p, s)| {
        let n: usize = case
            .fragments
            .iter()
            .filter(|f| f.sender == s)
            .map(|f| (f.len + 248) / 249)
            .sum();
        *p as usize + n > 64
    }) {
        counters.push(("probe.sequence_wrapped", 1));
    }
    if fault_fired && !got.is_empty() {
        counters.push(("probe.fragment_delivered_despite_faults", 1));
    }
    counters.push(("fragments_written", case.fragments.len() as u64));
    counters.push(("fragments_delivered", got.len() as u64));

    let mut h = mix(&[
        case.reader_is_master as u64,
        (case.rx_buffer / 249) as u64,
        case.close_mode as u64,
        case.interleave as u64,
    ]);
    for f in &case.fragments {
        h = mix(&[
            h,
            f.sender as u64,
            ((f.len + 248) / 249) as u64,
            (f.len % 249 == 0) as u64,
        ]);
    }
    let total = frames.len().max(1);
    for f in &case.faults {
        let v = match f {
            FFault::Drop(i) => 100 + (i % total) as u64,
            FFault::Dup(i) => 200 + (i % total) as u64,
            FFault::Swap(i) => 300 + (i % total) as u64,
            FFault::Readdress(i, _) => 400 + (i % total) as u64,
            FFault::Flip(i, b) => 500 + (i % total) as u64 * 4 + (*b as u64 % 4),
            FFault::Shorten(i, k) => 600 + (i % total) as u64 * 4 + (*k == 0) as u64,
            FFault::TransportFlags(i, b) => 700 + (i % total) as u64 * 4 + *b as u64,
        };
        h = mix(&[h, v]);
    }
    h = mix(&[
        h,
        case.cuts.len().min(4) as u64,
        case.cuts.first().copied().unwrap_or(0).min(20) as u64,
    ]);

    RunResult {
        violation,
        nontrivial,
        fingerprint: h,
        counters,
    }
}
