#!/usr/bin/env python3
"""Regenerates /verif/MANIFEST.json from the table below (keeps the file consistent)."""
import json, os

ROOT = os.path.dirname(os.path.dirname(os.path.abspath(__file__)))

NOT_APPLICABLE = {
    "C09": "pure function of its input (parse(encode(x)) == x and the header grammar): no schedule, clock, I/O, fault or second party for a simulator to control; input generation alone would not be deterministic simulation (DESIGN.md section 1)",
    "C10": "pure data-conversion pipeline (value -> variation encoding -> extraction), quantified over inputs and configurations only; nothing in it depends on interleaving, time or faults (DESIGN.md section 1)",
    "C20": "enum/struct translation tables of the FFI crate: no concurrency, time, I/O or multi-party behaviour, and the simulator cannot cross the C ABI (DESIGN.md section 1)",
}

# property -> (engine, technique, level text, level note, design ref)
CLAIMED = {
    "C06": (
        "S-LINK",
        "deterministic simulation: seeded search over byte streams, bit-error/noise/truncation faults and read schedules of the real link reader, compared with an independent whole-stream reference deframer",
        "Seeded exploration (not exhaustive): each run feeds library-formatted frames, noise and bit errors to the real link::reader::Reader through a simulated physical layer under a generated read plan (1-byte reads up to whole stream, datagrams) and compares the delivered frame sequence with a bit-serial-CRC reference deframer run over the whole stream; the formatter is cross-checked byte for byte. Right level because the property quantifies over chunkings x error patterns x modes, which sampling with boundary-weighted generators covers densely (millions of runs per minute) but cannot enumerate.",
        "Trusted: the reference deframer/CRC in harness/refcodec/link.rs (written from IEEE 1815), the simulated phys seam (hook H2), tokio's current_thread runtime. Error patterns of weight 1..3 are sampled (stratified over header, CRC and block positions), not enumerated.",
        "DESIGN.md section 6 C06",
    ),
    "C08": (
        "S-TRANS",
        "deterministic simulation: seeded search over fragment sets, writer sequence offsets, frame-level drop/dup/swap/re-address/flip/interleave faults and read schedules between the real transport writers and reader, compared with reference segmenter/reassembler and exact attribution",
        "Seeded exploration (not exhaustive): fragments with unique content are segmented by two real transport writers (cross-checked against a reference segmenter and framer), the resulting link frames are dropped, duplicated, swapped, re-addressed, bit-flipped or interleaved, re-chunked at byte level and fed to the real transport reader; delivered fragments are compared with a reference reassembler run on the stream that actually arrived, attributed exactly to written fragments, and in fault-free runs required to equal the input. Right level: the property quantifies over lengths x sequence offsets x buffer sizes x damaged segment streams, which is sampled densely with boundary-weighted generators.",
        "Trusted: reference framer/deframer and reassembler in harness/refcodec (written from IEEE 1815), the simulated phys seam (H2). transport::real is only compiled in non-test builds, so it runs here through the shadow manifest.",
        "DESIGN.md section 6 C08",
    ),
    "C03": (
        "S-OUT",
        "deterministic simulation: seeded search over histories of updates (incl. lock-point injection), polls, confirms, timeouts, unsolicited series and reconnects against the real outstation; oracle = independent event ledger fed by UpdateInfo ids and a reference decoder",
        "Seeded exploration (not exhaustive): every event the real outstation creates is entered in a ledger with the id returned by update2(); every transmitted fragment is decoded by the reference decoder and its event objects matched to live ledger entries (exact index/value/flags/time through the variation), order oldest-first within and across fragments, no older live event of the same type+class skipped, complete class polls carry all live events of the class; event_cleared() callbacks must equal exactly the events carried by the response whose CONFIRM (right sequence, right UNS bit) was sent in that step; end_confirm counts must equal the ledger; overflow discards must name the oldest live event of the type. Right level: the property quantifies over interleavings and fault sequences; histories of 5..40 operations are sampled at ~40k/s.",
        "Trusted: reference decoder and size table (harness/refcodec/app.rs), UpdateInfo ids as reported by the library (cross-checked for uniqueness, capacity and oldest-first discard), simulated phys (H2), lock-point hook (H4), tokio paused clock. Values are restricted to ones every variation carries exactly (projection of narrower variations is C10's subject). Liveness (a timely correct CONFIRM must release) is checked only as 'confirmed events not released'.",
        "DESIGN.md section 6 C03",
    ),
    "C05": (
        "S-OUT",
        "deterministic simulation: seeded search over (function, session state, interleaved changes) with the dup-msg fault (byte-identical re-delivery) against the real outstation; oracle = callback ledger + byte comparison with what was transmitted before",
        "Seeded exploration (not exhaustive): every function the outstation executes is sent and re-sent 1..3 times from idle, during the confirm wait of fragment 1,2,.. of a multi-fragment series and during an unsolicited confirm wait, with database/application-IIN changes in between and withheld confirms provoking unsolicited retries; the oracle demands zero additional mutating callbacks, a reply byte-identical to the first reply, and that every echo/retry equals a fragment already transmitted in the session.",
        "Trusted: recording stubs for ControlHandler/OutstationApplication, simulated phys (H2), tokio paused clock. Exemption written into the property: a READ repeated from idle may get a fresh response. 'The request processed last' is taken as the last non-CONFIRM fragment addressed to the outstation by the configured master.",
        "DESIGN.md section 6 C05",
    ),
    "C13": (
        "S-OUT",
        "deterministic simulation: seeded search over update/poll/unsolicited/overflow/broadcast/restart-write/reconnect histories with user transactions injected at database lock points; oracle = IIN model evaluated at each response's own get_events_info lock point using a world-wide event order",
        "Seeded exploration (not exhaustive): for every newly formatted response (identified by the get_events_info lock point that precedes its transmission; re-sends excluded) the class 1/2/3 and overflow bits are compared with the ledger state at that lock point (events carried by this response or by an unsolicited response still awaiting confirmation excluded), the restart bit with a model cleared only by WRITE g80v1[7]=0, the broadcast bit with 'received and not yet reported / for confirm-mandatory not yet confirmed', and the four application bits with the stub's current answer. Callbacks, lock points, user transactions and transmissions carry a world-wide sequence number so the model is evaluated in the exact order things happened.",
        "Trusted: ledger + reference decoder, OutstationInformation callbacks for the end of confirm waits and for the moment a broadcast is processed, simulated phys (H2), lock-point hook (H4). Deliberately unknown (not asserted): broadcast indication after a cut/pre-empted connection or a solicited CONFIRM during an unsolicited wait; restart bit of fragments in the step of a broadcast restart-write.",
        "DESIGN.md section 6 C13",
    ),
    "C07": (
        "S-LINK + S-OUT",
        "deterministic simulation: seeded search over link-frame histories (all control octets x destination/source classes x roles x features) against the real link layer with a reference secondary-station table, and over foreign-master/broadcast application fragments in every session state against the real outstation",
        "Seeded exploration (not exhaustive), two scenarios. link: histories of 1..14 frames with any of the 256 control octets, destinations own/other/self/three broadcast/reserved, endpoint and reserved sources, delivered to the real link Layer in master or outstation role with self-address on/off; after every frame the frames passed up and the reply octets are compared with a reference secondary-station table (reset/FCB state). app: valid, unsupported, mis-flagged, truncated and garbage fragments from a foreign master or to the broadcast addresses while the real outstation is idle, in solicited or in unsolicited confirm wait, with any-master/broadcast/self-address on and off: no solicited response or link reply in the step of a broadcast, no response and no mutating callback for a foreign master, replies addressed to the sender with any-master.",
        "Trusted: reference secondary-station table (harness/props/c07.rs, from IEEE 1815 clause 9) with don't-care cells where the standard is silent (bad FCV, TEST_LINK_STATES, undefined functions); recording stubs; simulated phys (H2).",
        "DESIGN.md section 6 C07",
    ),
    "C11": (
        "S-OUT",
        "deterministic simulation: seeded search over databases, READ requests, tx buffer sizes, confirms (right/wrong/late/missing) and updates injected between fragments and at database lock points; oracle = mirror snapshot taken at the request's select lock point + series-shape monitor",
        "Seeded exploration (not exhaustive): the harness mirrors the database (it applies every update itself), snapshots the mirror at the select lock point of each READ, computes from the request headers the list of static objects the series must carry (existing selected points, ascending, requested or configured variation, packed variations only for plainly ONLINE points) and compares it object by object with the concatenated fragments (prefix if the series is cut short, equality at FIN); FIR/FIN/CON/sequence shape, 'next fragment only after the matching confirm sent within the confirm timeout' and 'nothing after the series ended' are monitored.",
        "Trusted: reference decoder, the mirror (fed by the harness' own updates), lock-point hook (H4) for the snapshot instant. Points are not added or removed during a series; values are ones every variation carries exactly. Event objects in the same responses are C03's subject and skipped here.",
        "DESIGN.md section 6 C11",
    ),
    "C12": (
        "S-OUT",
        "deterministic simulation: seeded search over requests (every function code, every header-flag combination, supported/unsupported/unknown/truncated/garbage objects, mixed multi-header requests, oversize echoes) in every session state against the real outstation; oracle = reference decoder + correlation rules + clear-cut rejection table",
        "Seeded exploration (not exhaustive): every transmitted fragment must fit the configured tx size, decode with the reference decoder consuming every octet, carry function 129/130 with the right UNS/FIR/FIN/CON bits and a sequence number that answers a request (solicited) or continues the unsolicited numbering; CONFIRM and the no-ack functions are never answered; requests that are clear-cut rejections (function not implemented, truncated data, start>stop, unknown qualifier, definitely unknown object, WRITE of IIN other than clearing restart, non-control object in a control request, freeze of a non-counter, READ headers with an index-prefix qualifier) must be answered with IIN2 error bits, also when the request is a READ deferred behind an unsolicited confirm wait and answered after the series ends.",
        "Trusted: reference decoder and object size table, the clear-cut rejection table (kept to cases on which standard and library cannot disagree; everything else is don't-care), simulated phys (H2). Response function codes (>=129) sent as 'requests' and fragments larger than the rx buffer are outside the statement.",
        "DESIGN.md section 6 C12",
    ),
    "C14": (
        "S-OUT",
        "deterministic simulation: seeded search over updates, enable/disable requests, right/wrong/missing confirms, requests during the wait, virtual-time advances around confirm timeout and retry delay, retry limits and reconnects; oracle = temporal monitor R1..R8 over the wire with virtual timestamps",
        "Seeded exploration (not exhaustive): a monitor over transmitted fragments, sent requests and information callbacks in their exact order checks R1 only empty unsolicited responses (fresh sequence numbers) until one is confirmed, R2/R6 data only for enabled classes, R3 one outstanding series, R4 retries identical / not early / not more than configured, R5 next series not before the retry delay, R7 a READ received during the wait is answered after the series ends unless superseded, and the bounded-liveness rule R8 (events of an enabled class buffered, nothing outstanding, no retry delay pending => an unsolicited response was transmitted) which catches lost database-change wake-ups through the wait_for_change simulation point.",
        "Trusted: ledger + reference decoder for the classes of reported events, OutstationInformation callbacks for the instant a confirm timer fires / a confirmation is accepted (each cross-checked against the configured timeout and the CONFIRMs actually sent), tokio paused clock. A CONFIRM sent exactly at the timeout instant ends monitoring of that run (either outcome legitimate).",
        "DESIGN.md section 6 C14",
    ),
    "C15": (
        "S-MAST",
        "deterministic simulation: seeded search over response streams (faithful answers mixed with single-respect deviations, stale/foreign/late/duplicate fragments, unsolicited traffic, raw injections, silence), network latencies and read chunkings against the real master task over a simulated TCP seam; oracle = acceptance/confirmation/delivery obligations evaluated over the recorded history in master-time order",
        "Seeded exploration (not exhaustive): the real ClientTask + MasterTask talk to a scripted outstation through the simulated network (hook H3) in virtual time. For every outstanding task kind (user reads with 1..20 response fragments, commands, time-sync steps, empty-response requests, restarts) and for idle, the scripted outstation answers with the correct response or one that is wrong in exactly one respect (sequence, source, each FIR/FIN/CON/UNS nibble on first and later fragments, function code, IIN2 rejection, truncated / replaced objects), stale-then-correct, duplicates, late replies beyond the timeout, unsolicited responses with and without data/CON at every position and repeated up to three times, and silence. Every response carries unique values, so each value handed to the ReadHandler is attributed to one transmitted fragment. The oracle requires: nothing the outstation classed unacceptable reaches the handler or completes a task; every acceptable fragment is delivered exactly once in wire order; every accepted CON fragment gets exactly one CONFIRM with its sequence/UNS bit and no CONFIRM is sent otherwise; a repeated unsolicited fragment is confirmed but not delivered.",
        "Trusted: reference codec (harness/refcodec), the scripted outstation's own classification of each fragment it sends, the recording handler stubs, tokio's paused clock. Deliberate relaxations: a deviation that happens to be indistinguishable from a correct answer at the moment it arrives (well-formed, expected sequence and FIR, in time - e.g. a stale answer that was held up, a truncation right after the IIN, count-qualified event headers that the library's direction-agnostic parser reads as data-less) makes the rest of that request don't-care; so does an arrival in the same virtual millisecond as a task boundary or the response deadline. With start-up gating configured, unsolicited data before integrity completion is left to C17.",
        "DESIGN.md section 6 C15",
    ),
    "C16": (
        "S-MAST",
        "deterministic simulation: seeded search over user request mixes (commands of all five variations, reads, time syncs, restarts, dead-band writes, link checks, file reads), per-step reply deviations (echo mutations, IIN2, sequence/source/flags, late, silence, file block/status), and faults placed before/between/after protocol steps (connection cut, refused/hanging reconnects, disable, association removal, master task dropped, unrelated channel traffic) against the real master over a simulated TCP seam; oracle = outcome obligations evaluated over the recorded history",
        "Seeded exploration (not exhaustive): requests are submitted singly and in bursts (queue limits 1, 2, 16) to the real ClientTask + MasterTask; the scripted outstation answers each protocol step faithfully or with a reply that differs in one status, value bit, index, object count, order, header count or qualifier, rejects with IIN2, uses a wrong sequence/source/flag nibble, answers late or not at all; file reads are served by a scripted g70 file server (wrong block number, error status, lost blocks, reader aborts). The oracle checks on its own record of the wire: (R1) every request - also after cuts, disable, removal and dropping the master task - has exactly one outcome by the end of a 60 s quiet tail, and a FileReader exactly one terminal callback, preceded by `opened` and the blocks in order with the right contents; (R2) every task ends at most one response timeout after its last request or accepted fragment, and a link status check one timeout after its request frame; (R3) a command reports success only if every step was answered within its timeout by a byte-identical all-SUCCESS echo from the addressed outstation with the request sequence number, any other request only if every step had an acceptable answer; (R4) OPERATE is written only after such an echo of its SELECT, with sequence + 1 and identical objects; (R5) a request whose every step was faithfully answered with nothing else going on succeeds; (R6) a lost reply yields ResponseTimeout at written + timeout, an error status BadStatus, an IIN2 rejection the IIN2 error; (R9) a link status check ends no later than one response timeout after its request frame was written, whatever else arrives; (R10) a request fails with Shutdown only if the master was shut down (or its association removed, or its file reader aborted the transfer itself). Configurations include transmit buffers smaller than the generated command set, an application without a clock, directory and file-info requests, and replies followed at once by end-of-file.",
        "Trusted: reference codec, the scripted outstation's labelling of what it sent, recording stubs, tokio paused clock. Tasks are paired with user requests per association first-in first-out with a consistency check (function code, times, outcome); runs where the pairing is not unique (0.6 %) only get R1/R9. R5/R6 apply only to undisturbed requests (connected throughout, no fault operation, queue not full) whose steps saw nothing but clearly ignorable fragments before the decisive one; arrivals in the same millisecond as the deadline or the task start are don't-care. A connect attempt that nobody answers is ended after 21 s (operating system SYN timeout) because requests are not serviced while the client task sits in connect().",
        "DESIGN.md section 6 C16",
    ),
    "C17": (
        "S-MAST",
        "deterministic simulation: seeded search over association configurations, placements of RESTART / NEED_TIME / overflow / events-available indications in responses and unsolicited messages, failure runs of every automatic task (silence, IIN2 rejection, unparsable reply), unsolicited traffic at every point of the start-up sequence, and reconnects / disable-enable at any step, against the real master over a simulated TCP seam; oracle = reference automaton of outstanding start-up obligations plus back-off arithmetic, evaluated over the recorded history",
        "Seeded exploration (not exhaustive): per association the oracle keeps the set of outstanding obligations {clear restart, disable unsolicited, integrity, time sync, enable unsolicited, event scan} - armed at every new connection as configured, by a restart indication (clear + integrity + enable, gate closed), NEED_TIME (time sync), overflow (integrity) and events-available (event scan) in any fragment the master processed (taken at the exact processing point through hook H5) - and requires of every task start that the task is outstanding and nothing of higher rank is (order: clear, disable, integrity, time sync, enable, event scan, then periodic polls), so polls never resume early. Back-off: the n-th consecutive failure of a task is followed by a retry no earlier than min(min*2^(n-1), max) and, when the channel was idle throughout, no later than that + 2 ms. Gate: the sequences of unsolicited responses delivered (AssociationInformation) and confirmed (wire) must equal those of the responses that were empty or arrived while the gate was open (closed at connect and at a restart indication, opened by a completed integrity poll). Bounded liveness: 40 s after the last fault or deviation on a live connection nothing is outstanding.",
        "Trusted: reference codec, recording stubs, hook H5 (moment a fragment reaches the application layer), tokio paused clock. Readings of the property built into the automaton from the start (DESIGN.md section 6 C17): a step whose own response shows the restart indication was executed by the restarted outstation and is not demanded again; a restart indication while the clear-restart task is still outstanding adds nothing; an outstation that rejects enable/disable unsolicited with IIN2 is not retried; a clear-restart answered with the bit still set counts as a failure. Unsolicited responses sent or confirmed within one round trip of a disconnect are don't-care. The scripted outstation clears events-available/overflow once the events are read, like a real one (otherwise the master is legitimately driven round in circles).",
        "DESIGN.md section 6 C17",
    ),
    "C19": (
        "S-MAST",
        "deterministic simulation: seeded search over sets of 1..4 associations on one channel, polls with arbitrary periods, recognisable user requests submitted at arbitrary virtual times, prompt/late/missing responses, poll demand/removal, keep-alive settings and enable/disable/cut toggles against the real master over a simulated TCP seam in virtual time; oracle = schedule monitor over the virtual timestamps of every request written and every user call, plus the executor's poll count of the master task",
        "Seeded exploration (not exhaustive): every user request is a DIRECT_OPERATE with a unique index and every poll of an association has its own class set, so each request on the wire is attributed. The monitor requires: (S1) no task starts and no link status request is written while another request is unanswered and has not timed out; (S2) user requests of one association go out in submission order; (S3) nothing but a user request starts while a user request submitted earlier (to any association) is waiting; (S4) a poll starts no earlier than its previous completion (or its addition) + period unless demanded; (S5) a poll that became due on an idle, connected channel starts within 2 ms, and none is left due for more than a second at the end; (S6) no association is served twice in a row while a user request or a due poll of another association has been waiting since before the first of the two turns; (S7) a keep-alive link status request is written only to an association with keep-alive configured and not before the configured silence has elapsed since the last frame the master took from that outstation (hook H5); (S7b) with keep-alive configured, an open connection and nothing taken from that outstation for the configured silence (+ one response timeout if a task is in flight), a link status request has been written; (S8) the master task is polled at most 200 times per recorded event (it sleeps until the earliest deadline), and the kernel's spin detector (20000 polls without virtual time or input advancing) is a violation.",
        "Trusted: reference codec, recording stubs, hook H5 for the moment a fragment or link-layer frame reaches the master's application layer, tokio paused clock. The due time of a poll is unknown (rules S4-S6 suspended for it) after a poll of its association ran whose request never reached the outstation (connection cut), until it runs again. Ties are avoided by only counting user requests submitted in an earlier millisecond.",
        "DESIGN.md section 6 C19",
    ),
    "C18": (
        "S-PAIR",
        "deterministic simulation: seeded search over master clock values (weighted to the top of the 48-bit range), forward/backward one-way delays and outstation processing delays of 0..70 s (honest or dishonest), the three procedures, abandoned attempts, refused writes and a standing NEED_TIME, with the real master and the real outstation connected through the simulated network (scenario pair), and over interleaved unsolicited/stale/foreign replies, unexpected objects and missing replies against a scripted outstation (scenario scripted); oracle = clock error at the instant write_absolute_time is invoked, against the bound of the property",
        "Seeded exploration (not exhaustive). Pair: the master's wall clock is base + virtual time; the two directions of the simulated connection have constant latencies f and b; the reply to DELAY_MEASURE is held for exactly the processing delay the outstation application reports (honest) or less (dishonest). At the virtual instant the recording application stub receives write_absolute_time(ts) the oracle computes |ts - master clock|: reported success requires an error <= f + 1 ms (LAN, direct write) or <= |f-b|/2 + 1 ms (non-LAN, honest), a time within 48 bits, and is forbidden when NEED_TIME still stands, the application refused the time or the reported delay exceeds the round trip; a first, undisturbed, honest procedure whose time fits must succeed. Scripted: the scripted outstation does the outstation arithmetic itself; success is forbidden when a step got no acceptable answer (silence, unexpected objects, IIN2 rejection) or NEED_TIME is sticky, and the same accuracy bounds apply with unsolicited responses, stale wrong-sequence and foreign replies interleaved at every step.",
        "Trusted: tokio paused clock (both endpoints and the harness read the same virtual time, so one-way delays are exact), the recording application stubs, reference codec for the scripted side. Accuracy of a dishonest non-LAN run is not judged (only that it fails when the report exceeds the round trip); +-1 ms for millisecond truncation.",
        "DESIGN.md section 6 C18",
    ),
    "C02": (
        "S-PAIR",
        "deterministic simulation: seeded search over database shapes, update transactions (also injected at the outstation task's lock and wait points), polls, unsolicited reporting, commands and connection faults (cut, cut right after the n-th write, stall, refused reconnect, disable/enable, re-chunking on both sockets) with the real master and the real outstation connected through the simulated network; oracle = provenance, freshness, at-least-once and final-equality checks of everything the master's ReadHandler received against the harness' ledger of what the outstation's database held and created",
        "Seeded exploration (not exhaustive). Two scenarios: converge (start-up integrity poll, periodic integrity poll, unsolicited on or off) and unsolicited-only (no poll after start-up, every update creates an event). During the run: every value handed to the master's ReadHandler belongs to an existing point; an event equals (value, flags, time as far as the variation carries them) an event created for exactly that point no later than its delivery; a static value equals a value the point held at some moment between the start of the read that fetched it and its delivery (nothing fabricated, cross-wired or resurrected); the outstation's UpdateInfo bookkeeping is consistent (ids unique, discards oldest-first, capacity). After faults and updates have stopped for 60 s on a live connection: every event not reported as overflow-discarded has reached the handler at least once (identical events matched one to one), and for every point the last static value delivered (unsolicited-only: the last thing delivered) equals what the database holds.",
        "Trusted: the ledger (harness/models/ledger.rs) fed with the UpdateInfo returned by every transaction and the application's event-cleared callbacks, the recording stubs, the simulated network. Update values are ones every variation carries exactly (conversion is C10's subject, not applicable here). The quiet tail (90 s) exceeds reconnect back-off + start-up sequence + unsolicited retry + two poll periods for every generated configuration. In the unsolicited-only scenario a point whose newest event was discarded by overflow is exempt from the final equality.",
        "DESIGN.md section 6 C02",
    ),
    "C01": (
        "S-OUT",
        "deterministic simulation: seeded search over hostile byte streams (well-formed, mutated, extreme-field, arbitrary application octets in valid framing, link-level garbage and frames cut short), the protocol state in which they arrive (idle, solicited / unsolicited confirm wait, mid series, selection held, task outstanding), chunkings, decode levels, buffer sizes, link error modes and reconnects, against the real outstation (engine S-OUT) and the real master (engine S-MAST); oracle = no panic / spin / hang in any poll of the endpoint task plus a keeps-serving probe at the end of every run",
        "Seeded exploration (not exhaustive). The endpoint tasks run under the simulation kernel with overflow checks and debug assertions on; a panic in any poll (caught per task, location reported), more than 20000 polls without virtual time or input advancing (spin) and a run that does not finish (watchdog) are violations. Outstation scenario: a hostile master drives the real outstation into idle / confirm waits / multi-fragment series / selection and injects requests of every function code, mutations (bit flips, truncation, extension, fields forced to 0/1/255/65535, ranges ending at 65535, maximal counts, free-format and octet-string headers), arbitrary octets up to the receive buffer, and link-level garbage; with decode level everything a formatting subscriber is installed so every Display path runs. Master scenario: hostile outstations answer reads, commands, time syncs, restarts, file transfers, start-up tasks and polls, and talk while the master is idle, with the same classes of input as responses and unsolicited responses. Probe: after the input stops and all timeouts have lapsed (Close mode after link-level garbage: on the next session; otherwise on the same one, with padding frames pushing a cut-short frame out of the parser) the outstation must answer a link status request and a DELAY_MEASURE, and the master must complete a faithfully answered user read. In the master scenario every started task must also end within its last progress (request written or fragment accepted) + the response timeout: input the master ignores may not keep a task waiting.",
        "Trusted: the kernel's panic capture and spin budget, reference codec for building the probe, the recording stubs. The probe verdict is only given when the script still ends with the generator's epilogue (the minimiser may not remove the pause, padding or reconnect that make the probe meaningful). Configurations cover rx 249..2048, tx 249..2048, event buffers 3/20, both link error modes, decode none/all; other decode-level combinations are not sampled individually.",
        "DESIGN.md section 6 C01",
    ),
    "C04": (
        "S-OUT",
        "deterministic simulation: seeded search over request histories, virtual-time advances around the select timeout, retransmissions, reconnects/pre-emption and handler answers against the real outstation task; oracle = the property's predicate evaluated on the harness' own record of the history",
        "Seeded exploration (not exhaustive) of SELECT/OPERATE histories against the real OutstationTask run by the real ServerTask over simulated connections in virtual time: between the two steps the generator places READs, CONFIRMs, malformed/unknown/broadcast/foreign-master fragments, exact retransmissions, time advances to select_timeout-1/0/+1 ms, disconnects, pre-empting connections and disable/enable; the oracle evaluates the property's predicate on its own history record and demands zero actuations and non-success echoes when it is false, exactly one actuation per object with the handler's statuses when a fresh SELECT is directly followed by its OPERATE. Right level: the property is about histories and timing, which cannot be enumerated but are sampled densely (30k histories/s).",
        "Trusted: reference request builder/response decoder (harness/refcodec/app.rs), the simulated phys seam (H2), tokio's paused clock. Relaxations (DESIGN section 6 C04): outcome is don't-care when only retransmissions of the SELECT intervene, when the SELECT itself is a retransmission, and at elapsed == select timeout exactly; echoed statuses of a retransmitted OPERATE are not checked (answered from memory, C05).",
        "DESIGN.md section 6 C04",
    ),
}

PENDING_REASON = "check not built yet in this tree (work in progress, see DESIGN.md section 11); not claimed until its oracle has passed determinism and sensitivity validation"

def main():
    props = [json.loads(l) for l in open(os.path.join(ROOT, "properties.jsonl"))]
    checks = []
    na = []
    for p in props:
        pid = p["id"]
        if pid in CLAIMED:
            engine, technique, text, note, ref = CLAIMED[pid]
            checks.append({
                "property_id": pid,
                "quick_cmd": f"./check {pid} quick",
                "thorough_cmd": f"./check {pid} thorough",
                "evidence_file": f"/verif/evidence/{pid}.json",
                "replay_cmd_template": "./check replay {path}",
                "engine": engine,
                "level_claimed": {"category": "exploration", "text": text, "design_ref": ref},
                "level_note": note,
                "technique": technique,
            })
        elif pid in NOT_APPLICABLE:
            na.append({"property_id": pid, "reason": NOT_APPLICABLE[pid]})
        else:
            na.append({"property_id": pid, "reason": PENDING_REASON})
    hooks_commits = []
    try:
        import subprocess
        out = subprocess.run(["git", "-C", "/repo", "log", "--format=%H %s"], capture_output=True, text=True).stdout
        hooks_commits = [l.split()[0] for l in out.splitlines() if "verif hooks" in l]
    except Exception:
        pass
    manifest = {
        "version": 1,
        "setup_cmd": "./check build",
        "hooks": {
            "guard": "--cfg dnp3_verif",
            "enable": "shadow manifest /verif/sim/Cargo.toml builds /repo/dnp3/src/lib.rs as package `dnp3` with RUSTFLAGS `--cfg dnp3_verif --cfg tokio_unstable` (set in /verif/sim/.cargo/config.toml); /repo's own Cargo.toml/Cargo.lock features are untouched",
            "baseline_off_cmd": "cd /repo && cargo test --workspace --no-fail-fast --offline",
            "source_commits": hooks_commits,
            "add_only": True,
        },
        "engines": [
            {"name": "S-LINK", "path": "harness/props/c06.rs", "serves_properties": ["C06", "C07"], "kind_free_text": "real link reader/parser/formatter (C06) and real link Layer (C07 link scenario) over a simulated physical layer; seeded streams, faults and read plans"},
            {"name": "S-OUT", "path": "harness/sout.rs", "serves_properties": ["C01", "C03", "C04", "C05", "C07", "C11", "C12", "C13", "C14"], "kind_free_text": "real OutstationTask (session, database, event buffer, real transport/link) run by the real ServerTask over simulated connections; scripted master peer using the reference codec; recording stubs for user callbacks; user transactions injected at database lock points (H4)"},
            {"name": "S-MAST", "path": "harness/smast.rs", "serves_properties": ["C01", "C15", "C16", "C17", "C18", "C19"], "kind_free_text": "real MasterTask run by the real tcp ClientTask over a simulated network (H3) with latency and chunking; scripted outstation(s) built on the reference codec with a queue of reply policies; recording stubs for ReadHandler/AssociationHandler/AssociationInformation/Listener; user requests issued by simulated tasks through the public async API"},
            {"name": "S-PAIR", "path": "harness/spair.rs", "serves_properties": ["C02", "C18"], "kind_free_text": "real MasterTask + tcp ClientTask and real OutstationTask + tcp ServerTask connected through the simulated network (H3): per-direction latency, read chunking on both sockets, one-shot holds, stalls and cuts; recording stubs for every user callback on both sides; database transactions and user requests issued by simulated tasks"},
            {"name": "S-TRANS", "path": "harness/props/c08.rs", "serves_properties": ["C08"], "kind_free_text": "two real transport writers -> frame-level fault stage -> real transport reader (link layer + assembler) over simulated phys"},
        ],
        "checks": checks,
        "not_applicable": na,
        "notes": "Deterministic simulation with fault injection; see DESIGN.md. Exit codes: 0 held, 1 violation (VIOLATION line + replay file), 2 harness error. VERIF_SEED selects the batch (default 1).",
    }
    with open(os.path.join(ROOT, "MANIFEST.json"), "w") as f:
        json.dump(manifest, f, indent=1)
        f.write("\n")

if __name__ == "__main__":
    main()
