#!/bin/bash
# usage: tools/all_seeds_isolated.sh [Cnn ...]
# Like all_seeds.sh, but works on a snapshot: a scratch worktree of /repo's HEAD and a copy of the harness under /tmp/sc, so
# /repo and /verif stay free for other work meanwhile. Prints one line per kept seed (CAUGHT / MISSED / SKIPPED) and removes
# the snapshot afterwards.
want="$*"
S=/tmp/sc
rm -rf $S; mkdir -p $S/verif
git -C /repo worktree prune
git -C /repo worktree add --detach $S/repo HEAD -q || exit 2
cp -r /verif/harness /verif/known_findings.json $S/verif/
mkdir -p $S/verif/sim $S/verif/evidence $S/verif/replays
cp -r /verif/sim/Cargo.toml /verif/sim/Cargo.lock /verif/sim/src /verif/sim/.cargo $S/verif/sim/
sed -i "s#/repo/dnp3/src/lib.rs#$S/repo/dnp3/src/lib.rs#" $S/verif/sim/Cargo.toml
sed -i "s#\"/verif/harness/mod.rs\"#\"$S/verif/harness/mod.rs\"#" $S/repo/dnp3/src/lib.rs
git -C $S/repo update-index --assume-unchanged dnp3/src/lib.rs
cd $S/verif/sim
for d in /verif/seeded/*/; do
  id=$(basename $d); prop=${id%-*}
  if [ -n "$want" ] && ! echo "$want" | grep -qw "$prop"; then continue; fi
  patch=$d/patch.diff; [ -f $d/patch.rebased.diff ] && patch=$d/patch.rebased.diff
  if ! git -C $S/repo apply --check $patch 2>/dev/null; then echo "SKIPPED $id (patch no longer applies: $(jq -r .caught_by_check $d/meta.json))"; continue; fi
  git -C $S/repo apply $patch
  if ! cargo build --offline --quiet 2> $S/build.log; then echo "BUILD-FAILED $id: $(grep -m1 '^error' $S/build.log)"; git -C $S/repo checkout -- . ; continue; fi
  out=$(VERIF_ROOT=$S/verif $S/verif/sim/target/debug/dnp3sim check $prop quick 2>&1); rc=$?
  git -C $S/repo checkout -- .
  sig=$(echo "$out" | grep "signature:" | head -1 | sed 's/ *signature: //')
  runs=$(echo "$out" | tail -1 | grep -o 'runs=[0-9]*')
  if [ $rc -eq 1 ]; then echo "CAUGHT  $id  $runs  $sig"; else echo "MISSED  $id  rc=$rc $(echo "$out" | tail -1)"; fi
done
cd /; git -C /repo worktree remove --force $S/repo; rm -rf $S
