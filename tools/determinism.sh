#!/bin/bash
# usage: tools/determinism.sh [runs per property, default 300] [props...]
# For every property: the first N generated runs are executed in separate processes at 1, 4 and 16 workers (twice at 16)
# and the per-run lines (trace hash over every scheduling decision, byte chunk and callback; steps; simulated ms;
# fingerprint; verdict) are diffed. Any difference is a harness error (exit 2).
n=${1:-300}; shift
props=${*:-C01 C02 C03 C04 C05 C06 C07 C08 C11 C12 C13 C14 C15 C16 C17 C18 C19}
cd /verif && ./check build >/dev/null || exit 2
tmp=$(mktemp -d /verif/sim/target/determinism.XXXX)
rc=0
for c in $props; do
  for w in 1 4 16 16b; do
    VERIF_WORKERS=${w%b} sim/target/debug/dnp3sim trace $c $n > $tmp/$c.$w.txt 2>&1
  done
  for w in 4 16 16b; do
    if ! diff -q $tmp/$c.1.txt $tmp/$c.$w.txt >/dev/null; then
      echo "NON-DETERMINISTIC $c: 1 worker vs $w"; diff $tmp/$c.1.txt $tmp/$c.$w.txt | head -6; rc=2
    fi
  done
  echo "$c: $(wc -l < $tmp/$c.1.txt) runs identical at 1/4/16/16 workers (sha $(sha1sum < $tmp/$c.1.txt | cut -c1-12))"
done
rm -rf $tmp
exit $rc
