//! C07 - endpoints act only on traffic addressed to them; broadcasts are never answered.
//!
//! Scenario "link" (engine S-LINK): the real link::layer::Layer in both roles on a simulated
//! multi-drop line; oracle = reference secondary-station table written from the standard.
//! (The application part - foreign masters and broadcasts at the outstation session - is the
//! scenario "app" in c07_app.rs, added with the S-OUT engine.)

use crate::app::EndpointType;
use crate::decode::DecodeLevel;
use crate::link::header::FrameType;
use crate::link::layer::Layer;
use crate::link::parser::FramePayload;
use crate::link::reader::LinkModes;
use crate::link::{EndpointAddress, LinkErrorMode, LinkReadMode};
use crate::outstation::Feature;
use crate::util::phys::PhysLayer;
use crate::verif::io::{self, ChunkMode, CloseKind, SimSocket};
use crate::verif::kernel::{self, Exit, RunParams};
use crate::verif::refcodec::link as reflink;
use crate::verif::refcodec::link::RefFrame;
use crate::verif::rng::{mix, Rng};
use crate::verif::runner::{
    erase, shrink_vec, Codec, Outcome, Property, Scenario, Tier, Violation,
};
use serde::{Deserialize, Serialize};
use std::sync::{Arc, Mutex};

#[derive(Clone, Debug, Serialize, Deserialize)]
pub struct Case {
    pub is_master: bool,
    pub self_address: bool,
    pub local: u16,
    pub frames: Vec<RefFrame>,
    pub chunk: u8,
    /// session changes: before the frames with these numbers the layer is reset, as the tasks do at the start of every
    /// session - a link reset of the previous session does not count in the next
    #[serde(default)]
    pub resets: Vec<usize>,
}

pub struct LinkAddrScenario;

pub fn property<C: Codec>() -> Property {
    Property {
        id: "C07",
        scenarios: vec![
            erase::<C, _>(LinkAddrScenario),
            erase::<C, _>(super::c07_app::AppAddrScenario),
        ],
    }
}

#[derive(Clone, Debug, PartialEq)]
enum Up {
    Data {
        src: u16,
        bcast: Option<u16>,
        payload: Vec<u8>,
    },
    LinkStatusRequest {
        src: u16,
    },
    LinkStatusResponse {
        src: u16,
    },
}

#[derive(Clone, Debug, PartialEq)]
enum Expect<T> {
    Exactly(T),
    DontCare,
}

/// reference secondary station (what the standard and the property require)
struct RefStation {
    is_master: bool,
    self_address: bool,
    local: u16,
    /// Some(expected FCB) after RESET_LINK_STATES
    reset: Option<bool>,
}

struct Verdict {
    up: Expect<Option<Up>>,
    /// reply frame (ctrl, dest, src)
    reply: Expect<Option<(u8, u16, u16)>>,
    class: &'static str,
}

impl RefStation {
    fn dir(&self) -> u8 {
        if self.is_master {
            0x80
        } else {
            0
        }
    }

    fn judge(&mut self, f: &RefFrame) -> Verdict {
        let nothing = |class| Verdict {
            up: Expect::Exactly(None),
            reply: Expect::Exactly(None),
            class,
        };
        let from_master = f.ctrl & 0x80 != 0;
        let prm = f.ctrl & 0x40 != 0;
        let fcb = f.ctrl & 0x20 != 0;
        let fcv = f.ctrl & 0x10 != 0;
        let func = f.ctrl & 0x0F;

        // same station type: not for us
        if from_master == self.is_master {
            return nothing("same-station-type");
        }
        // reserved / special source addresses are never acted upon
        if f.src >= 0xFFF0 {
            return nothing("reserved-source");
        }
        // destination classes
        let bcast = match f.dest {
            x if x == self.local => None,
            0xFFFC => {
                if !self.is_master && self.self_address {
                    None
                } else {
                    return nothing("self-address-disabled");
                }
            }
            0xFFFD..=0xFFFF => {
                if self.is_master {
                    return nothing("broadcast-to-master");
                }
                Some(f.dest)
            }
            0xFFF0..=0xFFFB => return nothing("reserved-destination"),
            _ => return nothing("other-destination"),
        };

        if !prm {
            // secondary-to-primary frames never cause a reply and never carry user data upwards
            return match func {
                0x0B => {
                    if bcast.is_some() {
                        Verdict {
                            up: Expect::Exactly(None),
                            reply: Expect::Exactly(None),
                            class: "broadcast-non-data",
                        }
                    } else {
                        Verdict {
                            up: Expect::Exactly(Some(Up::LinkStatusResponse { src: f.src })),
                            reply: Expect::Exactly(None),
                            class: "link-status-response",
                        }
                    }
                }
                _ => nothing("secondary-frame"),
            };
        }

        if let Some(b) = bcast {
            // a broadcast is never answered, and only user data is acted upon
            return match func {
                4 if !fcv => Verdict {
                    up: Expect::Exactly(Some(Up::Data {
                        src: f.src,
                        bcast: Some(b),
                        payload: f.payload.clone(),
                    })),
                    reply: Expect::Exactly(None),
                    class: "broadcast-unconfirmed-data",
                },
                3 if fcv => match self.reset {
                    Some(expected) if expected == fcb => {
                        self.reset = Some(!expected);
                        Verdict {
                            up: Expect::Exactly(Some(Up::Data {
                                src: f.src,
                                bcast: Some(b),
                                payload: f.payload.clone(),
                            })),
                            reply: Expect::Exactly(None),
                            class: "broadcast-confirmed-data",
                        }
                    }
                    _ => Verdict {
                        up: Expect::Exactly(None),
                        reply: Expect::Exactly(None),
                        class: "broadcast-confirmed-data-rejected",
                    },
                },
                _ => Verdict {
                    up: Expect::Exactly(None),
                    reply: Expect::Exactly(None),
                    class: "broadcast-non-data",
                },
            };
        }

        let ack = (self.dir() | 0x00, f.src, self.local);
        let status = (self.dir() | 0x0B, f.src, self.local);
        match func {
            0 => {
                // RESET_LINK_STATES
                if fcv {
                    // malformed (FCV must be clear): the property does not pin this down beyond "no data delivered"
                    Verdict {
                        up: Expect::Exactly(None),
                        reply: Expect::DontCare,
                        class: "reset-link-bad-fcv",
                    }
                } else {
                    self.reset = Some(true);
                    Verdict {
                        up: Expect::Exactly(None),
                        reply: Expect::Exactly(Some(ack)),
                        class: "reset-link",
                    }
                }
            }
            3 => {
                // CONFIRMED_USER_DATA
                if !fcv {
                    return Verdict {
                        up: Expect::Exactly(None),
                        reply: Expect::DontCare,
                        class: "confirmed-data-bad-fcv",
                    };
                }
                match self.reset {
                    None => Verdict {
                        up: Expect::Exactly(None),
                        reply: Expect::DontCare,
                        class: "confirmed-data-not-reset",
                    },
                    Some(expected) => {
                        if fcb == expected {
                            self.reset = Some(!expected);
                            Verdict {
                                up: Expect::Exactly(Some(Up::Data {
                                    src: f.src,
                                    bcast: None,
                                    payload: f.payload.clone(),
                                })),
                                reply: Expect::Exactly(Some(ack)),
                                class: "confirmed-data-accepted",
                            }
                        } else {
                            // a repeat: acknowledged again but delivered at most once per toggle
                            Verdict {
                                up: Expect::Exactly(None),
                                reply: Expect::Exactly(Some(ack)),
                                class: "confirmed-data-repeat",
                            }
                        }
                    }
                }
            }
            4 => {
                if fcv {
                    Verdict {
                        up: Expect::DontCare,
                        reply: Expect::Exactly(None),
                        class: "unconfirmed-data-bad-fcv",
                    }
                } else {
                    Verdict {
                        up: Expect::Exactly(Some(Up::Data {
                            src: f.src,
                            bcast: None,
                            payload: f.payload.clone(),
                        })),
                        reply: Expect::Exactly(None),
                        class: "unconfirmed-data",
                    }
                }
            }
            9 => {
                if fcv {
                    Verdict {
                        up: Expect::DontCare,
                        reply: Expect::DontCare,
                        class: "link-status-bad-fcv",
                    }
                } else {
                    Verdict {
                        up: Expect::Exactly(Some(Up::LinkStatusRequest { src: f.src })),
                        reply: Expect::Exactly(Some(status)),
                        class: "link-status-request",
                    }
                }
            }
            // TEST_LINK_STATES (2) is optional/obsolete; other codes are undefined: never user data upwards
            2 => Verdict {
                up: Expect::Exactly(None),
                reply: Expect::DontCare,
                class: "test-link-states",
            },
            _ => Verdict {
                up: Expect::Exactly(None),
                reply: Expect::DontCare,
                class: "undefined-primary-function",
            },
        }
    }
}

fn gen_addr(rng: &mut Rng, local: u16, other: u16) -> u16 {
    match rng.below(12) {
        0..=4 => local,
        5 => other,
        6 => 0xFFFC,
        7 => 0xFFFF,
        8 => 0xFFFE,
        9 => 0xFFFD,
        10 => rng.range(0xFFF0, 0xFFFB) as u16,
        _ => rng.u16(),
    }
}

impl Scenario for LinkAddrScenario {
    type Case = Case;

    fn name(&self) -> &'static str {
        "link"
    }

    fn runs(&self, tier: Tier) -> u64 {
        match tier {
            Tier::Quick => 180_000,
            Tier::Thorough => 6_000_000,
        }
    }

    fn rule(&self) -> String {
        "histories of 1..14 link frames (any of the 256 control octets, destinations drawn from own/other/self/three broadcast/reserved \
         classes, sources from endpoint and reserved classes, payloads 0..20) delivered one at a time to the real link Layer in master or \
         outstation role with self-address on/off; after every frame the frames passed up and the reply octets are compared with a reference \
         secondary-station table (reset/FCB state included); non-trivial = the history contains a frame that must be ignored or a broadcast, \
         arriving after the station was put into the reset state or after data was delivered; distinct = hash of the sequence of verdict classes"
            .to_string()
    }

    fn real_components(&self) -> Vec<&'static str> {
        vec![
            "link::layer::Layer",
            "link::reader::Reader",
            "link::parser",
            "link::format",
            "link::header",
        ]
    }

    fn stub_components(&self) -> Vec<&'static str> {
        vec!["physical layer (SimSocket)"]
    }

    fn generate(&self, rng: &mut Rng, _tier: Tier) -> Case {
        let is_master = rng.bool();
        let self_address = !is_master && rng.bool();
        let local = match rng.below(3) {
            0 => 1,
            1 => 1024,
            _ => rng.range(0, 0xFFEF) as u16,
        };
        let mut other = rng.range(0, 0xFFEF) as u16;
        if other == local {
            other = (local + 1) % 0xFFF0;
        }
        let peer = rng.range(0, 0xFFEF) as u16;
        let n = rng.urange(1, 14);
        let mut frames = Vec::new();
        for _ in 0..n {
            let dir: u8 = if rng.chance(5, 6) {
                // mostly from the opposite station type
                if is_master {
                    0
                } else {
                    0x80
                }
            } else if is_master {
                0x80
            } else {
                0
            };
            let ctrl = if rng.chance(3, 4) {
                let base = *rng.pick(&[
                    0x40u8, 0x53, 0x73, 0x44, 0x49, 0x0B, 0x00, 0x42, 0x52, 0x72, 0x54, 0x59, 0x50,
                    0x43, 0x63, 0x0F, 0x01,
                ]);
                dir | base
            } else {
                rng.u8()
            };
            let src = if rng.chance(5, 6) {
                if rng.chance(3, 4) {
                    peer
                } else {
                    rng.range(0, 0xFFEF) as u16
                }
            } else {
                rng.range(0xFFF0, 0xFFFF) as u16
            };
            let plen = if rng.chance(1, 3) {
                0
            } else {
                rng.urange(1, 20)
            };
            frames.push(RefFrame {
                ctrl,
                dest: gen_addr(rng, local, other),
                src,
                payload: rng.bytes(plen),
            });
        }
        Case {
            is_master,
            self_address,
            local,
            resets: if rng.chance(1, 4) {
                (0..rng.urange(1, 2)).map(|_| rng.urange(1, frames.len().max(2) - 1)).collect()
            } else {
                Vec::new()
            },
            frames,
            chunk: rng.below(5) as u8,
        }
    }

    fn shrink(&self, case: &Case) -> Vec<Case> {
        let mut out = Vec::new();
        for f in shrink_vec(&case.frames) {
            if f.is_empty() {
                continue;
            }
            let mut c = case.clone();
            c.frames = f;
            out.push(c);
        }
        if case.chunk != 0 {
            let mut c = case.clone();
            c.chunk = 0;
            out.push(c);
        }
        for (i, f) in case.frames.iter().enumerate() {
            if !f.payload.is_empty() {
                let mut c = case.clone();
                c.frames[i].payload.clear();
                out.push(c);
            }
        }
        out
    }

    fn execute(&self, case: &Case, log: bool) -> Outcome {
        let mut outcome = Outcome::default();
        let ups: Arc<Mutex<Vec<Up>>> = Arc::new(Mutex::new(Vec::new()));
        let verdicts: Arc<Mutex<(Option<Violation>, Vec<&'static str>)>> =
            Arc::new(Mutex::new((None, Vec::new())));
        let case2 = case.clone();
        let ups2 = ups.clone();
        let verdicts2 = verdicts.clone();
        let params = RunParams {
            log,
            step_cap: 200_000,
            ..Default::default()
        };
        let report = kernel::run_world(params, move |sim| async move {
            let case = case2;
            let inbox = io::new_chan();
            let outbox = io::new_chan();
            let sock = SimSocket::new(
                "layer",
                inbox.clone(),
                outbox.clone(),
                ChunkMode::from_index(case.chunk as u64),
                7,
            );
            let local = EndpointAddress::try_new(case.local).expect("endpoint address");
            let is_master = case.is_master;
            let self_address = case.self_address;
            let ups3 = ups2.clone();
            let session_change = Arc::new(tokio::sync::Notify::new());
            let session_change2 = session_change.clone();
            let task = sim.spawn("link-layer", async move {
                let mut phys = PhysLayer::Sim(Box::new(sock));
                let mut layer = Layer::new(
                    LinkModes {
                        error_mode: LinkErrorMode::Close,
                        read_mode: LinkReadMode::Stream,
                    },
                    2048,
                    if is_master {
                        EndpointType::Master
                    } else {
                        EndpointType::Outstation
                    },
                    if self_address {
                        Feature::Enabled
                    } else {
                        Feature::Disabled
                    },
                    local,
                );
                let mut payload = FramePayload::new();
                loop {
                    let res = tokio::select! {
                        biased;
                        _ = session_change2.notified() => {
                            if let Some(core) = kernel::current() {
                                core.count("fault.session_change", 1);
                            }
                            layer.reset();
                            continue;
                        }
                        r = layer.read(&mut phys, DecodeLevel::nothing(), &mut payload) => r,
                    };
                    match res {
                        Ok(info) => {
                            let src = info.source.raw_value();
                            let up = match info.frame_type {
                                FrameType::Data => Up::Data {
                                    src,
                                    bcast: info.broadcast.map(|m| m.address()),
                                    payload: payload.get().to_vec(),
                                },
                                FrameType::LinkStatusRequest => Up::LinkStatusRequest { src },
                                FrameType::LinkStatusResponse => Up::LinkStatusResponse { src },
                            };
                            ups3.lock().unwrap().push(up);
                        }
                        Err(_) => break,
                    }
                }
            });
            let mut station = RefStation {
                is_master: case.is_master,
                self_address: case.self_address,
                local: case.local,
                reset: None,
            };
            let mut seen_up = 0usize;
            for (i, f) in case.frames.iter().enumerate() {
                if case.resets.contains(&i) {
                    session_change.notify_one();
                    sim.settle().await;
                    station.reset = None;
                }
                io::chan_push(&inbox, sim.now_ms(), reflink::build_frame(f));
                sim.settle().await;
                let verdict = station.judge(f);
                verdicts2.lock().unwrap().1.push(verdict.class);
                // what was passed up for this frame
                let all = ups2.lock().unwrap().clone();
                let new_ups: Vec<Up> = all[seen_up..].to_vec();
                seen_up = all.len();
                // what was written in reply
                let replies: Vec<u8> = io::chan_drain(&outbox)
                    .into_iter()
                    .flat_map(|x| x.1)
                    .collect();
                let parsed = reflink::deframe(&replies, false);
                let mut v = None;
                if parsed.first_error.is_some()
                    || parsed
                        .frames
                        .iter()
                        .map(|(_, f)| 10 + reflink::body_len(f.payload.len()))
                        .sum::<usize>()
                        != replies.len()
                {
                    v = Some(Violation::new(
                        "C07/link reply-malformed",
                        verdict.class,
                        format!(
                            "frame #{} {:?}: reply octets are not well-formed link frames: {}",
                            i,
                            f,
                            io::hex(&replies)
                        ),
                    ));
                }
                if v.is_none() {
                    if let Expect::Exactly(want) = &verdict.up {
                        let ok = match want {
                            None => new_ups.is_empty(),
                            Some(u) => new_ups.len() == 1 && &new_ups[0] == u,
                        };
                        if !ok {
                            v = Some(Violation::new(
                                "C07/link passed-up",
                                verdict.class,
                                format!(
                                    "frame #{} (ctrl {:#04x} dest {:#06x} src {:#06x}, {} payload octets) to {} {} (self-address {}): expected passed up {:?}, got {:?}",
                                    i,
                                    f.ctrl,
                                    f.dest,
                                    f.src,
                                    f.payload.len(),
                                    if case.is_master { "master" } else { "outstation" },
                                    case.local,
                                    case.self_address,
                                    want,
                                    new_ups
                                ),
                            ));
                        }
                    }
                }
                if v.is_none() {
                    if let Expect::Exactly(want) = &verdict.reply {
                        let got: Vec<(u8, u16, u16)> = parsed
                            .frames
                            .iter()
                            .map(|(_, r)| (r.ctrl, r.dest, r.src))
                            .collect();
                        let ok = match want {
                            None => got.is_empty(),
                            Some(r) => {
                                got.len() == 1
                                    && got[0] == *r
                                    && parsed.frames[0].1.payload.is_empty()
                            }
                        };
                        if !ok {
                            v = Some(Violation::new(
                                "C07/link reply",
                                verdict.class,
                                format!(
                                    "frame #{} (ctrl {:#04x} dest {:#06x} src {:#06x}) to {} {} (self-address {}): expected reply {:?}, got {:?}",
                                    i,
                                    f.ctrl,
                                    f.dest,
                                    f.src,
                                    if case.is_master { "master" } else { "outstation" },
                                    case.local,
                                    case.self_address,
                                    want,
                                    got
                                ),
                            ));
                        }
                    }
                }
                if v.is_some() {
                    verdicts2.lock().unwrap().0 = v;
                    break;
                }
            }
            io::chan_close(&inbox, CloseKind::Eof);
            sim.settle().await;
            let mut guard = 0;
            while !sim.task_done(task) && guard < 10 {
                sim.sleep_ms(1000).await;
                guard += 1;
            }
        });
        outcome.sim_ms = report.sim_ms;
        outcome.steps = report.steps;
        outcome.trace_hash = report.trace_hash;
        outcome.log = report.log;
        match &report.exit {
            Exit::Done => {}
            Exit::Panic(task, msg, loc) => {
                if loc.contains("/verif/") {
                    outcome.harness_error =
                        Some(format!("harness panic in {}: {} at {}", task, msg, loc));
                } else {
                    outcome.violation = Some(Violation::new(
                        "C07/panic",
                        loc.clone(),
                        format!("task {} panicked: {} at {}", task, msg, loc),
                    ));
                }
                return outcome;
            }
            other => {
                outcome.violation = Some(Violation::new(
                    "C07/link no-termination",
                    format!("{:?}", other)
                        .split('(')
                        .next()
                        .unwrap_or("")
                        .to_string(),
                    format!("link layer did not finish: {:?}", other),
                ));
                return outcome;
            }
        }
        let (violation, classes) = {
            let mut g = verdicts.lock().unwrap();
            (g.0.take(), g.1.clone())
        };
        outcome.violation = violation;
        // coverage
        let mut armed = false;
        let mut nontrivial = false;
        let mut h = mix(&[case.is_master as u64, case.self_address as u64]);
        for c in &classes {
            let ignored = matches!(
                *c,
                "same-station-type"
                    | "reserved-source"
                    | "self-address-disabled"
                    | "broadcast-to-master"
                    | "reserved-destination"
                    | "other-destination"
            ) || c.starts_with("broadcast");
            if ignored && armed {
                nontrivial = true;
            }
            if matches!(
                *c,
                "reset-link" | "confirmed-data-accepted" | "unconfirmed-data"
            ) {
                armed = true;
            }
            let mut ch = 0u64;
            for b in c.bytes() {
                ch = ch.wrapping_mul(31).wrapping_add(b as u64);
            }
            h = mix(&[h, ch]);
            outcome.count(
                &format!(
                    "cell.{}.{}",
                    if case.is_master {
                        "master"
                    } else {
                        "outstation"
                    },
                    c
                ),
                1,
            );
        }
        outcome.nontrivial = nontrivial;
        outcome.fingerprint = h;
        outcome.count(
            "fault.rechunk",
            report.counters.get("phys_reads").copied().unwrap_or(0),
        );
        outcome.count(
            "fault.session_change",
            report.counters.get("fault.session_change").copied().unwrap_or(0),
        );
        outcome
    }
}
