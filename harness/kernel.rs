//! Simulation kernel: one OS thread = one simulated world = one tokio current_thread runtime with
//! a paused (virtual) clock. Inside `block_on` runs a single future, the seeded executor, which
//! owns every simulated task and polls exactly one of the runnable ones per outer poll, the choice
//! being drawn from the run's scheduling PRNG.

use super::rng::Rng;
use std::cell::{Cell, RefCell};
use std::future::Future;
use std::panic::AssertUnwindSafe;
use std::pin::Pin;
use std::rc::Rc;
use std::sync::atomic::{AtomicBool, Ordering};
use std::sync::{Arc, Mutex};
use std::task::{Context, Poll, Wake, Waker};
use std::time::Duration;

/// Why a run ended
#[derive(Clone, Debug, PartialEq)]
pub enum Exit {
    /// the driver future completed
    Done,
    /// a simulated task panicked: (task name, message, location)
    Panic(String, String, String),
    /// executor made `n` polls without virtual time advancing or any progress mark
    Spin(String),
    /// step cap of the run exceeded
    StepCap,
    /// virtual time cap exceeded
    TimeCap,
}

struct WakeFlag {
    flag: AtomicBool,
    outer: Arc<Mutex<Option<Waker>>>,
}

impl Wake for WakeFlag {
    fn wake(self: Arc<Self>) {
        self.wake_by_ref()
    }
    fn wake_by_ref(self: &Arc<Self>) {
        self.flag.store(true, Ordering::SeqCst);
        if let Some(w) = self.outer.lock().unwrap().as_ref() {
            w.wake_by_ref();
        }
    }
}

type BoxFut = Pin<Box<dyn Future<Output = ()>>>;

struct TaskSlot {
    name: String,
    fut: Option<BoxFut>,
    flag: Arc<WakeFlag>,
    waker: Waker,
    done: bool,
    low: bool,
    polls: u64,
    polls_since_progress: u64,
}

pub struct SimCore {
    sched: RefCell<Rng>,
    tasks: RefCell<Vec<TaskSlot>>,
    outer: Arc<Mutex<Option<Waker>>>,
    start: tokio::time::Instant,
    steps: Cell<u64>,
    order: Cell<u64>,
    step_cap: u64,
    spin_budget: u64,
    last_now_ms: Cell<u64>,
    trace_hash: Cell<u64>,
    log_enabled: Cell<bool>,
    log: RefCell<Vec<String>>,
    lock_hook: RefCell<Option<Box<dyn FnMut(&'static str)>>>,
    lock_depth: Cell<u32>,
    pub counters: RefCell<std::collections::BTreeMap<&'static str, u64>>,
    net: RefCell<Option<Arc<dyn super::hooks::SimNet>>>,
    /// fragments popped by transport readers (hook H5): (virtual ms, order, link source address, octets)
    pub popped: RefCell<Vec<(u64, u64, u16, Vec<u8>)>>,
    pub record_popped: Cell<bool>,
}

thread_local! {
    static CURRENT: RefCell<Option<Rc<SimCore>>> = const { RefCell::new(None) };
    static LAST_PANIC: RefCell<Option<(String, String)>> = const { RefCell::new(None) };
}

pub fn current() -> Option<Rc<SimCore>> {
    CURRENT.with(|c| c.borrow().clone())
}

/// install the process-wide panic hook that records (message, location) per thread and keeps quiet
pub fn install_panic_hook() {
    std::panic::set_hook(Box::new(|info| {
        let msg = if let Some(s) = info.payload().downcast_ref::<&str>() {
            s.to_string()
        } else if let Some(s) = info.payload().downcast_ref::<String>() {
            s.clone()
        } else {
            "<non-string panic payload>".to_string()
        };
        let loc = info
            .location()
            .map(|l| format!("{}:{}", l.file(), l.line()))
            .unwrap_or_else(|| "<unknown>".to_string());
        LAST_PANIC.with(|p| *p.borrow_mut() = Some((msg, loc)));
    }));
}

pub fn take_last_panic() -> Option<(String, String)> {
    LAST_PANIC.with(|p| p.borrow_mut().take())
}

#[derive(Clone)]
pub struct Sim {
    core: Rc<SimCore>,
}

pub struct RunParams {
    pub sched_seed: u64,
    pub tokio_seed: u64,
    pub step_cap: u64,
    pub time_cap_ms: u64,
    pub spin_budget: u64,
    pub log: bool,
}

impl Default for RunParams {
    fn default() -> Self {
        Self {
            sched_seed: 1,
            tokio_seed: 1,
            step_cap: 2_000_000,
            time_cap_ms: 40_000_000,
            spin_budget: 20_000,
            log: false,
        }
    }
}

pub struct RunReport {
    pub exit: Exit,
    pub steps: u64,
    pub sim_ms: u64,
    pub trace_hash: u64,
    pub log: Vec<String>,
    pub counters: std::collections::BTreeMap<&'static str, u64>,
}

/// Run one simulated world to completion. `main` builds the driver future.
pub fn run_world<F, Fut>(params: RunParams, main: F) -> RunReport
where
    F: FnOnce(Sim) -> Fut,
    Fut: Future<Output = ()> + 'static,
{
    let rt = tokio::runtime::Builder::new_current_thread()
        .enable_time()
        .start_paused(true)
        .rng_seed(tokio::runtime::RngSeed::from_bytes(
            &params.tokio_seed.to_le_bytes(),
        ))
        .build()
        .expect("runtime");

    let report = rt.block_on(async {
        let core = Rc::new(SimCore {
            sched: RefCell::new(Rng::new(params.sched_seed)),
            tasks: RefCell::new(Vec::new()),
            outer: Arc::new(Mutex::new(None)),
            start: tokio::time::Instant::now(),
            steps: Cell::new(0),
            order: Cell::new(0),
            step_cap: params.step_cap,
            spin_budget: params.spin_budget,
            last_now_ms: Cell::new(0),
            trace_hash: Cell::new(0xcbf29ce484222325),
            log_enabled: Cell::new(params.log),
            log: RefCell::new(Vec::new()),
            lock_hook: RefCell::new(None),
            lock_depth: Cell::new(0),
            counters: RefCell::new(Default::default()),
            net: RefCell::new(None),
            popped: RefCell::new(Vec::new()),
            record_popped: Cell::new(false),
        });
        CURRENT.with(|c| *c.borrow_mut() = Some(core.clone()));
        let sim = Sim { core: core.clone() };
        let driver = main(sim.clone());
        sim.spawn_inner("driver", Box::pin(driver), true);

        let exec = Exec {
            core: core.clone(),
            cap: Box::pin(tokio::time::sleep(Duration::from_millis(
                params.time_cap_ms,
            ))),
        };
        let exit = exec.await;
        // drop all tasks inside the runtime context (timers deregister cleanly)
        let tasks: Vec<TaskSlot> = core.tasks.borrow_mut().drain(..).collect();
        let dropped = std::panic::catch_unwind(AssertUnwindSafe(move || drop(tasks)));
        let _ = dropped;
        *core.lock_hook.borrow_mut() = None;
        *core.net.borrow_mut() = None;
        CURRENT.with(|c| *c.borrow_mut() = None);
        let log = std::mem::take(&mut *core.log.borrow_mut());
        let counters = std::mem::take(&mut *core.counters.borrow_mut());
        RunReport {
            exit,
            steps: core.steps.get(),
            sim_ms: sim.now_ms(),
            trace_hash: core.trace_hash.get(),
            log,
            counters,
        }
    });
    drop(rt);
    report
}

struct Exec {
    core: Rc<SimCore>,
    cap: Pin<Box<tokio::time::Sleep>>,
}

impl Future for Exec {
    type Output = Exit;

    fn poll(mut self: Pin<&mut Self>, cx: &mut Context<'_>) -> Poll<Exit> {
        let core = self.core.clone();
        *core.outer.lock().unwrap() = Some(cx.waker().clone());

        if self.cap.as_mut().poll(cx).is_ready() {
            return Poll::Ready(Exit::TimeCap);
        }

        // has virtual time advanced?
        let now = core.now_ms();
        if now != core.last_now_ms.get() {
            core.last_now_ms.set(now);
            for t in core.tasks.borrow_mut().iter_mut() {
                t.polls_since_progress = 0;
            }
        }

        // choose a runnable task
        let pick = {
            let tasks = core.tasks.borrow();
            let mut hi: Vec<usize> = Vec::new();
            let mut lo: Vec<usize> = Vec::new();
            for (i, t) in tasks.iter().enumerate() {
                if !t.done && t.flag.flag.load(Ordering::SeqCst) {
                    if t.low {
                        lo.push(i)
                    } else {
                        hi.push(i)
                    }
                }
            }
            let set = if !hi.is_empty() { hi } else { lo };
            if set.is_empty() {
                None
            } else if set.len() == 1 {
                Some(set[0])
            } else {
                let k = core.sched.borrow_mut().usize_below(set.len());
                Some(set[k])
            }
        };

        let idx = match pick {
            None => return Poll::Pending, // tokio parks; the paused clock jumps to the next timer
            Some(i) => i,
        };

        let (mut fut, waker, name) = {
            let mut tasks = core.tasks.borrow_mut();
            let t = &mut tasks[idx];
            t.flag.flag.store(false, Ordering::SeqCst);
            t.polls += 1;
            t.polls_since_progress += 1;
            (
                t.fut.take().expect("task future present"),
                t.waker.clone(),
                t.name.clone(),
            )
        };
        core.trace(idx as u64 ^ 0x5151);
        core.steps.set(core.steps.get() + 1);

        let mut tcx = Context::from_waker(&waker);
        let res = std::panic::catch_unwind(AssertUnwindSafe(|| fut.as_mut().poll(&mut tcx)));

        match res {
            Err(_) => {
                let (msg, loc) = take_last_panic().unwrap_or(("?".into(), "?".into()));
                // the future is poisoned: forget it rather than run its destructors twice
                core.tasks.borrow_mut()[idx].done = true;
                let _ = std::panic::catch_unwind(AssertUnwindSafe(move || drop(fut)));
                return Poll::Ready(Exit::Panic(name, msg, loc));
            }
            Ok(Poll::Ready(())) => {
                core.tasks.borrow_mut()[idx].done = true;
                drop(fut);
                if idx == 0 {
                    return Poll::Ready(Exit::Done);
                }
            }
            Ok(Poll::Pending) => {
                let mut tasks = core.tasks.borrow_mut();
                tasks[idx].fut = Some(fut);
                if tasks[idx].polls_since_progress > core.spin_budget {
                    return Poll::Ready(Exit::Spin(name));
                }
            }
        }

        if core.steps.get() > core.step_cap {
            return Poll::Ready(Exit::StepCap);
        }

        cx.waker().wake_by_ref();
        Poll::Pending
    }
}

impl SimCore {
    pub fn now_ms(&self) -> u64 {
        tokio::time::Instant::now()
            .saturating_duration_since(self.start)
            .as_millis() as u64
    }

    /// fold a value into the run's trace hash (determinism check)
    pub fn trace(&self, v: u64) {
        let mut h = self.trace_hash.get();
        h ^= v;
        h = h.wrapping_mul(0x100000001b3);
        h ^= self.now_ms();
        h = h.wrapping_mul(0x100000001b3);
        self.trace_hash.set(h);
    }

    pub fn trace_bytes(&self, tag: u64, data: &[u8]) {
        let mut h = self.trace_hash.get() ^ tag;
        for b in data {
            h ^= *b as u64;
            h = h.wrapping_mul(0x100000001b3);
        }
        self.trace_hash.set(h);
        self.trace(data.len() as u64);
    }

    /// a world-wide strictly increasing sequence number (orders callbacks against transmissions)
    pub fn next_order(&self) -> u64 {
        let o = self.order.get() + 1;
        self.order.set(o);
        o
    }

    pub fn log_enabled(&self) -> bool {
        self.log_enabled.get()
    }

    pub fn log(&self, msg: String) {
        if self.log_enabled.get() {
            let t = self.now_ms();
            let mut log = self.log.borrow_mut();
            if log.len() < 200_000 {
                log.push(format!("[{:>9} ms] {}", t, msg));
            }
        }
    }

    pub fn count(&self, key: &'static str, n: u64) {
        *self.counters.borrow_mut().entry(key).or_insert(0) += n;
    }

    /// mark progress for every task (used by I/O and by driver operations): resets spin counters
    pub fn progress(&self) {
        if let Ok(mut tasks) = self.tasks.try_borrow_mut() {
            for t in tasks.iter_mut() {
                t.polls_since_progress = 0;
            }
        }
    }

    pub fn sched_rng<R>(&self, f: impl FnOnce(&mut Rng) -> R) -> R {
        f(&mut self.sched.borrow_mut())
    }

    pub fn fragment_popped(&self, source: u16, data: &[u8]) {
        if self.record_popped.get() {
            let t = self.now_ms();
            let order = self.next_order();
            self.popped
                .borrow_mut()
                .push((t, order, source, data.to_vec()));
        }
    }

    pub fn lock_point(&self, site: &'static str) {
        if self.lock_depth.get() > 0 {
            return;
        }
        self.lock_depth.set(1);
        // take the hook out while it runs so that re-entrant installs cannot alias
        let hook = self.lock_hook.borrow_mut().take();
        if let Some(mut h) = hook {
            h(site);
            let mut slot = self.lock_hook.borrow_mut();
            if slot.is_none() {
                *slot = Some(h);
            }
        }
        self.lock_depth.set(0);
    }

    pub fn net(&self) -> Option<Arc<dyn super::hooks::SimNet>> {
        self.net.borrow().clone()
    }
}

impl Sim {
    pub fn core(&self) -> &Rc<SimCore> {
        &self.core
    }

    pub fn now_ms(&self) -> u64 {
        self.core.now_ms()
    }

    pub fn log(&self, f: impl FnOnce() -> String) {
        if self.core.log_enabled() {
            self.core.log(f());
        }
    }

    pub fn count(&self, key: &'static str) {
        self.core.count(key, 1)
    }

    fn spawn_inner(&self, name: &str, fut: BoxFut, low: bool) -> usize {
        let flag = Arc::new(WakeFlag {
            flag: AtomicBool::new(true),
            outer: self.core.outer.clone(),
        });
        let waker = Waker::from(flag.clone());
        let mut tasks = self.core.tasks.borrow_mut();
        tasks.push(TaskSlot {
            name: name.to_string(),
            fut: Some(fut),
            flag,
            waker,
            done: false,
            low,
            polls: 0,
            polls_since_progress: 0,
        });
        if let Some(w) = self.core.outer.lock().unwrap().as_ref() {
            w.wake_by_ref();
        }
        tasks.len() - 1
    }

    /// spawn a simulated task (scheduled by the seeded executor)
    pub fn spawn<Fut: Future<Output = ()> + 'static>(&self, name: &str, fut: Fut) -> usize {
        self.spawn_inner(name, Box::pin(fut), false)
    }

    pub fn task_done(&self, id: usize) -> bool {
        self.core.tasks.borrow()[id].done
    }

    pub fn task_polls(&self, id: usize) -> u64 {
        self.core.tasks.borrow()[id].polls
    }

    /// remove a task (its future is dropped now)
    pub fn kill(&self, id: usize) {
        let fut = {
            let mut tasks = self.core.tasks.borrow_mut();
            tasks[id].done = true;
            tasks[id].fut.take()
        };
        drop(fut);
    }

    /// let every other task run until none is runnable at the current virtual instant
    pub async fn settle(&self) {
        self.core.progress();
        Yield { yielded: false }.await
    }

    /// let virtual time pass (other tasks run as their timers fire)
    pub async fn sleep_ms(&self, ms: u64) {
        self.core.progress();
        tokio::time::sleep(Duration::from_millis(ms)).await;
        // run everything that became runnable at this instant before the driver continues
        Yield { yielded: false }.await
    }

    pub fn set_lock_hook(&self, hook: Box<dyn FnMut(&'static str)>) {
        *self.core.lock_hook.borrow_mut() = Some(hook);
    }

    pub fn clear_lock_hook(&self) {
        *self.core.lock_hook.borrow_mut() = None;
    }

    pub fn set_net(&self, net: Arc<dyn super::hooks::SimNet>) {
        *self.core.net.borrow_mut() = Some(net);
    }

    pub fn rng<R>(&self, f: impl FnOnce(&mut Rng) -> R) -> R {
        self.core.sched_rng(f)
    }
}

struct Yield {
    yielded: bool,
}

impl Future for Yield {
    type Output = ();
    fn poll(mut self: Pin<&mut Self>, cx: &mut Context<'_>) -> Poll<()> {
        if self.yielded {
            Poll::Ready(())
        } else {
            self.yielded = true;
            cx.waker().wake_by_ref();
            Poll::Pending
        }
    }
}
