//! C11 - a READ is answered with a complete, consistent snapshot as an orderly series (engine S-OUT).

use crate::verif::models::ledger::{wire_flags, Ledger, StaticVal};
use crate::verif::nodes::outstation::{static_group, static_vars, Cb, CtrlAnswers, PointCfg};
use crate::verif::props::gen_out::*;
use crate::verif::refcodec::app::{self as refapp, PointType, Range, ReqHeader, ALL_TYPES};
use crate::verif::rng::{mix, Rng};
use crate::verif::runner::{erase, Codec, Outcome, Property, Scenario, Tier, Violation};
use crate::verif::sout::{self, ConfSel, Op, Oracle, SoutCase, Step, TimeBase, Who, World, TL};
use std::collections::BTreeMap;

pub struct ReadScenario;

pub fn property<C: Codec>() -> Property {
    Property {
        id: "C11",
        scenarios: vec![erase::<C, _>(ReadScenario)],
    }
}

fn gen_static_read(rng: &mut Rng, points: &[PointCfg]) -> Vec<ReqHeader> {
    let mut headers = Vec::new();
    let n = rng.urange(1, 4);
    for _ in 0..n {
        match rng.below(11) {
            0..=2 => headers.push(class_header(0, None)),
            10 => {
                // analog input dead-bands (g34): every analog input in range, default variation 3
                let base = points
                    .iter()
                    .find(|p| p.ptype == PointType::Analog)
                    .map(|p| p.index)
                    .unwrap_or(0);
                headers.push(ReqHeader {
                    group: 34,
                    var: rng.below(4) as u8,
                    range: match rng.below(3) {
                        0 => Range::All,
                        1 => Range::Range16(base.saturating_sub(1), base.saturating_add(rng.below(40) as u16)),
                        _ => {
                            let b = base.min(200) as u8;
                            Range::Range8(b, b.saturating_add(rng.below(20) as u8))
                        }
                    },
                    data: vec![],
                });
            }
            3 => {
                // event classes first (integrity-poll style)
                headers.push(class_header(1, None));
                headers.push(class_header(
                    2,
                    if rng.chance(1, 4) {
                        Some(rng.range(1, 3) as u16)
                    } else {
                        None
                    },
                ));
                headers.push(class_header(3, None));
            }
            _ => {
                let p = rng.pick(points);
                let group = static_group(p.ptype);
                let var = if p.ptype == PointType::OctetString {
                    0
                } else if rng.bool() {
                    0
                } else {
                    *rng.pick(static_vars(p.ptype))
                };
                let range = match rng.below(4) {
                    0 | 1 => Range::All,
                    2 => {
                        let a = p.index.saturating_sub(rng.below(3) as u16);
                        let b = p.index.saturating_add(rng.below(40) as u16);
                        if b < 256 {
                            Range::Range8(a as u8, b as u8)
                        } else {
                            Range::Range16(a, b)
                        }
                    }
                    _ => {
                        let a = p.index.saturating_sub(rng.below(200) as u16);
                        let b = p.index.saturating_add(rng.below(2000) as u16);
                        Range::Range16(a, b)
                    }
                };
                headers.push(ReqHeader {
                    group,
                    var,
                    range,
                    data: vec![],
                });
            }
        }
    }
    headers
}

impl Scenario for ReadScenario {
    type Case = SoutCase;

    fn name(&self) -> &'static str {
        "read"
    }

    fn runs(&self, tier: Tier) -> u64 {
        match tier {
            Tier::Quick => 60_000,
            Tier::Thorough => 1_600_000,
        }
    }

    fn rule(&self) -> String {
        "random databases (1..5 types, 1..60 points per type, dense or sparse indices up to 65535, any static variation incl. the bit-packed g1v1/g3v1/g10v1) \
         and READ requests (class 0/1/2/3 combinations, gNv0, specific variations, 8- and 16-bit ranges, several headers, count-limited event headers) with \
         solicited tx buffers 249..2048 so that series have 1..n fragments; updates between fragments and at every database lock point; confirms right, wrong, \
         late (after the timeout), missing; new request or disconnect mid-series; the concatenated static objects of a series must equal (or, if the series is cut \
         short, be a prefix of) the list computed from the harness' mirror snapshot taken at the request's select lock point; series shape (FIR/FIN/CON/sequence, \
         next fragment only after its confirm) is monitored; non-trivial = a series of >= 2 fragments with an update applied between select and the last fragment; \
         distinct = hash of (header kinds, fragments per series, where updates fell)"
            .to_string()
    }

    fn real_components(&self) -> Vec<&'static str> {
        vec![
            "outstation::database::details::range::static_db (selection, snapshot cells, range writer)",
            "outstation::database::read",
            "outstation::session::OutstationSession (read response series, confirm wait)",
            "outstation::deferred",
            "transport::real",
            "link::layer/reader/parser",
        ]
    }

    fn stub_components(&self) -> Vec<&'static str> {
        vec![
            "physical layer (SimSocket)",
            "TCP accept loop",
            "user callbacks (recording stubs)",
            "scripted master peer (reference codec)",
            "user threads (lock-point injection)",
        ]
    }

    fn generate(&self, rng: &mut Rng, _tier: Tier) -> SoutCase {
        let mut cfg = gen_event_cfg(rng);
        cfg.unsolicited = rng.chance(1, 5);
        cfg.event_buffers = [20; 8];
        cfg.sol_tx = match rng.below(4) {
            0 => 249,
            1 => 2048,
            _ => rng.urange(249, 600),
        };
        let ntypes = rng.urange(1, 5);
        let big = rng.chance(3, 4);
        let sparse = rng.chance(1, 3);
        cfg.points = gen_points(rng, ntypes, if big { 60 } else { 6 }, sparse, true);
        let mut clock = 7_000_000u64;
        let mut script = Vec::new();
        if cfg.unsolicited {
            script.push(Op::Confirm {
                uns: true,
                seq: ConfSel::Expected,
                from: Who::Master,
            });
        }
        // some initial values
        for _ in 0..rng.urange(0, 12) {
            script.push(Op::Update(gen_update(rng, &cfg.points, &mut clock)));
        }
        let reads = rng.urange(1, 4);
        for _ in 0..reads {
            if rng.chance(1, 3) {
                let u = gen_update(rng, &cfg.points, &mut clock);
                script.push(Op::UpdateAtLock {
                    site: rng
                        .pick(&["select", "write_response_headers", "get_events_info", ""])
                        .to_string(),
                    skip: rng.below(2) as u8,
                    update: u,
                });
            }
            script.push(read_op(gen_static_read(rng, &cfg.points)));
            // walk through the series
            let steps = rng.urange(0, 10);
            // a slow master: every confirm comes late, but in time - the delays add up to more than one confirm time-out
            let slow = rng.chance(1, 8);
            for _ in 0..steps {
                if slow {
                    script.push(Op::SleepRel {
                        base: TimeBase::ConfirmTimeout,
                        delta_ms: -(rng.range(1, cfg.confirm_timeout_ms / 2) as i64),
                        since_last_tx: true,
                    });
                    script.push(Op::Confirm {
                        uns: false,
                        seq: ConfSel::Expected,
                        from: Who::Master,
                    });
                    continue;
                }
                if rng.chance(1, 12) {
                    // something that must be ignored arrives inside the confirm window, the right confirm only after it
                    match rng.below(3) {
                        0 => script.push(Op::Confirm {
                            uns: false,
                            seq: ConfSel::Offset(rng.range(1, 15) as u8),
                            from: Who::Master,
                        }),
                        1 => script.push(Op::Confirm {
                            uns: true,
                            seq: ConfSel::Expected,
                            from: Who::Master,
                        }),
                        _ => {
                            if rng.bool() {
                                script.push(Op::LinkStatusRequest)
                            } else {
                                script.push(Op::SetDecodeLevel(rng.chance(1, 4)))
                            }
                        }
                    }
                    script.push(Op::SleepRel {
                        base: TimeBase::ConfirmTimeout,
                        delta_ms: *rng.pick(&[-1i64, 1, 1]),
                        since_last_tx: true,
                    });
                    script.push(Op::Confirm {
                        uns: false,
                        seq: ConfSel::Expected,
                        from: Who::Master,
                    });
                    continue;
                }
                match rng.below(12) {
                    0..=5 => script.push(Op::Confirm {
                        uns: false,
                        seq: ConfSel::Expected,
                        from: Who::Master,
                    }),
                    6 => script.push(Op::Confirm {
                        uns: false,
                        seq: ConfSel::Offset(rng.range(1, 15) as u8),
                        from: Who::Master,
                    }),
                    7 => script.push(Op::Update(gen_update(rng, &cfg.points, &mut clock))),
                    8 => {
                        let u = gen_update(rng, &cfg.points, &mut clock);
                        script.push(Op::UpdateAtLock {
                            site: rng
                                .pick(&[
                                    "write_response_headers",
                                    "clear_written_events",
                                    "get_events_info",
                                ])
                                .to_string(),
                            skip: 0,
                            update: u,
                        });
                    }
                    9 => script.push(Op::SleepRel {
                        base: TimeBase::ConfirmTimeout,
                        delta_ms: *rng.pick(&[-1i64, 1]),
                        since_last_tx: true,
                    }),
                    10 => script.push(Op::Repeat),
                    _ => {
                        if rng.bool() {
                            script.push(simple_request(refapp::FUNC_DELAY_MEASURE, vec![]));
                        } else {
                            // a cut, or a new connection that replaces the running one (the session's future is dropped where
                            // it stands, e.g. in the middle of a series)
                            if rng.bool() {
                                script.push(Op::Disconnect { eof: rng.bool() });
                            }
                            script.push(Op::Connect);
                        }
                    }
                }
            }
        }
        crate::verif::props::gen_out::sprinkle_splits(rng, &mut script);
        SoutCase {
            cfg,
            ctrl: CtrlAnswers::AllSuccess,
            chunk: rng.below(5) as u8,
            chunk_seed: rng.next_u64(),
            script,
        }
    }

    fn shrink(&self, case: &SoutCase) -> Vec<SoutCase> {
        sout::shrink_case(case)
    }

    fn execute(&self, case: &SoutCase, log: bool) -> Outcome {
        sout::execute("C11", case, case.chunk_seed, log, |c| ReadOracle::new(c))
    }
}

/// one expected static object
#[derive(Clone, Debug, PartialEq)]
struct Expect {
    group: u8,
    var: u8,
    index: u16,
    ptype: PointType,
    val: StaticVal,
}

struct Series {
    seq_next: u8,
    expected: Vec<Expect>,
    got: usize,
    fragments: u32,
    finished: bool,
    last_tx: u64,
    awaiting_confirm: Option<u8>,
    updates_during: u32,
    understood: bool,
}

pub struct ReadOracle {
    ledger: Ledger,
    master: u16,
    own: u16,
    confirm_timeout: u64,
    /// receive buffer of the outstation: a larger request never reaches its application layer
    rx_size: usize,
    class_zero_octets: bool,
    /// the READ most recently sent: (seq, headers)
    last_read: Option<(u8, Vec<refapp::HeaderInfo>)>,
    /// snapshot of the mirror taken at the latest select lock point not yet attached to a series
    snapshot: Option<BTreeMap<(PointType, u16), StaticVal>>,
    series: Option<Series>,
    /// a matching confirm for the outstanding fragment was sent in this step (time)
    confirm_sent: Option<(u8, u64)>,
    nontrivial: bool,
    fp: u64,
    counters: BTreeMap<String, u64>,
}

impl ReadOracle {
    pub fn new(case: &SoutCase) -> Self {
        Self {
            ledger: Ledger::new(&case.cfg),
            master: case.cfg.master_addr,
            own: case.cfg.outstation_addr,
            confirm_timeout: case.cfg.confirm_timeout_ms,
            rx_size: case.cfg.rx,
            class_zero_octets: case.cfg.class_zero_octet_strings,
            last_read: None,
            snapshot: None,
            series: None,
            confirm_sent: None,
            nontrivial: false,
            fp: 0,
            counters: BTreeMap::new(),
        }
    }

    fn bump(&mut self, k: &str) {
        *self.counters.entry(k.to_string()).or_insert(0) += 1;
    }

    fn type_of_static_group(g: u8) -> Option<PointType> {
        ALL_TYPES.iter().copied().find(|t| static_group(*t) == g)
    }

    /// what the series must carry as static data, or None if the request contains a header this oracle does not model
    fn expected_for(
        &self,
        headers: &[refapp::HeaderInfo],
        snap: &BTreeMap<(PointType, u16), StaticVal>,
    ) -> Option<Vec<Expect>> {
        let mut out = Vec::new();
        for h in headers {
            let selected: Vec<(PointType, u8, Option<(u16, u16)>)> = if h.group == 60 {
                match h.var {
                    1 => {
                        if h.qualifier != 0x06 {
                            return None;
                        }
                        ALL_TYPES
                            .iter()
                            .filter(|t| **t != PointType::OctetString || self.class_zero_octets)
                            .map(|t| (*t, 0u8, None))
                            .collect()
                    }
                    2..=4 => Vec::new(),
                    _ => return None,
                }
            } else if h.group == 34 {
                let range = match h.qualifier {
                    0x06 => None,
                    0x00 | 0x01 => {
                        let start = h.start? as u16;
                        Some((start, start + (h.count as u16 - 1)))
                    }
                    _ => return None,
                };
                // g34v0 exists only with the all-objects qualifier (anything else is rejected as a whole)
                if h.var > 3 || (h.var == 0 && range.is_some()) {
                    return None;
                }
                for ((pt, index), _) in snap.iter().filter(|((pt, _), _)| *pt == PointType::Analog) {
                    if let Some((a, b)) = range {
                        if *index < a || *index > b {
                            continue;
                        }
                    }
                    out.push(Expect {
                        group: 34,
                        var: h.var,
                        index: *index,
                        ptype: *pt,
                        val: StaticVal {
                            value: self.ledger.points[&(*pt, *index)].deadband as f64,
                            bytes: Vec::new(),
                            flags: 0,
                            time: None,
                        },
                    });
                }
                Vec::new()
            } else if let Some(t) = Self::type_of_static_group(h.group) {
                let range = match h.qualifier {
                    0x06 => None,
                    0x00 | 0x01 => {
                        let start = h.start? as u16;
                        Some((start, start + (h.count as u16 - 1)))
                    }
                    _ => return None,
                };
                if h.var != 0 && t != PointType::OctetString && !static_vars(t).contains(&h.var) {
                    return None;
                }
                vec![(
                    t,
                    if t == PointType::OctetString {
                        0
                    } else {
                        h.var
                    },
                    range,
                )]
            } else if crate::verif::refcodec::app::layout(
                h.group,
                if h.var == 0 { 1 } else { h.var },
            )
            .map(|l| l.is_event)
            .unwrap_or(false)
                || h.group == 111
            {
                Vec::new() // event header: C03's business
            } else {
                return None;
            };
            for (t, var, range) in selected {
                for ((pt, index), val) in snap.iter().filter(|((pt, _), _)| *pt == t) {
                    if let Some((a, b)) = range {
                        if *index < a || *index > b {
                            continue;
                        }
                    }
                    let cfg = &self.ledger.points[&(*pt, *index)];
                    let mut v = if var == 0 { cfg.svar } else { var };
                    // bit-packed variations are only used for plainly ONLINE points
                    if v == 1
                        && matches!(
                            t,
                            PointType::Binary
                                | PointType::DoubleBit
                                | PointType::BinaryOutputStatus
                        )
                    {
                        let mask = if t == PointType::DoubleBit {
                            0x3F
                        } else {
                            0x7F
                        };
                        if val.flags & mask != 0x01 {
                            v = 2;
                        }
                    }
                    if t == PointType::OctetString {
                        v = val.bytes.len() as u8;
                    }
                    out.push(Expect {
                        group: static_group(t),
                        var: v,
                        index: *index,
                        ptype: t,
                        val: val.clone(),
                    });
                }
            }
        }
        Some(out)
    }
}

fn object_matches(e: &Expect, m: &refapp::Meas) -> bool {
    // (variation 0 in an expectation: no variation was requested and none is configured - dead-bands read with g34v0 -
    // so any variation that carries the value will do)
    if m.group != e.group
        || (m.var != e.var && e.var != 0)
        || m.index != e.index as u32
        || m.ptype != e.ptype
    {
        return false;
    }
    if let Some(b) = &m.bytes {
        return *b == e.val.bytes;
    }
    if let Some(f) = m.flags {
        if f != wire_flags(e.ptype, e.val.flags, e.val.value) {
            return false;
        }
    }
    if m.value != Some(e.val.value) {
        return false;
    }
    if let Some(t) = m.time {
        if t != e.val.time.unwrap_or(0) {
            return false;
        }
    }
    true
}

enum Ev<'a> {
    Tl(&'a TL),
    Cb(u64, &'a Cb),
    Frag(&'a crate::verif::nodes::peer::RxFragment),
    Sent,
}

impl Oracle for ReadOracle {
    fn step(&mut self, _world: &World, step: &Step) -> Option<Violation> {
        if step.connected || step.disconnected {
            if let Some(s) = &self.series {
                if !s.finished {
                    self.bump("probe.series_cut_by_disconnect");
                }
            }
            self.series = None;
            self.last_read = None;
            self.snapshot = None;
        }
        self.confirm_sent = None;
        let sent = if step.link_up {
            step.sent.clone()
        } else {
            None
        };
        let mut evs: Vec<(u64, Ev)> = Vec::new();
        for tl in &step.timeline {
            let o = match tl {
                TL::Lock(_, o) => *o,
                TL::Update { order, .. } => *order,
            };
            evs.push((o, Ev::Tl(tl)));
        }
        for (i, (t, cb)) in step.callbacks.iter().enumerate() {
            evs.push((
                step.callback_orders.get(i).copied().unwrap_or(0),
                Ev::Cb(*t, cb),
            ));
        }
        for rx in &step.received {
            evs.push((rx.order, Ev::Frag(rx)));
        }
        if sent.is_some() {
            evs.push((step.sent_order, Ev::Sent));
        }
        evs.sort_by_key(|e| e.0);

        for (_, ev) in &evs {
            match ev {
                Ev::Tl(TL::Update { op, info, t_ms, .. }) => {
                    let _ = self.ledger.apply_update(op, *info, *t_ms);
                    if let Some(s) = self.series.as_mut() {
                        if !s.finished && op.update_static {
                            s.updates_during += 1;
                        }
                    }
                }
                Ev::Tl(TL::Lock(site, _)) => {
                    if *site == "select" {
                        self.snapshot = Some(self.ledger.mirror.clone());
                    }
                }
                Ev::Cb(t, cb) => {
                    if let Cb::Info(s) = cb {
                        // a confirm time-out is only due one confirm time-out after the fragment awaiting it was (last) sent
                        if s.starts_with("solicited_confirm_timeout") {
                            if let Some(sr) = self.series.as_ref() {
                                if !sr.finished
                                    && sr.awaiting_confirm.is_some()
                                    && *t + 1 < sr.last_tx + self.confirm_timeout
                                {
                                    return Some(Violation::new(
                                        "C11/series-timed-out-early",
                                        format!("fragment-no={}", sr.fragments.min(4)),
                                        format!(
                                            "step {}: the series was abandoned for a confirm time-out at {} ms although fragment {} was sent at {} ms and the time-out is {} ms",
                                            step.op_index, t, sr.fragments, sr.last_tx, self.confirm_timeout
                                        ),
                                    ));
                                }
                            }
                        }
                        if s.starts_with("solicited_confirm_timeout")
                            || s.starts_with("solicited_confirm_wait_new_request")
                        {
                            // the series is over: nothing more of it may be transmitted
                            if let Some(sr) = self.series.as_mut() {
                                if !sr.finished {
                                    sr.finished = true;
                                    sr.awaiting_confirm = None;
                                    self.counters
                                        .entry("probe.series_aborted".into())
                                        .and_modify(|x| *x += 1)
                                        .or_insert(1);
                                }
                            }
                        }
                    }
                }
                Ev::Sent => {
                    let s = sent.as_ref().unwrap();
                    if s.src != self.master || s.dest != self.own || s.bytes.len() < 2 {
                        continue;
                    }
                    let func = s.bytes[1];
                    if func == refapp::FUNC_CONFIRM {
                        if s.bytes.len() == 2 && s.bytes[0] & 0xF0 == 0xC0 {
                            self.confirm_sent = Some((s.bytes[0] & 0x0F, s.t_ms));
                        }
                        continue;
                    }
                    // "a new request ends the series" - taken from the wire, not from the outstation's own account of it
                    if s.bytes[0] & 0xF0 == 0xC0 && s.bytes.len() <= self.rx_size && !matches!(step.op, Op::Repeat) {
                        if let Some(sr) = self.series.as_mut() {
                            if !sr.finished && sr.awaiting_confirm.is_some() {
                                sr.finished = true;
                                sr.awaiting_confirm = None;
                                self.counters
                                    .entry("probe.series_ended_by_request_on_the_wire".into())
                                    .and_modify(|x| *x += 1)
                                    .or_insert(1);
                            }
                        }
                    }
                    if func == refapp::FUNC_READ
                        && s.bytes[0] & 0xF0 == 0xC0
                        && !matches!(step.op, Op::Repeat)
                    {
                        match refapp::decode_objects(&s.bytes[2..], false) {
                            Ok((headers, _)) => self.last_read = Some((s.bytes[0] & 0x0F, headers)),
                            Err(_) => {
                                self.bump("probe.read_request_not_decodable_by_reference");
                                self.last_read = None
                            }
                        }
                    } else if !matches!(step.op, Op::Repeat) {
                        self.last_read = None;
                    }
                }
                Ev::Frag(rx) => {
                    let frag = match &rx.frag {
                        Some(f) if f.func == refapp::FUNC_RESPONSE => f,
                        _ => continue,
                    };
                    let t = rx.t_ms;
                    if frag.ctrl.fir {
                        // "the first fragment alone has FIR": a fragment that continues the series in progress (next sequence
                        // number, right after the matching confirm, no new request) must not carry it
                        if let (Some(sr), Some((got, _))) = (self.series.as_ref(), self.confirm_sent) {
                            if !sr.finished
                                && sr.awaiting_confirm == Some(got)
                                && frag.ctrl.seq == sr.seq_next
                                && matches!(step.op, Op::Confirm { .. })
                            {
                                return Some(Violation::new(
                                    "C11/fir-on-later-fragment",
                                    "",
                                    format!(
                                        "step {}: the fragment that follows the confirmation of fragment {} (seq {}) carries FIR",
                                        step.op_index, sr.fragments, frag.ctrl.seq
                                    ),
                                ));
                            }
                        }
                        // a new series: is it the answer to the READ we know?
                        let snap = self.snapshot.take();
                        let mut series = None;
                        let mut series_unmodelled = false;
                        let mut series_modelled = false;
                        if let (Some((seq, headers)), Some(snap)) = (&self.last_read, &snap) {
                            if *seq == frag.ctrl.seq {
                                let expected = self.expected_for(headers, snap);
                                if expected.is_none() {
                                    series_unmodelled = true;
                                } else {
                                    series_modelled = true;
                                }
                                series = Some(Series {
                                    seq_next: (frag.ctrl.seq + 1) & 0x0F,
                                    understood: expected.is_some(),
                                    expected: expected.unwrap_or_default(),
                                    got: 0,
                                    fragments: 0,
                                    finished: false,
                                    last_tx: t,
                                    awaiting_confirm: None,
                                    updates_during: 0,
                                });
                            }
                        }
                        // an echo of the first fragment (repeated READ during the wait) is byte-identical: keep the series
                        if series.is_none() {
                            if let Some(sr) = self.series.as_mut() {
                                if !sr.finished
                                    && sr.fragments == 1
                                    && matches!(step.op, Op::Repeat)
                                {
                                    // re-sending the fragment restarts its confirm timer
                                    sr.last_tx = t;
                                    continue;
                                }
                            }
                        }
                        if series_unmodelled {
                            self.bump("probe.read_series_with_unmodelled_header");
                        }
                        if series_modelled {
                            self.bump("probe.read_series_judged_against_snapshot");
                        }
                        self.series = series;
                        if self.series.is_none() {
                            continue;
                        }
                    } else {
                        // a later fragment
                        let sr = match self.series.as_mut() {
                            Some(s) => s,
                            None => continue,
                        };
                        if matches!(step.op, Op::Repeat)
                            && Some(frag.ctrl.seq) == sr.awaiting_confirm
                        {
                            // echo of the fragment awaiting confirmation: restarts its confirm timer
                            sr.last_tx = t;
                            continue;
                        }
                        if sr.finished {
                            return Some(Violation::new(
                                "C11/fragment-after-series-ended",
                                "",
                                format!("step {}: fragment seq {} of a series that ended (timeout, new request or final fragment)", step.op_index, frag.ctrl.seq),
                            ));
                        }
                        if frag.ctrl.seq != sr.seq_next {
                            return Some(Violation::new(
                                "C11/sequence-not-consecutive",
                                "",
                                format!(
                                    "step {}: fragment seq {} where {} is expected",
                                    step.op_index, frag.ctrl.seq, sr.seq_next
                                ),
                            ));
                        }
                        // only after the matching confirm, sent in time
                        match (sr.awaiting_confirm, self.confirm_sent) {
                            (Some(want), Some((got, tc))) if want == got => {
                                if tc > sr.last_tx + self.confirm_timeout {
                                    return Some(Violation::new(
                                        "C11/next-fragment-after-late-confirm",
                                        "",
                                        format!("step {}: CONFIRM sent at {} ms, fragment awaiting it was sent at {} ms, timeout {} ms", step.op_index, tc, sr.last_tx, self.confirm_timeout),
                                    ));
                                }
                            }
                            (want, got) => {
                                return Some(Violation::new(
                                    "C11/next-fragment-without-matching-confirm",
                                    "",
                                    format!("step {}: fragment seq {} transmitted, awaiting confirm {:?}, confirm sent in this step {:?}", step.op_index, frag.ctrl.seq, want, got),
                                ));
                            }
                        }
                        sr.seq_next = (frag.ctrl.seq + 1) & 0x0F;
                    }
                    let sr = self.series.as_mut().unwrap();
                    sr.fragments += 1;
                    sr.last_tx = t;
                    // shape
                    let meas = refapp::measurements(frag);
                    let has_events = meas.iter().any(|m| m.is_event);
                    if (!frag.ctrl.fin || has_events) && !frag.ctrl.con {
                        return Some(Violation::new(
                            "C11/confirmation-not-requested",
                            if !frag.ctrl.fin {
                                "non-final-fragment"
                            } else {
                                "event-bearing-fragment"
                            },
                            format!(
                                "step {}: fragment seq {} FIN={} events={} without CON",
                                step.op_index, frag.ctrl.seq, frag.ctrl.fin, has_events
                            ),
                        ));
                    }
                    sr.awaiting_confirm = if frag.ctrl.con {
                        Some(frag.ctrl.seq)
                    } else {
                        None
                    };
                    // static objects
                    if sr.understood {
                        for m in meas.iter().filter(|m| !m.is_event) {
                            match sr.expected.get(sr.got) {
                                Some(e) if object_matches(e, m) => {
                                    if e.group == 34 {
                                        *self
                                            .counters
                                            .entry("probe.deadband_object_checked".to_string())
                                            .or_insert(0) += 1;
                                    }
                                    sr.got += 1
                                }
                                other => {
                                    let kind = match other {
                                        None => "more-objects-than-selected",
                                        Some(e)
                                            if e.index as u32 == m.index
                                                && e.group == m.group
                                                && e.var == m.var =>
                                        {
                                            "value-differs-from-snapshot"
                                        }
                                        Some(e)
                                            if e.index as u32 == m.index && e.group == m.group =>
                                        {
                                            "variation-differs"
                                        }
                                        Some(_) => "wrong-object-or-order",
                                    };
                                    let current =
                                        self.ledger.mirror.get(&(m.ptype, m.index as u16)).cloned();
                                    let leak = match (other, &current) {
                                        (Some(e), Some(c))
                                            if kind != "wrong-object-or-order"
                                                && *c != e.val
                                                && m.value == Some(c.value) =>
                                        {
                                            " (equals the CURRENT value: a later update leaked in)"
                                        }
                                        _ => "",
                                    };
                                    return Some(Violation::new(
                                        "C11/static-object-differs-from-snapshot",
                                        kind,
                                        format!(
                                            "step {}: object #{} of the series is g{}v{}[{}] value {:?} flags {:?}, expected {:?}{}",
                                            step.op_index, sr.got, m.group, m.var, m.index, m.value, m.flags, other, leak
                                        ),
                                    ));
                                }
                            }
                        }
                    }
                    if frag.ctrl.fin {
                        if sr.understood && sr.got != sr.expected.len() {
                            return Some(Violation::new(
                                "C11/series-incomplete",
                                "",
                                format!("step {}: final fragment reached with {} of {} selected static objects reported; next missing: {:?}", step.op_index, sr.got, sr.expected.len(), sr.expected.get(sr.got)),
                            ));
                        }
                        sr.finished = !frag.ctrl.con;
                        if sr.fragments >= 2 {
                            self.counters
                                .entry("probe.multi_fragment_series_completed".into())
                                .and_modify(|x| *x += 1)
                                .or_insert(1);
                            if sr.updates_during > 0 {
                                self.nontrivial = true;
                            }
                        }
                        let (f, u, n) = (sr.fragments, sr.updates_during, sr.expected.len());
                        if frag.ctrl.con {
                            // the last fragment still awaits its confirm; nothing else may follow
                            sr.finished = true;
                        }
                        self.fp = mix(&[
                            self.fp,
                            f.min(6) as u64,
                            u.min(3) as u64,
                            (n / 10).min(10) as u64,
                        ]);
                    }
                }
            }
        }
        // "the next one is sent only after the matching confirm" has a converse: a series does not stop on its own. After the
        // matching confirm, sent in time while the connection is up, the next fragment follows (only a new request, a
        // time-out or a disconnect ends a series)
        if let (Some(sr), Some((got, tc))) = (self.series.as_ref(), self.confirm_sent) {
            if !sr.finished
                && sr.awaiting_confirm == Some(got)
                && sr.last_tx <= tc
                && tc + 1 < sr.last_tx + self.confirm_timeout
                && step.link_up
                && !step.connected
                && !step.disconnected
                && matches!(step.op, Op::Confirm { .. })
            {
                return Some(Violation::new(
                    "C11/series-stopped-after-timely-confirm",
                    format!("fragment-no={}", sr.fragments.min(4)),
                    format!(
                        "step {}: fragment {} (seq {}, sent at {} ms, not final) was confirmed at {} ms, within the time-out of {} ms, and no further fragment followed",
                        step.op_index, sr.fragments, got, sr.last_tx, tc, self.confirm_timeout
                    ),
                ));
            }
        }
        let kind = match &step.op {
            Op::Update(_) | Op::UpdateAtLock { .. } => 1,
            Op::Request { func, headers, .. } => 10 + *func as u64 + headers.len() as u64 * 100,
            Op::Confirm { .. } => 40,
            Op::Sleep(_) | Op::SleepRel { .. } => 51,
            Op::Connect | Op::Disconnect { .. } => 52,
            _ => 60,
        };
        self.fp = mix(&[self.fp, kind]);
        None
    }

    fn nontrivial(&self) -> bool {
        self.nontrivial
    }

    fn fingerprint(&self) -> u64 {
        self.fp
    }

    fn counters(&self) -> Vec<(String, u64)> {
        self.counters.iter().map(|(k, v)| (k.clone(), *v)).collect()
    }
}
