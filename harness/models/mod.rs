pub mod ledger;
pub mod mast_hist;
