//! C19 - master scheduling: requests first and in order, polls on period, associations take turns, one request at a time,
//! keep-alive after silence, no busy-waiting (engine S-MAST).

use crate::verif::models::mast_hist::{master_time_history, H};
use crate::verif::nodes::master::{AssocCfg, MasterCfg};
use crate::verif::rng::{mix, Rng};
use crate::verif::runner::{erase, Codec, Outcome, Property, Scenario, Tier, Violation};
use crate::verif::smast::{self, MOp, MastRun, Reply, SmastCase, UserKind};
use std::collections::BTreeMap;

pub struct ScheduleScenario;

pub fn property<C: Codec>() -> Property {
    Property {
        id: "C19",
        scenarios: vec![erase::<C, _>(ScheduleScenario)],
    }
}

/// a user request the oracle can recognise on the wire: DIRECT_OPERATE - or SELECT then OPERATE, a task of two requests - of one
/// g41v2 with a unique 16-bit index
fn tagged_command(tag: u16, sbo: bool) -> UserKind {
    UserKind::Command {
        sbo,
        headers: vec![vec![(2, tag, true)]],
    }
}

fn tag_of_request(bytes: &[u8]) -> Option<u16> {
    // [ctrl, 5, 41, 2, 0x28, 1, 0, index lo, index hi, ...]
    if bytes.len() >= 9 && (bytes[1] == 5 || bytes[1] == 3) && bytes[2] == 41 && bytes[3] == 2 && bytes[4] == 0x28 {
        Some(u16::from_le_bytes([bytes[7], bytes[8]]))
    } else {
        None
    }
}

/// class mask of a class-scan READ request (bit0..2 = class 1..3, bit3 = class 0)
fn classes_of_read(bytes: &[u8]) -> Option<u8> {
    if bytes.len() < 2 || bytes[1] != 1 {
        return None;
    }
    let mut mask = 0u8;
    let mut i = 2;
    while i + 2 < bytes.len() + 0 && i + 3 <= bytes.len() {
        if bytes[i] != 60 || bytes[i + 2] != 0x06 {
            return None;
        }
        match bytes[i + 1] {
            1 => mask |= 8,
            2 => mask |= 1,
            3 => mask |= 2,
            4 => mask |= 4,
            _ => return None,
        }
        i += 3;
    }
    Some(mask)
}

impl Scenario for ScheduleScenario {
    type Case = SmastCase;

    fn name(&self) -> &'static str {
        "schedule"
    }

    fn runs(&self, tier: Tier) -> u64 {
        match tier {
            Tier::Quick => 30_000,
            Tier::Thorough => 800_000,
        }
    }

    fn rule(&self) -> String {
        "the real master with 1..4 associations on one channel against scripted outstations: 0..3 periodic polls per association with periods \
         0.1..7 s (distinct class sets, so each run is attributable), recognisable user requests submitted singly and in bursts to any association at \
         arbitrary virtual times, responses prompt / late within the timeout / never, polls demanded and removed, keep-alive on or off with the outstation \
         answering link status requests or not, and the channel disabled and re-enabled; non-trivial = two associations or a user request and a due poll \
         competed for the channel; distinct = hash of the sequence of (association, task class) served"
            .to_string()
    }

    fn real_components(&self) -> Vec<&'static str> {
        vec![
            "master::association::AssociationMap::next_task (priority ring, user queue, auto tasks, polls, keep-alive)",
            "master::poll::PollMap",
            "master::task::MasterSession::run / idle_until / idle_forever",
            "master::tasks::*",
            "tcp::client::ClientTask",
            "transport::real",
            "link::layer/reader/parser",
        ]
    }

    fn stub_components(&self) -> Vec<&'static str> {
        vec![
            "TCP sockets (simulated network through hook H3)",
            "scripted outstations (reference codec)",
            "ReadHandler/AssociationHandler/AssociationInformation (recording stubs)",
            "user threads (simulated tasks awaiting the public async API)",
        ]
    }

    fn generate(&self, rng: &mut Rng, _tier: Tier) -> SmastCase {
        let mut cfg = MasterCfg::basic();
        cfg.close_mode = rng.bool();
        cfg.reconnect_ms = 100;
        cfg.connect_min_ms = 100;
        let nassoc = *rng.pick(&[1usize, 1, 2, 2, 3, 3, 4]);
        cfg.assocs = (0..nassoc)
            .map(|k| {
                let mut a = AssocCfg::quiet(1024 + k as u16);
                a.response_timeout_ms = *rng.pick(&[500u64, 1000, 2000]);
                a.keep_alive_ms = *rng.pick(&[None, None, Some(3000u64), Some(10_000)]);
                a
            })
            .collect();
        let mut script = vec![];
        let mut npolls = 0usize;
        let add_polls = |rng: &mut Rng, script: &mut Vec<MOp>, npolls: &mut usize| {
            for k in 0..nassoc {
                let n = *rng.pick(&[0usize, 0, 1, 1, 2, 3]);
                let mut masks = vec![1u8, 2, 4, 3, 5, 6, 7];
                for _ in 0..n {
                    let i = rng.urange(0, masks.len() - 1);
                    let m = masks.remove(i);
                    script.push(MOp::AddPoll {
                        assoc: k,
                        classes: m,
                        // (now and then a poll that only ever runs when demanded: the largest period there is)
                        period_ms: if rng.chance(1, 10) { u64::MAX } else { *rng.pick(&[100u64, 500, 1000, 3000, 7000]) },
                    });
                    *npolls += 1;
                }
            }
        };
        if rng.bool() {
            add_polls(rng, &mut script, &mut npolls);
            script.push(MOp::Enable);
        } else {
            script.push(MOp::Enable);
            script.push(MOp::Sleep(rng.range(0, 500)));
            add_polls(rng, &mut script, &mut npolls);
        }
        let mut tag = 100u16;
        let rounds = rng.urange(2, 8);
        for _ in 0..rounds {
            match rng.below(10) {
                0..=3 => {
                    // a burst of user requests, possibly to several associations
                    let n = *rng.pick(&[1usize, 1, 2, 3, 5]);
                    for _ in 0..n {
                        tag += 1;
                        script.push(MOp::User {
                            assoc: rng.urange(0, nassoc - 1),
                            kind: tagged_command(tag, rng.chance(1, 3)),
                        });
                    }
                }
                4 | 5 => {
                    let assoc = rng.urange(0, nassoc - 1);
                    let n = rng.urange(1, 4);
                    let replies = (0..n)
                        .map(|_| match rng.below(4) {
                            0 => Reply::Silent,
                            1 => Reply::Late(rng.range(1, 400)),
                            2 => Reply::Late(rng.range(400, 2500)),
                            _ => Reply::Faithful,
                        })
                        .collect();
                    script.push(MOp::Replies { assoc, replies });
                }
                6 => {
                    if npolls > 0 {
                        script.push(MOp::DemandPoll(rng.urange(0, npolls - 1)));
                    }
                }
                7 => {
                    if npolls > 0 && rng.chance(1, 3) {
                        script.push(MOp::RemovePoll(rng.urange(0, npolls - 1)));
                        npolls -= 1;
                    } else {
                        script.push(MOp::AnswerLinkStatus {
                            assoc: rng.urange(0, nassoc - 1),
                            on: rng.bool(),
                        });
                    }
                }
                8 => {
                    if rng.chance(1, 2) {
                        script.push(MOp::Disable);
                        script.push(MOp::Sleep(rng.range(0, 3000)));
                        script.push(MOp::Enable);
                    } else {
                        script.push(MOp::Cut { eof: rng.bool() });
                    }
                }
                _ => script.push(MOp::Poke),
            }
            script.push(MOp::Sleep(match rng.below(5) {
                0 => 0,
                1 => rng.range(1, 100),
                2 => rng.range(1, 1500),
                3 => rng.range(1, 8000),
                _ => 12_000,
            }));
        }
        crate::verif::smast::sprinkle_split_replies(rng, &mut script);
        SmastCase {
            cfg,
            chunk: rng.below(5) as u8,
            chunk_seed: rng.next_u64(),
            latency: if rng.chance(1, 2) {
                (rng.below(30), rng.below(30))
            } else {
                (0, 0)
            },
            script,
            tail_ms: 20_000,
        }
    }

    fn shrink(&self, case: &SmastCase) -> Vec<SmastCase> {
        smast::shrink_case(case)
    }

    fn execute(&self, case: &SmastCase, log: bool) -> Outcome {
        smast::execute("C19", case, log, analyse)
    }
}

#[derive(Clone, Debug, PartialEq)]
enum Class {
    User(u16),
    Poll(u8),
    Other(String),
    Unknown,
}

#[derive(Clone, Debug)]
struct TaskRec {
    assoc: u16,
    class: Class,
    start_t: u64,
    end_t: Option<u64>,
}

#[derive(Clone, Debug)]
struct PollRec {
    assoc: u16,
    classes: u8,
    period: u64,
    /// not before this time (None while it has never been scheduled under this connection state)
    not_before: u64,
    demanded_at: Option<u64>,
    /// demanded while this very poll was running: the run in progress may count as the demanded one, or another may follow at once
    demand_during_run: bool,
    removed: bool,
    running: bool,
    runs: u32,
    /// is the due time known? (not after a poll of this association ran whose request never reached the outstation)
    known: bool,
}

#[derive(Clone, Debug)]
struct UserRec {
    tag: u16,
    assoc: u16,
    submit_t: u64,
    started: Option<u64>,
    done: Option<u64>,
}

pub fn analyse(
    case: &SmastCase,
    run: &MastRun,
) -> (Option<Violation>, bool, u64, Vec<(String, u64)>) {
    let hist = master_time_history(case, run);
    let mut counters: BTreeMap<String, u64> = BTreeMap::new();
    let mut bump = |k: &str, n: u64| *counters.entry(k.to_string()).or_insert(0) += n;
    let mut violation: Option<Violation> = None;
    let mut nontrivial = false;
    let mut fp = 0u64;
    macro_rules! fail {
        ($rule:expr, $key:expr, $detail:expr) => {
            if violation.is_none() {
                violation = Some(Violation::new($rule, $key, $detail));
            }
        };
    }
    let keep_alive_of = |addr: u16| {
        case.cfg
            .assocs
            .iter()
            .find(|a| a.address == addr)
            .and_then(|a| a.keep_alive_ms)
    };

    // user requests by tag
    let mut users: Vec<UserRec> = Vec::new();
    let mut user_by_id: BTreeMap<u64, usize> = BTreeMap::new();
    // polls in the order they were added
    let mut polls: Vec<PollRec> = Vec::new();
    let mut tasks: Vec<TaskRec> = Vec::new();
    // the task currently running on the channel
    let mut running: Option<usize> = None;
    let mut connected = false;
    // last time anything happened on the channel (task start/end, connect, message): idle since then
    let mut last_event_t = 0u64;
    // per association: time of the last frame received from it (link activity), for the keep-alive rule
    let mut last_link_activity: BTreeMap<u16, u64> =
        case.cfg.assocs.iter().map(|a| (a.address, 0)).collect();
    // service order for the turn-taking rule: (assoc, is_user, start time)
    let mut served: Vec<(u16, bool, u64)> = Vec::new();
    // (association, written at, response deadline)
    let mut link_status_outstanding: Option<(u16, u64, u64)> = None;

    for (pos, (_order, h)) in hist.iter().enumerate() {
        if violation.is_some() {
            break;
        }
        match h {
            H::Op { t, index } => {
                if let Some((_, what, addr, classes, period)) =
                    run.poll_ops.iter().find(|p| p.0 == *index)
                {
                    match *what {
                        "add" => polls.push(PollRec {
                            assoc: *addr,
                            classes: *classes,
                            period: *period,
                            not_before: t.saturating_add(*period),
                            demanded_at: None,
                            demand_during_run: false,
                            removed: false,
                            running: false,
                            runs: 0,
                            known: true,
                        }),
                        "demand" => {
                            if let Some(p) = polls
                                .iter_mut()
                                .find(|p| !p.removed && p.assoc == *addr && p.classes == *classes)
                            {
                                if p.running {
                                    p.demand_during_run = true;
                                    bump("probe.poll_demanded_during_its_own_run", 1);
                                } else {
                                    p.demanded_at = Some(*t);
                                }
                            }
                        }
                        _ => {
                            if let Some(p) = polls
                                .iter_mut()
                                .find(|p| !p.removed && p.assoc == *addr && p.classes == *classes)
                            {
                                p.removed = true;
                            }
                        }
                    }
                }
                last_event_t = *t;
            }
            H::UserRequest { t, assoc, id, .. } => {
                if let Some((_, _, UserKind::Command { headers, .. })) =
                    run.user_kinds.iter().find(|u| u.0 == *id)
                {
                    let tag = headers[0][0].1;
                    user_by_id.insert(*id, users.len());
                    users.push(UserRec {
                        tag,
                        assoc: *assoc,
                        submit_t: *t,
                        started: None,
                        done: None,
                    });
                }
                last_event_t = *t;
            }
            H::UserDone { t, id, .. } => {
                if let Some(i) = user_by_id.get(id) {
                    users[*i].done = Some(*t);
                }
            }
            H::Client { t, state } => {
                connected = state == "Connected";
                last_event_t = *t;
                if !connected {
                    running = None;
                    link_status_outstanding = None;
                    for p in polls.iter_mut() {
                        p.running = false;
                    }
                }
            }
            H::TaskStart { t, assoc, task, .. } => {
                // S1: one request at a time on the channel
                if let Some(r) = running {
                    let other = &tasks[r];
                    fail!(
                        "C19/two-requests-outstanding",
                        "",
                        format!("{} ms: task {} started for {} while the task {:?} started at {} ms for {} had not ended", t, task, assoc, other.class, other.start_t, other.assoc)
                    );
                }
                if let Some((a, w, deadline)) = link_status_outstanding {
                    if *t < deadline {
                        fail!("C19/two-requests-outstanding", "link-status", format!("{} ms: task {} started for {} while the link status request written to {} at {} ms was unanswered and had not timed out", t, task, assoc, a, w));
                    }
                    link_status_outstanding = None;
                }
                let class = match task.as_str() {
                    "Command" => Class::Unknown,
                    "PeriodicPoll" => Class::Unknown,
                    other => Class::Other(other.to_string()),
                };
                // S3: user requests go ahead of everything else, on whichever association they wait
                if task != "Command" {
                    if let Some(u) = users
                        .iter()
                        .find(|u| u.submit_t < *t && u.started.is_none() && u.done.is_none())
                    {
                        fail!(
                            "C19/poll-ahead-of-user-request",
                            task.clone(),
                            format!("{} ms: {} started for {} although the user request {} submitted to {} at {} ms was still waiting", t, task, assoc, u.tag, u.assoc, u.submit_t)
                        );
                    }
                }
                running = Some(tasks.len());
                tasks.push(TaskRec {
                    assoc: *assoc,
                    class,
                    start_t: *t,
                    end_t: None,
                });
                last_event_t = *t;
                let _ = pos;
            }
            H::Request { t, dest, bytes, .. } => {
                let written = t.saturating_sub(case.latency.0);
                let Some(r) = running else { continue };
                if tasks[r].assoc != *dest || tasks[r].class != Class::Unknown {
                    continue;
                }
                if let Some(tag) = tag_of_request(bytes) {
                    tasks[r].class = Class::User(tag);
                    let start_t = tasks[r].start_t;
                    // S2: submission order per association
                    if let Some(i) = users.iter().position(|u| u.tag == tag) {
                        let assoc = users[i].assoc;
                        if let Some(earlier) = users[..i]
                            .iter()
                            .find(|u| u.assoc == assoc && u.started.is_none() && u.done.is_none())
                        {
                            fail!(
                                "C19/user-requests-out-of-order",
                                "",
                                format!("{} ms: user request {} for {} was sent although request {} submitted earlier ({} ms) to the same association was still waiting", start_t, tag, assoc, earlier.tag, earlier.submit_t)
                            );
                        }
                        users[i].started = Some(start_t);
                    }
                    // S6: turn taking - the same association twice in a row while a user request of another one waited all along
                    let this = tasks[r].assoc;
                    if let Some(prev) = served.last() {
                        if prev.0 == this {
                            if let Some(w) = users.iter().find(|u| {
                                u.assoc != this
                                    && u.submit_t < prev.2
                                    && u.started.is_none()
                                    && u.done.is_none()
                            }) {
                                fail!(
                                    "C19/association-served-twice-while-another-waits",
                                    "user",
                                    format!("{} ms: {} was served twice in a row (previous turn at {} ms) while request {} for {} had been waiting since {} ms", start_t, this, prev.2, w.tag, w.assoc, w.submit_t)
                                );
                            }
                        } else {
                            nontrivial = true;
                        }
                    }
                    served.push((this, true, start_t));
                    fp = mix(&[fp, 1, this as u64]);
                } else if let Some(mask) = classes_of_read(bytes) {
                    tasks[r].class = Class::Poll(mask);
                    let start_t = tasks[r].start_t;
                    let this = tasks[r].assoc;
                    let _ = written;
                    match polls
                        .iter()
                        .position(|p| !p.removed && p.assoc == this && p.classes == mask)
                    {
                        None => {
                            // a removed poll may still run once if it was picked before the removal was processed
                            let recently_removed = polls
                                .iter()
                                .any(|p| p.removed && p.assoc == this && p.classes == mask);
                            if !recently_removed {
                                fail!("C19/poll-nobody-asked-for", format!("{:#x}", mask), format!("{} ms: a poll of classes {:#x} ran for {} but no such poll is configured", start_t, mask, this));
                            }
                        }
                        Some(i) => {
                            // S4: no earlier than one period after the previous completion, unless demanded
                            let demanded = polls[i].demanded_at.is_some() || polls[i].demand_during_run;
                            if polls[i].known && start_t < polls[i].not_before && !demanded {
                                fail!(
                                    "C19/poll-earlier-than-its-period",
                                    "",
                                    format!(
                                        "{} ms: the poll of classes {:#x} for {} (period {} ms) started although it was not due before {} ms and had not been demanded",
                                        start_t, mask, this, polls[i].period, polls[i].not_before
                                    )
                                );
                            }
                            // S5: not starved - when the channel had been idle since it became due, it starts on time
                            let due = polls[i]
                                .demanded_at
                                .map(|d| d.min(polls[i].not_before))
                                .unwrap_or(polls[i].not_before);
                            // ("not starved": the property sets no deadline; a second on an idle channel is far beyond any
                            // scheduling slack)
                            if polls[i].known
                                && start_t > due.saturating_add(1000)
                                && has_idle_gap(&hist[..pos], due, start_t, 1000, case.latency.0)
                            {
                                fail!(
                                    "C19/poll-late-on-idle-channel",
                                    "",
                                    format!("{} ms: the poll of classes {:#x} for {} (period {} ms) was due at {} ms and nothing else was going on, yet it started only now", start_t, mask, this, polls[i].period, due)
                                );
                            }
                            if users
                                .iter()
                                .any(|u| u.started.is_none() && u.done.is_none())
                            {
                                nontrivial = true;
                            }
                            polls[i].demanded_at = None;
                            polls[i].demand_during_run = false;
                            polls[i].running = true;
                            polls[i].runs += 1;
                            bump("probe.poll_runs", 1);
                        }
                    }
                    // S6 for polls: the same association twice in a row while a poll of another association was due all along
                    if let Some(prev) = served.last() {
                        if prev.0 == this {
                            if let Some(w) = polls.iter().find(|p| {
                                !p.removed
                                    && !p.running
                                    && p.known
                                    && p.assoc != this
                                    && p.not_before < prev.2
                                    && p.runs > 0
                            }) {
                                // (a poll that has run at least once under this rule: its due time is known exactly)
                                fail!(
                                    "C19/association-served-twice-while-another-waits",
                                    "poll",
                                    format!("{} ms: {} was served twice in a row (previous turn at {} ms) while the poll {:#x} of {} had been due since {} ms", start_t, this, prev.2, w.classes, w.assoc, w.not_before)
                                );
                            }
                        } else {
                            nontrivial = true;
                        }
                    }
                    served.push((this, false, start_t));
                    fp = mix(&[fp, 2, this as u64, mask as u64]);
                }
            }
            H::TaskSuccess { t, assoc, .. } | H::TaskFail { t, assoc, .. } => {
                if let Some(r) = running {
                    if tasks[r].assoc == *assoc {
                        tasks[r].end_t = Some(*t);
                        if let Class::Poll(mask) = tasks[r].class {
                            if let Some(p) = polls
                                .iter_mut()
                                .find(|p| p.running && p.assoc == *assoc && p.classes == mask)
                            {
                                p.running = false;
                                p.not_before = t.saturating_add(p.period);
                                p.known = true;
                            }
                        } else if tasks[r].class == Class::Unknown {
                            // a poll (or command) whose request never reached the outstation: which poll it was is unknown
                            for p in polls.iter_mut().filter(|p| p.assoc == *assoc) {
                                p.known = false;
                            }
                        }
                        running = None;
                    }
                }
                last_event_t = *t;
            }
            H::MasterRx { t, src, .. } => {
                last_link_activity.insert(*src, *t);
                // a fragment arriving during a link status check ends it (with an error)
                link_status_outstanding = None;
            }
            H::LinkRx { t, ctrl, dest, .. } => {
                // REQUEST_LINK_STATUS written by the master
                if ctrl & 0x4F == 0x49 {
                    let written = t.saturating_sub(case.latency.0);
                    bump("probe.link_status_requests", 1);
                    // a user-requested link check? (C19 scripts never ask for one)
                    match keep_alive_of(*dest) {
                        None => fail!("C19/keep-alive-not-configured", "", format!("{} ms: link status request to {} which has no keep-alive configured", written, dest)),
                        Some(ka) => {
                            let since = last_link_activity.get(dest).copied().unwrap_or(0);
                            if written < since + ka {
                                fail!(
                                    "C19/keep-alive-before-silence-elapsed",
                                    "",
                                    format!("{} ms: link status request to {} although the last frame from it arrived at {} ms and the keep-alive timeout is {} ms", written, dest, since, ka)
                                );
                            }
                        }
                    }
                    if let Some(r) = running {
                        fail!(
                            "C19/two-requests-outstanding",
                            "link-status",
                            format!("{} ms: link status request to {} while the task {:?} for {} was outstanding", written, dest, tasks[r].class, tasks[r].assoc)
                        );
                    }
                    let timeout = case
                        .cfg
                        .assocs
                        .iter()
                        .find(|a| a.address == *dest)
                        .map(|a| a.response_timeout_ms)
                        .unwrap_or(1000);
                    if let Some((a, w, deadline)) = link_status_outstanding {
                        if written < deadline {
                            fail!(
                                "C19/two-requests-outstanding",
                                "link-status-twice",
                                format!("{} ms: link status request to {} while the one written to {} at {} ms was unanswered and had not timed out", written, dest, a, w)
                            );
                        }
                    }
                    link_status_outstanding = Some((*dest, written, written + timeout));
                }
            }
            H::MasterLinkRx { t, src, response } => {
                // a link-layer frame is link activity of its sender; a LINK_STATUS from the outstation that was asked ends the check
                last_link_activity.insert(*src, *t);
                if *response && matches!(link_status_outstanding, Some((a, _, _)) if a == *src) {
                    link_status_outstanding = None;
                }
            }
            _ => {}
        }
    }
    let _ = last_event_t;
    // S9: a user request is not left waiting through a stretch in which the connected channel has nothing to do ("executed ...
    // ahead of periodic polls" presupposes that it is executed when nothing at all competes with it): a lost wake-up shows here
    for u in &users {
        let until = match (u.started, u.done) {
            (Some(s), _) => s,
            (None, Some(d)) => d,
            (None, None) => run.end_ms,
        };
        if until > u.submit_t + 1000 {
            bump("probe.user_request_waited_over_a_second", 1);
            if has_idle_gap(&hist, u.submit_t, until, 1000, case.latency.0) {
                fail!(
                    "C19/user-request-left-waiting-on-idle-channel",
                    "",
                    format!(
                        "the user request {} submitted to {} at {} ms was not started before {} ms although the channel was connected and had nothing to do for a second or more in between",
                        u.tag, u.assoc, u.submit_t, until
                    )
                );
            }
        }
    }
    // S1 on the wire, independent of the master's own task callbacks: between a request and the arrival of something that
    // answers it (or its response timeout, or a disturbance of the connection) no second request is written
    {
        let timeout_of = |addr: u16| {
            case.cfg
                .assocs
                .iter()
                .find(|a| a.address == addr)
                .map(|a| a.response_timeout_ms)
                .unwrap_or(1000)
        };
        // (order of the arrival record, written at, world-wide order of the write, destination, session)
        let mut reqs: Vec<(u64, u64, u64, u16, u32)> = hist
            .iter()
            .filter_map(|(order, h)| match h {
                H::Request { t, worder, dest, session, .. } => {
                    Some((*order, t.saturating_sub(case.latency.0), *worder, *dest, *session))
                }
                _ => None,
            })
            .collect();
        reqs.sort_by_key(|r| r.2);
        // when something that answers a request (by the order number of its arrival record) first reached the master
        let mut answered_at: BTreeMap<u64, u64> = BTreeMap::new();
        let mut disturbed_at: Vec<u64> = Vec::new();
        for (_, h) in hist.iter() {
            match h {
                H::PeerTx { t, answers: Some(a), .. } => {
                    let e = answered_at.entry(*a).or_insert(*t);
                    *e = (*e).min(*t);
                }
                H::Client { t, .. } | H::Closed { t, .. } | H::Connected { t, .. } => disturbed_at.push(*t),
                H::Op { t, index } => {
                    if matches!(
                        case.script.get(*index),
                        Some(MOp::Cut { .. }) | Some(MOp::Disable) | Some(MOp::Enable) | Some(MOp::RemoveAssoc(_)) | Some(MOp::KillMaster) | Some(MOp::NetPlan(_))
                    ) {
                        disturbed_at.push(*t);
                    }
                }
                _ => {}
            }
        }
        for w in reqs.windows(2) {
            let (first, second) = (w[0], w[1]);
            if first.4 != second.4 || second.1 >= first.1 + timeout_of(first.3) {
                continue;
            }
            let answered = answered_at.get(&first.0).map(|t| *t <= second.1).unwrap_or(false);
            let excused = answered || disturbed_at.iter().any(|t| *t >= first.1 && *t <= second.1 + 1);
            bump("probe.consecutive_requests_judged_on_the_wire", 1);
            if !excused {
                fail!(
                    "C19/two-requests-outstanding",
                    "wire",
                    format!(
                        "a request was written to {} at {} ms while the request written to {} at {} ms was unanswered and its response timeout of {} ms had not elapsed",
                        second.3, second.1, first.3, first.1, timeout_of(first.3)
                    )
                );
            }
        }
    }
    // S5 at the end of the run: a poll that has been due for a while on an idle, connected channel has been starved
    if violation.is_none() && connected && running.is_none() {
        for p in &polls {
            let due = p
                .demanded_at
                .map(|d| d.min(p.not_before))
                .unwrap_or(p.not_before);
            if !p.removed
                && !p.running
                && p.known
                && due.saturating_add(1000) < run.end_ms
                && has_idle_gap(&hist, due, run.end_ms, 1000, case.latency.0)
            {
                fail!(
                    "C19/poll-starved",
                    "",
                    format!("the poll of classes {:#x} for {} (period {} ms) has been due since {} ms on an idle channel and had not run by {} ms", p.classes, p.assoc, p.period, due, run.end_ms)
                );
            }
        }
    }

    // S7b: after the configured silence on an idle, connected channel the keep-alive request is actually written
    if violation.is_none() && connected && running.is_none() {
        for a in &case.cfg.assocs {
            let Some(ka) = a.keep_alive_ms else { continue };
            let since = last_link_activity.get(&a.address).copied().unwrap_or(0);
            let due = since + ka;
            if due + 1000 >= run.end_ms {
                continue;
            }
            // anything else that occupied the channel after it became due postpones it legitimately
            let mut busy = false;
            let mut asked = false;
            for (_, h) in &hist {
                match h {
                    H::TaskStart { t, .. }
                    | H::TaskSuccess { t, .. }
                    | H::TaskFail { t, .. }
                    | H::Client { t, .. }
                    | H::Closed { t, .. }
                        if *t + 1 >= due =>
                    {
                        busy = true
                    }
                    H::LinkRx { t, ctrl, dest, .. }
                        if ctrl & 0x4F == 0x49
                            && *dest == a.address
                            && t.saturating_sub(case.latency.0) + 1 >= due =>
                    {
                        asked = true
                    }
                    // a link status check of another association occupies the channel until it is answered or times out
                    H::LinkRx { t, ctrl, dest, .. }
                        if ctrl & 0x4F == 0x49
                            && *dest != a.address
                            && t.saturating_sub(case.latency.0)
                                + case
                                    .cfg
                                    .assocs
                                    .iter()
                                    .find(|x| x.address == *dest)
                                    .map(|x| x.response_timeout_ms)
                                    .unwrap_or(5000)
                                + 1
                                >= due =>
                    {
                        busy = true
                    }
                    _ => {}
                }
            }
            if !busy && !asked {
                bump("probe.keep_alive_liveness_checked", 1);
                fail!(
                    "C19/keep-alive-never-sent",
                    "",
                    format!("nothing has been heard from {} since {} ms (keep-alive timeout {} ms), the channel was idle and connected, yet no link status request was written by {} ms", a.address, since, ka, run.end_ms)
                );
            } else if asked {
                bump("probe.keep_alive_liveness_checked", 1);
            }
        }
    }

    // S8: no busy waiting - the master task is polled a bounded number of times per thing that happened
    let events = hist.len() as u64 + run.master_rx.len() as u64 + 1;
    bump(
        "probe.master_polls_per_event_x100",
        run.master_polls * 100 / events,
    );
    // (measured on the unchanged library: never more than one poll per recorded event plus twenty; the allowance is three
    // per event plus a hundred - a master waking on a fixed short tick instead of its earliest deadline exceeds it)
    if run.master_polls > 3 * events + 100 {
        fail!(
            "C19/busy-waiting",
            "",
            format!("the master task was polled {} times for {} recorded events in {} ms of virtual time", run.master_polls, events, run.end_ms)
        );
    }
    let out: Vec<(String, u64)> = counters.into_iter().collect();
    (violation, nontrivial, fp, out)
}

/// nothing occupied or disturbed the channel from `from` on (within this prefix of the history), and it was connected
/// Was there, between `from` and `to`, a stretch of at least `min_len` ms in which the channel was connected and had nothing to do
/// (no task running, no link status check in progress)? "Starved while the channel is otherwise idle" is judged against such a
/// stretch: what else ran before or after it does not excuse leaving a due poll waiting through it.
fn has_idle_gap(hist: &[(u64, H)], from: u64, to: u64, min_len: u64, latency: u64) -> bool {
    let mut connected = false;
    let mut open = 0i32;
    // the channel is quiet from this instant on (None: busy or not connected)
    let mut quiet_since: Option<u64> = None;
    let mut link_busy_until = 0u64;
    let long_enough = |q: Option<u64>, until: u64| -> bool {
        match q {
            Some(q) => {
                let a = q.max(from);
                let b = until.min(to);
                b >= a + min_len
            }
            None => false,
        }
    };
    for (_, h) in hist {
        match h {
            H::Client { t, state } => {
                if long_enough(quiet_since, *t) {
                    return true;
                }
                connected = state == "Connected";
                open = 0;
                quiet_since = if connected { Some((*t).max(link_busy_until)) } else { None };
            }
            H::TaskStart { t, .. } => {
                if long_enough(quiet_since, *t) {
                    return true;
                }
                open += 1;
                quiet_since = None;
            }
            H::TaskSuccess { t, .. } | H::TaskFail { t, .. } => {
                open -= 1;
                if open <= 0 && connected {
                    quiet_since = Some((*t).max(link_busy_until));
                }
            }
            H::LinkRx { t, .. } | H::Closed { t, .. } => {
                // (link status requests occupy the channel as well; three seconds cover every response timeout generated)
                let written = t.saturating_sub(latency);
                if long_enough(quiet_since, written) {
                    return true;
                }
                link_busy_until = link_busy_until.max(*t + 3000);
                if let Some(q) = quiet_since {
                    quiet_since = Some(q.max(link_busy_until));
                }
            }
            _ => {}
        }
    }
    connected && open <= 0 && long_enough(quiet_since, to)
}

#[allow(dead_code)]
fn idle_since(hist: &[(u64, H)], from: u64, _to: u64) -> bool {
    let mut connected = false;
    let mut open = 0i32;
    for (_, h) in hist {
        match h {
            H::Client { t, state } => {
                connected = state == "Connected";
                open = 0;
                if *t >= from {
                    return false;
                }
            }
            H::TaskStart { t, .. } => {
                open += 1;
                if *t >= from {
                    return false;
                }
            }
            H::TaskSuccess { t, .. } | H::TaskFail { t, .. } => {
                open -= 1;
                if *t >= from {
                    return false;
                }
            }
            H::LinkRx { t, .. } | H::Closed { t, .. } => {
                // (link status requests occupy the channel as well)
                if *t + 3000 >= from {
                    return false;
                }
            }
            _ => {}
        }
    }
    connected && open <= 0
}
