//! C17 - master start-up order, restart handling, unsolicited gating and back-off of automatic tasks (engine S-MAST).

use crate::verif::models::mast_hist::{master_time_history, H};
use crate::verif::nodes::master::{AssocCfg, MasterCfg};
use crate::verif::refcodec::app::{self as refapp};
use crate::verif::rng::{mix, Rng};
use crate::verif::runner::{erase, Codec, Outcome, Property, Scenario, Tier, Violation};
use crate::verif::smast::{self, MOp, MastRun, Reply, SmastCase, UserKind};
use std::collections::{BTreeMap, BTreeSet};

pub struct StartupScenario;

pub fn property<C: Codec>() -> Property {
    Property {
        id: "C17",
        scenarios: vec![erase::<C, _>(StartupScenario)],
    }
}

fn gen_assoc(rng: &mut Rng, address: u16) -> AssocCfg {
    let mut a = AssocCfg::quiet(address);
    a.response_timeout_ms = *rng.pick(&[500u64, 1000, 2000]);
    a.disable_unsol = *rng.pick(&[0u8, 7, 7, 3]);
    a.enable_unsol = *rng.pick(&[0u8, 7, 7, 1]);
    a.startup_integrity = *rng.pick(&[0u8, 0x0F, 0x0F, 0x0F, 0x08]);
    a.auto_time_sync = *rng.pick(&[0u8, 0, 1, 2]);
    a.retry_min_ms = *rng.pick(&[500u64, 1000]);
    a.retry_max_ms = *rng.pick(&[1000u64, 3000, 5000, 10_000]);
    a.integrity_on_overflow = rng.bool();
    a.event_scan = *rng.pick(&[0u8, 0, 7, 1]);
    a
}

impl Scenario for StartupScenario {
    type Case = SmastCase;

    fn name(&self) -> &'static str {
        "startup"
    }

    fn runs(&self, tier: Tier) -> u64 {
        match tier {
            Tier::Quick => 30_000,
            Tier::Thorough => 800_000,
        }
    }

    fn rule(&self) -> String {
        "the real master against a scripted outstation: association configurations over each automatic task on/off, class sets, time-sync procedure and \
         retry strategy (minimum 0.5/1 s, maximum 1/3/5/10 s); the outstation raises RESTART / NEED_TIME / event-buffer overflow / events-available in \
         any response or unsolicited message (persistently or in one response only), fails any automatic task any number of times in a row (silence, IIN2 \
         rejection, unparsable reply), sends data-bearing and empty unsolicited responses at every point of the start-up sequence, and the connection is \
         cut / the channel disabled and re-enabled at any step; periodic polls and user requests run alongside; non-trivial = an indication, failure or \
         unsolicited response arrived before the start-up sequence had finished; distinct = hash of (configuration class, sequence of task starts and \
         outcomes, gate verdicts)"
            .to_string()
    }

    fn real_components(&self) -> Vec<&'static str> {
        vec![
            "master::association (auto task states, unsolicited gate, restart handling)",
            "master::tasks::{auto,time,read}",
            "master::task::MasterTask / MasterSession",
            "app::retry::ExponentialBackOff",
            "tcp::client::ClientTask",
            "transport::real",
            "link::layer/reader/parser",
            "app::parse",
        ]
    }

    fn stub_components(&self) -> Vec<&'static str> {
        vec![
            "TCP sockets (simulated network through hook H3)",
            "scripted outstation (reference codec)",
            "ReadHandler/AssociationHandler/AssociationInformation (recording stubs)",
        ]
    }

    fn generate(&self, rng: &mut Rng, _tier: Tier) -> SmastCase {
        let mut cfg = MasterCfg::basic();
        cfg.close_mode = rng.bool();
        cfg.decode_all = rng.chance(1, 16);
        cfg.reconnect_ms = *rng.pick(&[100u64, 1000]);
        cfg.connect_min_ms = cfg.reconnect_ms;
        cfg.assocs = vec![gen_assoc(rng, 1024)];
        if rng.chance(1, 4) {
            cfg.assocs.push(gen_assoc(rng, 1025));
        }
        let nassoc = cfg.assocs.len();
        let mut script = Vec::new();
        // what the outstation is like before the first connection
        for k in 0..nassoc {
            if rng.chance(1, 2) {
                script.push(MOp::SetIin {
                    assoc: k,
                    iin1: *rng.pick(&[0x80u8, 0x90, 0x10, 0x82, 0x0E]),
                    iin2: if rng.chance(1, 6) { 0x08 } else { 0 },
                });
            }
        }
        if rng.chance(1, 3) {
            script.push(MOp::AddPoll {
                assoc: rng.urange(0, nassoc - 1),
                classes: 0x07,
                period_ms: *rng.pick(&[500u64, 2000, 7000]),
            });
        }
        let gen_failures = |rng: &mut Rng| -> Vec<Reply> {
            let n = *rng.pick(&[0usize, 1, 1, 2, 3, 5, 7]);
            let mut v = Vec::new();
            // some faithful answers first so that the failure lands on a later step of the sequence
            for _ in 0..rng.urange(0, 4) {
                v.push(Reply::Faithful);
            }
            for _ in 0..n {
                v.push(match rng.below(10) {
                    0..=4 => Reply::Silent,
                    5 => Reply::Iin(0, *rng.pick(&[0x01u8, 0x02, 0x04])),
                    6 => Reply::Objects(vec![1, 2, 0x07]),
                    7 => Reply::Iin(0x80, 0),
                    8 => Reply::Iin(*rng.pick(&[0x10u8, 0x02, 0x0E]), 0),
                    _ => Reply::Iin(0, 0x08),
                });
            }
            v
        };
        // READ responses of several fragments: the integrity poll is complete with its last fragment, not with its first - and
        // now and then the series breaks off (a fragment never comes), so that the poll fails after it was partly answered
        if rng.chance(1, 4) {
            let n = rng.urange(2, 3);
            script.push(MOp::ReadShape {
                assoc: 0,
                fragments: (0..n).map(|_| rng.range(1, 3) as u8).collect(),
            });
            if rng.bool() {
                script.push(MOp::SeriesDev {
                    assoc: 0,
                    at: rng.urange(1, n - 1),
                    dev: smast::SeriesDev::Skip,
                });
            }
        }
        let first = gen_failures(rng);
        if !first.is_empty() {
            script.push(MOp::Replies {
                assoc: 0,
                replies: first,
            });
        }
        script.push(MOp::Enable);
        let rounds = rng.urange(1, 6);
        for _ in 0..rounds {
            let assoc = rng.urange(0, nassoc - 1);
            script.push(MOp::Sleep(match rng.below(5) {
                0 => 0,
                1 => rng.range(1, 50),
                2 => rng.range(1, 3000),
                3 => rng.range(1, 12_000),
                _ => 25_000,
            }));
            match rng.below(12) {
                0 | 1 => script.push(MOp::Unsol {
                    assoc,
                    seq: rng.below(16) as u8,
                    data: true,
                    con: rng.chance(3, 4),
                }),
                2 => script.push(MOp::Unsol {
                    assoc,
                    seq: rng.below(16) as u8,
                    data: false,
                    con: rng.chance(3, 4),
                }),
                3 => {
                    // the outstation restarts: null unsolicited response with the restart indication
                    script.push(MOp::SetIin {
                        assoc,
                        iin1: 0x80,
                        iin2: 0,
                    });
                    script.push(MOp::Unsol {
                        assoc,
                        seq: rng.below(16) as u8,
                        data: false,
                        con: true,
                    });
                    if rng.bool() {
                        script.push(MOp::Unsol {
                            assoc,
                            seq: rng.below(16) as u8,
                            data: true,
                            con: true,
                        });
                    }
                }
                4 => {
                    // an indication in one unsolicited response only
                    let (a, b) =
                        *rng.pick(&[(0x10u8, 0u8), (0, 0x08), (0x02, 0), (0x0E, 0), (0x80, 0)]);
                    script.push(MOp::SetIin {
                        assoc,
                        iin1: a,
                        iin2: b,
                    });
                    script.push(MOp::Unsol {
                        assoc,
                        seq: rng.below(16) as u8,
                        data: rng.bool(),
                        con: rng.bool(),
                    });
                    if a != 0x80 {
                        script.push(MOp::SetIin {
                            assoc,
                            iin1: 0,
                            iin2: 0,
                        });
                    }
                }
                5 => script.push(MOp::Cut { eof: rng.bool() }),
                6 => {
                    script.push(MOp::Disable);
                    script.push(MOp::Sleep(rng.range(0, 2000)));
                    script.push(MOp::Enable);
                }
                7 | 8 => {
                    let f = gen_failures(rng);
                    if !f.is_empty() {
                        script.push(MOp::Replies { assoc, replies: f });
                    }
                    if rng.bool() {
                        script.push(MOp::SetIin {
                            assoc,
                            iin1: *rng.pick(&[0x80u8, 0x10, 0x90]),
                            iin2: 0,
                        });
                    }
                }
                9 => script.push(MOp::User {
                    assoc,
                    kind: UserKind::ReadClasses(0x0F),
                }),
                10 => script.push(MOp::DemandPoll(0)),
                _ => {
                    if rng.bool() {
                        script.push(MOp::SetIin {
                            assoc,
                            iin1: *rng.pick(&[0u8, 0x02, 0x10]),
                            iin2: *rng.pick(&[0u8, 0, 0x08]),
                        });
                    } else {
                        // indications in quick succession: overflow (integrity poll scheduled, perhaps failing), then a restart,
                        // then data - the gate has to be closed whatever state the integrity task is in
                        script.push(MOp::Replies {
                            assoc,
                            replies: vec![if rng.bool() {
                                Reply::Silent
                            } else {
                                Reply::Late(rng.range(100, 900))
                            }],
                        });
                        script.push(MOp::SetIin {
                            assoc,
                            iin1: 0,
                            iin2: 0x08,
                        });
                        script.push(MOp::Unsol {
                            assoc,
                            seq: rng.below(16) as u8,
                            data: false,
                            con: rng.bool(),
                        });
                        script.push(MOp::Sleep(rng.range(0, 300)));
                        script.push(MOp::SetIin {
                            assoc,
                            iin1: 0x80,
                            iin2: 0,
                        });
                        script.push(MOp::Unsol {
                            assoc,
                            seq: rng.below(16) as u8,
                            data: false,
                            con: rng.bool(),
                        });
                        script.push(MOp::Sleep(rng.range(0, 50)));
                        script.push(MOp::Unsol {
                            assoc,
                            seq: rng.below(16) as u8,
                            data: true,
                            con: true,
                        });
                    }
                }
            }
        }
        crate::verif::smast::sprinkle_split_replies(rng, &mut script);
        SmastCase {
            cfg,
            chunk: rng.below(5) as u8,
            chunk_seed: rng.next_u64(),
            latency: if rng.chance(1, 3) {
                (rng.below(30), rng.below(30))
            } else {
                (0, 0)
            },
            script,
            tail_ms: 90_000,
        }
    }

    fn shrink(&self, case: &SmastCase) -> Vec<SmastCase> {
        smast::shrink_case(case)
    }

    fn execute(&self, case: &SmastCase, log: bool) -> Outcome {
        smast::execute("C17", case, log, analyse)
    }
}

#[derive(Clone, Copy, Debug, PartialEq, Eq, PartialOrd, Ord)]
enum Kind {
    // in priority order
    Clear,
    Disable,
    Integrity,
    TimeSync,
    Enable,
    EventScan,
}

fn kind_of(task: &str) -> Option<Kind> {
    Some(match task {
        "ClearRestartBit" => Kind::Clear,
        "DisableUnsolicited" => Kind::Disable,
        "StartupIntegrity" => Kind::Integrity,
        "TimeSync" => Kind::TimeSync,
        "EnableUnsolicited" => Kind::Enable,
        "AutoEventScan" => Kind::EventScan,
        _ => return None,
    })
}

struct Model {
    cfg: AssocCfg,
    pending: BTreeSet<Kind>,
    /// consecutive failures and the time of the last one
    fails: BTreeMap<Kind, (u32, u64)>,
    /// enable/disable tasks the outstation rejected (IIN2): the master need not retry them, but "a failing automatic task is
    /// retried" allows it to - after the back-off that follows the given number of failures at the given time
    optional: BTreeMap<Kind, (u32, u64)>,
    /// the start-up sequence of this connection has been completed once (nothing was outstanding at some point)
    started_up: bool,
    gate_open: bool,
    events_avail: u8,
    /// running task: (name, kind, current sequence number, time the current request was written, iin processed for it)
    running: Option<(String, Option<Kind>, u8, u64, Option<(u8, u8)>)>,
    /// sequence number of the next fragment of the READ response series being received for the running task (None: the first
    /// fragment is awaited)
    series_next: Option<u8>,
    /// unsolicited responses in arrival order: (seq, must be accepted, CON, arrival time)
    unsol_expected: Vec<(u8, bool, bool, u64)>,
    unsol_accepted: Vec<u8>,
    /// sequence numbers of the unsolicited fragments handed to the ReadHandler (begin_fragment with read type Unsolicited)
    unsol_to_handler: Vec<u8>,
    unsol_confirmed: Vec<u8>,
    /// the unsolicited fragment accepted last on this connection (a byte-identical one after it is a repeat)
    last_accepted_unsol: Option<Vec<u8>>,
}

impl Model {
    fn new(cfg: &AssocCfg) -> Self {
        let mut m = Model {
            cfg: cfg.clone(),
            pending: BTreeSet::new(),
            fails: BTreeMap::new(),
            optional: BTreeMap::new(),
            started_up: false,
            gate_open: false,
            events_avail: 0,
            running: None,
            series_next: None,
            unsol_expected: Vec::new(),
            unsol_accepted: Vec::new(),
            unsol_to_handler: Vec::new(),
            unsol_confirmed: Vec::new(),
            last_accepted_unsol: None,
        };
        m.reset();
        m
    }

    fn reset(&mut self) {
        self.pending = [Kind::Disable, Kind::Integrity, Kind::Enable]
            .into_iter()
            .collect();
        self.fails.clear();
        self.optional.clear();
        self.started_up = false;
        self.gate_open = self.cfg.startup_integrity == 0;
        self.running = None;
        self.last_accepted_unsol = None;
        // events_available survives a session reset in the library; it only matters together with a demanded event scan
    }

    fn relevant(&self, k: Kind) -> bool {
        match k {
            Kind::Clear => true,
            Kind::Disable => self.cfg.disable_unsol != 0,
            Kind::Integrity => self.cfg.startup_integrity != 0,
            Kind::TimeSync => self.cfg.auto_time_sync != 0,
            Kind::Enable => self.cfg.enable_unsol != 0,
            Kind::EventScan => (self.events_avail & self.cfg.event_scan) != 0,
        }
    }

    fn outstanding(&self) -> Vec<Kind> {
        self.pending
            .iter()
            .copied()
            .filter(|k| self.relevant(*k))
            .collect()
    }

    /// IIN of a response or unsolicited message the master processed
    fn observe(&mut self, iin: (u8, u8)) {
        if iin.0 & 0x80 != 0 && !self.pending.contains(&Kind::Clear) {
            self.pending.insert(Kind::Clear);
            self.pending.insert(Kind::Integrity);
            self.pending.insert(Kind::Enable);
            self.optional.remove(&Kind::Enable);
            self.gate_open = self.cfg.startup_integrity == 0;
        }
        if iin.0 & 0x10 != 0 {
            self.pending.insert(Kind::TimeSync);
        }
        if iin.1 & 0x08 != 0 && self.cfg.integrity_on_overflow {
            self.pending.insert(Kind::Integrity);
        }
        self.events_avail = (iin.0 >> 1) & 0x07;
        if self.events_avail & self.cfg.event_scan != 0 {
            self.pending.insert(Kind::EventScan);
        }
    }

    fn back_off(&self, n: u32) -> u64 {
        let mut d = self.cfg.retry_min_ms;
        for _ in 1..n {
            d = (d * 2).min(self.cfg.retry_max_ms);
        }
        d.min(self.cfg.retry_max_ms)
    }
}

pub fn analyse(
    case: &SmastCase,
    run: &MastRun,
) -> (Option<Violation>, bool, u64, Vec<(String, u64)>) {
    let hist = master_time_history(case, run);
    let mut counters: BTreeMap<String, u64> = BTreeMap::new();
    let mut bump = |k: &str| *counters.entry(k.to_string()).or_insert(0) += 1;
    let mut models: BTreeMap<u16, Model> = case
        .cfg
        .assocs
        .iter()
        .map(|a| (a.address, Model::new(a)))
        .collect();
    let mut violation: Option<Violation> = None;
    let mut nontrivial = false;
    let mut fp = 0u64;
    let mut connected = false;
    let mut connected_since = 0u64;
    // time of the last start or end of any task, or (re)connect: the channel was idle since
    let mut last_activity = 0u64;
    let mut any_running = 0usize;
    let mut uncertain = false;
    let mut last_disturbance = 0u64;
    let mut disturbances: Vec<u64> = Vec::new();

    macro_rules! fail {
        ($rule:expr, $key:expr, $detail:expr) => {
            if violation.is_none() {
                violation = Some(Violation::new($rule, $key, $detail));
            }
        };
    }

    for (_pos, (_order, h)) in hist.iter().enumerate() {
        if violation.is_some() || uncertain {
            break;
        }
        match h {
            H::Client { t, state } => {
                if state == "Connected" {
                    connected = true;
                    connected_since = *t;
                    last_activity = *t;
                    any_running = 0;
                    for m in models.values_mut() {
                        m.reset();
                    }
                } else {
                    if connected {
                        last_disturbance = *t;
                    }
                    disturbances.push(*t);
                    connected = false;
                    any_running = 0;
                    for m in models.values_mut() {
                        m.running = None;
                    }
                }
            }
            H::Closed { t, .. } => {
                disturbances.push(*t);
                last_disturbance = *t;
            }
            H::TaskStart {
                t,
                assoc,
                task,
                seq,
                ..
            } => {
                last_activity = *t;
                any_running += 1;
                let Some(m) = models.get_mut(assoc) else {
                    continue;
                };
                let kind = kind_of(task);
                fp = mix(&[fp, 1, kind.map(|k| k as u64 + 1).unwrap_or(0)]);
                let mut optional_retry = false;
                if let Some(k) = kind {
                    if !m.pending.contains(&k) {
                        if let Some(f) = m.optional.remove(&k) {
                            // a retry of a rejected enable/disable: allowed, under the back-off rule
                            m.pending.insert(k);
                            m.fails.insert(k, f);
                            optional_retry = true;
                            bump("probe.rejected_task_retried");
                        }
                    }
                }
                let outstanding = m.outstanding();
                if outstanding.is_empty() {
                    m.started_up = true;
                }
                match kind {
                    Some(k) => {
                        if !outstanding.contains(&k) {
                            fail!(
                                "C17/automatic-task-not-due",
                                format!("{:?}", k),
                                format!("{} ms: {:?} started for {} although nothing called for it (outstanding: {:?})", t, k, assoc, outstanding)
                            );
                        } else if let Some(higher) = outstanding.iter().find(|o| **o < k) {
                            fail!(
                                "C17/automatic-task-out-of-order",
                                format!("{:?}-before-{:?}", k, higher),
                                format!("{} ms: {:?} started for {} while {:?} was still outstanding (outstanding: {:?})", t, k, assoc, higher, outstanding)
                            );
                        }
                        // back-off: the n-th consecutive failure is followed by a retry after min * 2^(n-1), capped at max
                        if let Some((n, tf)) = m.fails.get(&k).copied() {
                            let due = tf + m.back_off(n);
                            bump("probe.retry_after_failure");
                            if n >= 3 {
                                bump("probe.retry_after_three_or_more_failures");
                            }
                            if *t < due {
                                fail!(
                                    "C17/retry-earlier-than-back-off",
                                    format!("{:?} n={}", k, n),
                                    format!("{:?} for {} failed for the {}. time in a row at {} ms (back-off {} ms, min {} max {}) and was retried at {} ms", k, assoc, n, tf, m.back_off(n), m.cfg.retry_min_ms, m.cfg.retry_max_ms, t)
                                );
                            } else if *t > due + (m.back_off(n) / 4).clamp(2, 50)
                                && !optional_retry
                                && k != Kind::EventScan
                                && channel_idle(&hist[.._pos], due)
                            {
                                // (an event scan is only due while the outstation still reports events)
                                // the channel had been idle since before the retry was due, and it still came late
                                fail!(
                                    "C17/retry-later-than-back-off",
                                    format!("{:?} n={}", k, n),
                                    format!("{:?} for {} failed for the {}. time in a row at {} ms (back-off {} ms, min {} max {}) and was retried only at {} ms on an idle channel", k, assoc, n, tf, m.back_off(n), m.cfg.retry_min_ms, m.cfg.retry_max_ms, t)
                                );
                            }
                        }
                    }
                    None => {
                        // the statement orders polls after the start-up sequence (time synchronisation included) and after restart
                        // handling; a time synchronisation or event scan that became due later is not ordered against polls
                        let blocking: Vec<Kind> = outstanding
                            .iter()
                            .copied()
                            .filter(|k| !(m.started_up && matches!(k, Kind::TimeSync | Kind::EventScan)))
                            .collect();
                        if task == "PeriodicPoll" && !outstanding.is_empty() && blocking.is_empty() {
                            bump("probe.poll_while_only_later_obligations_outstanding");
                        }
                        let outstanding = blocking;
                        if task == "PeriodicPoll" && !outstanding.is_empty() {
                            fail!(
                                "C17/poll-before-start-up-complete",
                                format!("{:?}", outstanding[0]),
                                format!("{} ms: a periodic poll started for {} while {:?} were outstanding", t, assoc, outstanding)
                            );
                        }
                    }
                }
                m.running = Some((task.clone(), kind, *seq, *t, None));
                m.series_next = None;
            }
            H::Request { t, dest, seq, .. } => {
                if let Some(m) = models.get_mut(dest) {
                    if let Some(r) = m.running.as_mut() {
                        r.2 = *seq;
                        r.3 = t.saturating_sub(case.latency.0);
                        r.4 = None;
                    }
                    m.series_next = None;
                }
            }
            H::TaskSuccess { t, assoc, task, .. } => {
                last_activity = *t;
                any_running = any_running.saturating_sub(1);
                let Some(m) = models.get_mut(assoc) else {
                    continue;
                };
                let last_iin = m.running.as_ref().and_then(|r| r.4);
                m.running = None;
                if let Some(k) = kind_of(task) {
                    fp = mix(&[fp, 2, k as u64]);
                    let still_restart =
                        k == Kind::Clear && last_iin.map(|i| i.0 & 0x80 != 0).unwrap_or(false);
                    if still_restart {
                        // the outstation did not clear the bit: counts as a failure
                        let n = m.fails.get(&k).map(|f| f.0).unwrap_or(0) + 1;
                        m.fails.insert(k, (n, *t));
                    } else {
                        m.pending.remove(&k);
                        m.fails.remove(&k);
                        if k == Kind::Integrity {
                            m.gate_open = true;
                        }
                    }
                }
            }
            H::TaskFail {
                t,
                assoc,
                task,
                err,
            } => {
                last_activity = *t;
                any_running = any_running.saturating_sub(1);
                let Some(m) = models.get_mut(assoc) else {
                    continue;
                };
                m.running = None;
                if let Some(k) = kind_of(task) {
                    fp = mix(&[fp, 3, k as u64]);
                    nontrivial = true;
                    let rejected = err.contains("RejectedByIin2");
                    // an outstation that rejects enable/disable unsolicited does not support it: not retried
                    let settled = rejected
                        && match k {
                            Kind::Disable | Kind::Enable => true,
                            Kind::Clear => {
                                !iin1_of_error(err).map(|v| v & 0x80 != 0).unwrap_or(true)
                            }
                            _ => false,
                        };
                    if settled {
                        m.pending.remove(&k);
                        let n = m.fails.remove(&k).map(|f| f.0).unwrap_or(0) + 1;
                        if matches!(k, Kind::Disable | Kind::Enable) {
                            m.optional.insert(k, (n, *t));
                        }
                    } else if connected {
                        let n = m.fails.get(&k).map(|f| f.0).unwrap_or(0) + 1;
                        m.fails.insert(k, (n, *t));
                    }
                }
            }
            H::MasterRx { t, src, bytes } => {
                if bytes.len() < 4 || !connected {
                    continue;
                }
                let Some(m) = models.get_mut(src) else {
                    continue;
                };
                let ctrl = refapp::Ctrl::from_u8(bytes[0]);
                let iin = (bytes[2], bytes[3]);
                if bytes[1] == refapp::FUNC_UNSOL_RESPONSE {
                    if !(ctrl.uns && ctrl.fir && ctrl.fin)
                        || refapp::decode_fragment(bytes).is_err()
                    {
                        continue;
                    }
                    // the indications of an unsolicited response count even when its data is held back
                    m.observe(iin);
                    let has_data = bytes.len() > 4;
                    let accept = m.gate_open || !has_data;
                    if !m.outstanding().is_empty() || !m.gate_open {
                        nontrivial = true;
                    }
                    if has_data && !m.gate_open {
                        bump("probe.data_unsolicited_while_gate_closed");
                    }
                    fp = mix(&[fp, 4, accept as u64, has_data as u64]);
                    // an accepted fragment is a repeat (confirmed, not delivered again) only if it equals the one accepted before it;
                    // one that was held back does not count. The expectation travels in bit 4 of the compared key.
                    let mut key = ctrl.seq;
                    if accept {
                        if m.last_accepted_unsol.as_ref() == Some(bytes) {
                            key |= 0x10;
                        }
                        m.last_accepted_unsol = Some(bytes.clone());
                    }
                    m.unsol_expected.push((key, accept, ctrl.con, *t));
                } else if bytes[1] == refapp::FUNC_RESPONSE {
                    let timeout = m.cfg.response_timeout_ms;
                    let Some(r) = m.running.as_mut() else {
                        continue;
                    };
                    // the first fragment carries FIR and the request's number, later ones neither FIR nor a gap; a fragment that is
                    // not the last asks for confirmation (anything else ends the task without its indications being looked at)
                    let first = m.series_next.is_none();
                    let expected_seq = m.series_next.unwrap_or(r.2);
                    if ctrl.uns
                        || ctrl.seq != expected_seq
                        || ctrl.fir != first
                        || (!ctrl.fin && !ctrl.con)
                        || iin.1 & 0x07 != 0
                    {
                        continue;
                    }
                    if r.4.is_some() {
                        // a second copy of the answer: the task is already over or about to be
                        continue;
                    }
                    if ctrl.fin {
                        r.4 = Some(iin);
                    } else {
                        m.series_next = Some((ctrl.seq + 1) & 0x0F);
                        bump("probe.non_final_fragment_of_a_read_series");
                    }
                    if iin.0 & 0x90 != 0 || iin.1 & 0x08 != 0 {
                        nontrivial = true;
                        bump("probe.indication_in_solicited_response");
                    }
                    m.observe(iin);
                }
            }
            H::Begin { assoc, seq, uns: true, .. } => {
                if let Some(m) = models.get_mut(assoc) {
                    m.unsol_to_handler.push(*seq);
                }
            }
            H::Unsolicited { assoc, seq, dup, .. } => {
                if let Some(m) = models.get_mut(assoc) {
                    m.unsol_accepted.push(*seq | if *dup { 0x10 } else { 0 });
                }
            }
            H::Confirm {
                dest,
                seq,
                uns: true,
                ..
            } => {
                if let Some(m) = models.get_mut(dest) {
                    m.unsol_confirmed.push(*seq);
                }
            }
            H::Op { t, index } => {
                if matches!(
                    case.script.get(*index),
                    Some(MOp::Cut { .. }) | Some(MOp::Disable)
                ) {
                    disturbances.push(*t);
                    last_disturbance = *t;
                }
            }
            _ => {}
        }
    }

    // gate: compare what had to be accepted / confirmed with what was
    if violation.is_none() && !uncertain {
        for (addr, m) in &models {
            let check = |expected: Vec<(u8, bool)>,
                         actual: &Vec<u8>,
                         what: &str|
             -> Option<Violation> {
                // expected: (seq, certain) in order; `actual` must be a subsequence of it that contains every certain entry
                let aligned = |need_certain: bool| -> bool {
                    let (n, k) = (expected.len(), actual.len());
                    // reach[j] after i expected entries: the first j actual entries are matched
                    let mut reach = vec![false; k + 1];
                    reach[0] = true;
                    for i in 0..n {
                        let mut next = vec![false; k + 1];
                        for j in 0..=k {
                            if !reach[j] {
                                continue;
                            }
                            if !expected[i].1 || !need_certain {
                                next[j] = true;
                            }
                            if j < k && actual[j] == expected[i].0 {
                                next[j + 1] = true;
                            }
                        }
                        reach = next;
                    }
                    reach[k]
                };
                if aligned(true) {
                    return None;
                }
                if !aligned(false) {
                    return Some(Violation::new(
                        "C17/gated-unsolicited-response-accepted",
                        what.to_string(),
                        format!(
                            "association {}: an unsolicited response was {} although it carried data before the integrity poll had completed (or none was sent); acceptable (seq, certain) {:?}, got {:?}",
                            addr, what, expected, actual
                        ),
                    ));
                }
                return Some(Violation::new(
                    "C17/unsolicited-response-not-accepted",
                    what.to_string(),
                    format!("association {}: an unsolicited response that had to be {} (gate open or empty) was not; expected (seq, certain) {:?}, got {:?}", addr, what, expected, actual),
                ));
                #[allow(unreachable_code)]
                None
            };
            // something sent, or confirmed, around a disconnect may never have arrived
            let lat = case.latency.0 + case.latency.1 + 2;
            let certain = |arrival: u64| {
                !disturbances
                    .iter()
                    .any(|d| *d + lat >= arrival && *d <= arrival + lat)
            };
            let exp_acc: Vec<(u8, bool)> = m
                .unsol_expected
                .iter()
                .filter(|e| e.1)
                .map(|e| (e.0, certain(e.3)))
                .collect();
            if let Some(v) = check(exp_acc.clone(), &m.unsol_accepted, "delivered") {
                violation = Some(v);
                break;
            }
            // the same for what reaches the measurement handler (the application callback above is the library's own word):
            // everything accepted except repeats, and nothing else
            let exp_handler: Vec<(u8, bool)> = exp_acc.iter().copied().filter(|e| e.0 & 0x10 == 0).collect();
            if let Some(v) = check(exp_handler, &m.unsol_to_handler, "handed to the measurement handler") {
                violation = Some(v);
                break;
            }
            let exp_conf: Vec<(u8, bool)> = m
                .unsol_expected
                .iter()
                .filter(|e| e.1 && e.2)
                .map(|e| (e.0 & 0x0F, certain(e.3)))
                .collect();
            if let Some(v) = check(exp_conf, &m.unsol_confirmed, "confirmed") {
                violation = Some(v);
                break;
            }
        }
    }
    // bounded liveness: after a long quiet tail on a live connection with a faithful outstation the sequence has completed
    if violation.is_none()
        && !uncertain
        && connected
        && run.end_ms.saturating_sub(
            connected_since
                .max(last_disturbance)
                .max(run.last_deviation_ms),
        ) >= 40_000
        && run.leftover_replies == 0
    {
        for (addr, m) in &models {
            let outstanding = m.outstanding();
            bump("probe.liveness_checked");
            if !outstanding.is_empty() && !run.stuck_indications.contains(addr) {
                fail!(
                    "C17/start-up-never-completed",
                    format!("{:?}", outstanding[0]),
                    format!("association {}: connected since {} ms with a faithful outstation, at {} ms still outstanding: {:?}", addr, connected_since, run.end_ms, outstanding)
                );
            }
        }
    }
    let _ = any_running;
    let _ = last_activity;
    let out: Vec<(String, u64)> = counters.into_iter().collect();
    (violation, nontrivial, fp, out)
}

/// was no task of any association running, and nothing else happening on the channel, from `from` to the end of this prefix
/// of the history?
fn channel_idle(hist: &[(u64, H)], from: u64) -> bool {
    let mut open: BTreeMap<u16, u64> = BTreeMap::new();
    for (_, h) in hist {
        match h {
            H::TaskStart { t, assoc, .. } => {
                if *t >= from {
                    return false;
                }
                open.insert(*assoc, *t);
            }
            H::TaskSuccess { t, assoc, .. } | H::TaskFail { t, assoc, .. } => {
                open.remove(assoc);
                if *t >= from {
                    return false;
                }
            }
            H::Client { t, .. } | H::UserRequest { t, .. } | H::Closed { t, .. } => {
                if *t >= from {
                    return false;
                }
            }
            _ => {}
        }
    }
    open.is_empty()
}

/// "RejectedByIin2(Iin { iin1: Iin1 { value: 128 }, ..." -> 128
fn iin1_of_error(err: &str) -> Option<u8> {
    let i = err.find("Iin1 { value: ")?;
    let rest = &err[i + 14..];
    let end = rest.find(' ')?;
    rest[..end].trim_end_matches(',').parse().ok()
}
