//! Workload generators shared by the S-OUT properties: database shapes, updates, READ requests.

use crate::verif::nodes::outstation::{
    event_group, event_vars, static_group, static_vars, OutCfg, PointCfg, UpdateOp,
};
use crate::verif::refcodec::app::{self as refapp, PointType, Range, ReqHeader, ALL_TYPES};
use crate::verif::rng::Rng;
use crate::verif::sout::{Dest, Op, SeqSel, Who};

/// a small database: `ntypes` point types with 1..=max_per_type points each
pub fn gen_points(
    rng: &mut Rng,
    ntypes: usize,
    max_per_type: usize,
    sparse: bool,
    allow_class0: bool,
) -> Vec<PointCfg> {
    let mut types: Vec<PointType> = ALL_TYPES.to_vec();
    rng.shuffle(&mut types);
    types.truncate(ntypes.max(1));
    let mut points = Vec::new();
    for t in types {
        let n = rng.urange(1, max_per_type.max(1));
        let mut index: u16 = if sparse && rng.chance(1, 3) {
            rng.u16() % 65000
        } else {
            rng.below(3) as u16
        };
        let svar = *rng.pick(static_vars(t));
        let evar = *rng.pick(event_vars(t));
        for _ in 0..n {
            points.push(PointCfg {
                ptype: t,
                index,
                class: if allow_class0 && rng.chance(1, 8) {
                    0
                } else {
                    rng.range(1, 3) as u8
                },
                svar: if rng.chance(1, 4) {
                    *rng.pick(static_vars(t))
                } else {
                    svar
                },
                evar: if rng.chance(1, 4) {
                    *rng.pick(event_vars(t))
                } else {
                    evar
                },
                deadband: if t == PointType::Analog && rng.chance(1, 3) {
                    rng.below(30) as u16
                } else {
                    0
                },
            });
            let step = if sparse && rng.chance(1, 3) {
                rng.range(2, 300) as u16
            } else {
                1
            };
            index = match index.checked_add(step) {
                Some(i) => i,
                None => break,
            };
        }
    }
    points
}

/// an update of one of the configured points with values every variation can carry exactly
pub fn gen_update(rng: &mut Rng, points: &[PointCfg], clock: &mut u64) -> UpdateOp {
    let p = rng.pick(points).clone();
    let value = match p.ptype {
        PointType::Binary | PointType::BinaryOutputStatus => rng.below(2) as f64,
        PointType::DoubleBit => rng.below(4) as f64,
        PointType::Counter | PointType::FrozenCounter => rng.below(1000) as f64,
        PointType::Analog | PointType::AnalogOutputStatus => rng.below(201) as f64 - 100.0,
        PointType::OctetString => 0.0,
    };
    let bytes = if p.ptype == PointType::OctetString {
        let n = rng.urange(1, 6);
        rng.bytes(n)
    } else {
        Vec::new()
    };
    let flags = if p.ptype == PointType::OctetString {
        0
    } else if rng.chance(2, 3) {
        0x01
    } else {
        match p.ptype {
            PointType::Binary | PointType::BinaryOutputStatus => rng.u8() & 0x7F,
            PointType::DoubleBit => rng.u8() & 0x3F,
            _ => rng.u8(),
        }
    };
    // times mostly increase, sometimes jump back (forces a new common-time header)
    *clock = if rng.chance(1, 10) {
        clock.saturating_sub(rng.below(70_000))
    } else {
        *clock + rng.below(40_000)
    };
    let time = if rng.chance(1, 8) { None } else { Some(*clock) };
    UpdateOp {
        ptype: p.ptype,
        index: p.index,
        value,
        bytes,
        flags,
        time,
        synchronized: rng.bool(),
        update_static: !rng.chance(1, 10),
        event_mode: match rng.below(10) {
            0 => 2,
            1..=4 => 1,
            _ => 0,
        },
        flags_only: p.ptype != PointType::OctetString && rng.chance(1, 12),
    }
}

pub fn class_header(class: u8, limit: Option<u16>) -> ReqHeader {
    let var = class + 1; // g60v1 = class 0 ... g60v4 = class 3
    match limit {
        None => ReqHeader::all(60, var),
        Some(n) if n < 256 => ReqHeader {
            group: 60,
            var,
            range: Range::Count8(n as u8),
            data: vec![],
        },
        Some(n) => ReqHeader {
            group: 60,
            var,
            range: Range::Count16(n),
            data: vec![],
        },
    }
}

/// headers of a READ that asks for events (by class or by type), optionally followed by class 0
pub fn gen_event_read(rng: &mut Rng, points: &[PointCfg]) -> Vec<ReqHeader> {
    let mut headers = Vec::new();
    match rng.below(10) {
        0..=5 => {
            // classes in ascending order, any non-empty subset
            let mask = rng.range(1, 7);
            for c in 1..=3u8 {
                if mask & (1 << (c - 1)) != 0 {
                    let limit = if rng.chance(1, 5) {
                        Some(rng.range(1, 3) as u16)
                    } else {
                        None
                    };
                    headers.push(class_header(c, limit));
                }
            }
        }
        6..=8 => {
            // by type
            let p = rng.pick(points);
            let group = event_group(p.ptype);
            if p.ptype == PointType::OctetString {
                headers.push(ReqHeader::all(111, 0));
            } else {
                let var = if rng.bool() {
                    0
                } else {
                    *rng.pick(event_vars(p.ptype))
                };
                if rng.chance(1, 4) {
                    headers.push(ReqHeader {
                        group,
                        var,
                        range: Range::Count8(rng.range(1, 3) as u8),
                        data: vec![],
                    });
                } else {
                    headers.push(ReqHeader::all(group, var));
                }
            }
        }
        _ => {
            headers.push(class_header(1, None));
            headers.push(class_header(2, None));
            headers.push(class_header(3, None));
        }
    }
    if rng.chance(1, 4) {
        headers.push(class_header(0, None));
    }
    headers
}

pub fn read_op(headers: Vec<ReqHeader>) -> Op {
    Op::Request {
        func: refapp::FUNC_READ,
        seq: SeqSel::Next,
        headers,
        flags: None,
        from: Who::Master,
        to: Dest::Own,
    }
}

pub fn simple_request(func: u8, headers: Vec<ReqHeader>) -> Op {
    Op::Request {
        func,
        seq: SeqSel::Next,
        headers,
        flags: None,
        from: Who::Master,
        to: Dest::Own,
    }
}

/// ENABLE/DISABLE_UNSOLICITED for a subset of classes
pub fn unsol_op(rng: &mut Rng, enable: bool) -> Op {
    let mask = rng.range(1, 7);
    let mut headers = Vec::new();
    for c in 1..=3u8 {
        if mask & (1 << (c - 1)) != 0 {
            headers.push(ReqHeader::all(60, c + 1));
        }
    }
    simple_request(
        if enable {
            refapp::FUNC_ENABLE_UNSOL
        } else {
            refapp::FUNC_DISABLE_UNSOL
        },
        headers,
    )
}

pub const LOCK_SITES: [&str; 9] = [
    "select",
    "write_response_headers",
    "get_events_info",
    "clear_written_events",
    "write_unsolicited",
    "reset",
    "wait_for_change",
    "wait_for_change",
    "",
];

/// random outstation configuration knobs shared by the event-related properties
pub fn gen_event_cfg(rng: &mut Rng) -> OutCfg {
    let mut cfg = OutCfg::basic();
    cfg.unsolicited = rng.chance(2, 3);
    cfg.max_unsol_retries = *rng.pick(&[None, Some(0usize), Some(1), Some(3)]);
    cfg.confirm_timeout_ms = *rng.pick(&[1000u64, 5000, 2000]);
    cfg.unsol_retry_delay_ms = *rng.pick(&[0u64, 1000, 5000]);
    cfg.sol_tx = match rng.below(4) {
        0 => 249,
        1 => 2048,
        _ => rng.urange(249, 400),
    };
    cfg.unsol_tx = match rng.below(3) {
        0 => 249,
        1 => 2048,
        _ => rng.urange(249, 400),
    };
    cfg.close_mode = rng.bool();
    cfg.decode_all = rng.chance(1, 12);
    // outstation-side keep-alive: link status requests written when nothing was heard for that long
    cfg.keep_alive_ms = *rng.pick(&[None, None, None, Some(700u64), Some(4000)]);
    cfg.restart_answer = *rng.pick(&[0u8, 0, 1, 2]);
    cfg.attrs = rng.chance(1, 4);
    let style = rng.below(3);
    for i in 0..8 {
        cfg.event_buffers[i] = match style {
            0 => rng.range(0, 5) as u16,
            1 => rng.range(1, 3) as u16,
            _ => *rng.pick(&[10u16, 50]),
        };
    }
    cfg
}

/// the cancellation fault: now and then a request arrives in two pieces (cut inside the link header, right after it, or
/// anywhere) with a wake-up of the outstation task in between
pub fn sprinkle_splits(rng: &mut Rng, script: &mut Vec<Op>) {
    if !rng.chance(1, 3) {
        return;
    }
    let mut out = Vec::with_capacity(script.len() + 4);
    for op in script.drain(..) {
        if matches!(op, Op::Request { .. }) && rng.chance(1, 5) {
            // (292 octets is one full link frame: a cut there falls between two transport segments of a long fragment)
            out.push(Op::SplitNext(*rng.pick(&[
                1usize, 2, 3, 9, 10, 11, 12, 17, 26, 27, 28, 40, 292, 292, 293, 302, 584,
            ])));
        }
        out.push(op);
    }
    *script = out;
}
