#!/bin/bash
# usage: tools/confirm_seed.sh <Cnn> <n> "<demo test args>"   e.g. tools/confirm_seed.sh C06 1 "--lib link::datagram_tests"
# (WT_BASE / OUT_BASE select another batch, e.g. WT_BASE=/tmp/wt2 OUT_BASE=/tmp/seeded2-out)
# In the scratch worktree /tmp/wt-<Cnn>: (1) demo alone passes, (2) demo + patch fails, (3) patch alone passes the
# whole existing suite (245 tests). Writes /tmp/seeded-out/<Cnn>/<n>/confirm.log and prints CONFIRMED / NOT-CONFIRMED.
id="$1"; n="$2"; demo="$3"
wt=${WT_BASE:-/tmp/wt}-$id; out=${OUT_BASE:-/tmp/seeded-out}/$id/$n; log=$out/confirm.log
cd $wt || exit 2
git checkout -q -- . && git clean -fdq dnp3/src dnp3/tests 2>/dev/null
: > $log
git apply $out/demo.diff || { echo "demo.diff does not apply" | tee -a $log; exit 2; }
echo "### demo on original" >> $log
cargo test -p dnp3 --offline $demo >> $log 2>&1; rc_orig=$?
git apply $out/patch.diff || { echo "patch.diff does not apply" | tee -a $log; exit 2; }
echo "### demo with patch" >> $log
cargo test -p dnp3 --offline $demo >> $log 2>&1; rc_patch=$?
git checkout -q -- . && git clean -fdq dnp3/src dnp3/tests 2>/dev/null
git apply $out/patch.diff
echo "### full suite with patch only" >> $log
cargo test -p dnp3 --offline --lib >> $log 2>&1; rc_suite=$?
suite_line=$(grep -E "^test result: .* 245 passed; 0 failed" $log | tail -1)
git checkout -q -- . && git clean -fdq dnp3/src dnp3/tests 2>/dev/null
if [ $rc_orig -eq 0 ] && [ $rc_patch -ne 0 ] && [ $rc_suite -eq 0 ] && [ -n "$suite_line" ]; then
  echo "CONFIRMED $id/$n (demo passes on original, fails with patch; suite: $suite_line)" | tee -a $log
else
  echo "NOT-CONFIRMED $id/$n rc_orig=$rc_orig rc_patch=$rc_patch rc_suite=$rc_suite" | tee -a $log
fi
