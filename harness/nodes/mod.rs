pub mod outstation;
pub mod peer;
