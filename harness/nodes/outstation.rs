//! S-OUT node: the real OutstationTask (session + database + event buffer + real transport/link)
//! run by the real tcp::outstation::server_task::ServerTask, connected to simulated sockets.
//! User callbacks are recording stubs whose answers come from the case.

use crate::app::control::CommandStatus;
use crate::app::measurement::*;
use crate::app::parse::options::ParseOptions;
use crate::app::variations::{Group12Var1, Group41Var1, Group41Var2, Group41Var3, Group41Var4};
use crate::app::{
    BufferSize, FunctionCode, MaybeAsync, NullListener, RequestHeader, Sequence, Timeout, Timestamp,
};
use crate::decode::{
    AppDecodeLevel, DecodeLevel, LinkDecodeLevel, PhysDecodeLevel, TransportDecodeLevel,
};
use crate::link::reader::LinkModes;
use crate::link::{EndpointAddress, LinkErrorMode, LinkReadMode};
use crate::outstation::database::*;
use crate::outstation::task::OutstationTask;
use crate::outstation::*;
use crate::tcp::server_task::{NewSession, ServerTask};
use crate::util::channel::Sender;
use crate::util::phys::{PhysAddr, PhysLayer};
use crate::util::session::{Enabled, Session};
use crate::verif::io::{self, ChanRef, ChunkMode, CloseKind, SimSocket};
use crate::verif::kernel::Sim;
use crate::verif::refcodec::app::PointType;
use crate::verif::rng::Rng;
use serde::{Deserialize, Serialize};
use std::sync::{Arc, Mutex};
use std::time::Duration;

#[derive(Clone, Debug, Serialize, Deserialize)]
pub struct PointCfg {
    pub ptype: PointType,
    pub index: u16,
    /// 0 = no event class
    pub class: u8,
    /// static variation number (e.g. 2 for g1v2)
    pub svar: u8,
    /// event variation number
    pub evar: u8,
    /// analog inputs: the configured dead-band (an integer, so every g34 variation carries it exactly)
    #[serde(default)]
    pub deadband: u16,
}

#[derive(Clone, Debug, Serialize, Deserialize)]
pub struct OutCfg {
    pub outstation_addr: u16,
    pub master_addr: u16,
    pub sol_tx: usize,
    pub unsol_tx: usize,
    pub rx: usize,
    pub confirm_timeout_ms: u64,
    pub select_timeout_ms: u64,
    pub self_address: bool,
    pub broadcast: bool,
    pub unsolicited: bool,
    pub any_master: bool,
    pub max_unsol_retries: Option<usize>,
    pub unsol_retry_delay_ms: u64,
    pub keep_alive_ms: Option<u64>,
    pub max_controls: Option<u16>,
    pub max_read_headers: Option<u16>,
    /// per-type event buffer sizes in the order of refcodec::app::ALL_TYPES
    pub event_buffers: [u16; 8],
    pub points: Vec<PointCfg>,
    pub close_mode: bool,
    pub decode_all: bool,
    pub class_zero_octet_strings: bool,
    /// what the application answers to a restart request: 0 = one second, 1 = 500 milliseconds, 2 = not supported
    #[serde(default)]
    pub restart_answer: u8,
    /// define a handful of device attributes (default set and a private set, readable and writable, every data type)
    #[serde(default)]
    pub attrs: bool,
    /// the control handler writes the new state of an operated output to the database from inside the callback (the usual
    /// application pattern): BinaryOutputStatus[index] for g12, AnalogOutputStatus[index] for g41
    #[serde(default)]
    pub controls_update_db: bool,
}

impl OutCfg {
    pub fn basic() -> Self {
        Self {
            outstation_addr: 1024,
            master_addr: 1,
            sol_tx: 2048,
            unsol_tx: 2048,
            rx: 2048,
            confirm_timeout_ms: 5000,
            select_timeout_ms: 5000,
            self_address: false,
            broadcast: true,
            unsolicited: true,
            any_master: false,
            max_unsol_retries: None,
            unsol_retry_delay_ms: 5000,
            keep_alive_ms: None,
            max_controls: None,
            max_read_headers: None,
            event_buffers: [10; 8],
            points: Vec::new(),
            close_mode: false,
            decode_all: false,
            class_zero_octet_strings: true,
            restart_answer: 0,
            attrs: false,
            controls_update_db: false,
        }
    }

    pub fn to_config(&self) -> OutstationConfig {
        let eb = &self.event_buffers;
        let mut c = OutstationConfig::new(
            EndpointAddress::try_new(self.outstation_addr).expect("outstation address"),
            EndpointAddress::try_new(self.master_addr).expect("master address"),
            EventBufferConfig::new(eb[0], eb[1], eb[2], eb[3], eb[4], eb[5], eb[6], eb[7]),
        );
        c.solicited_buffer_size = BufferSize::new(self.sol_tx).expect("sol tx size");
        c.unsolicited_buffer_size = BufferSize::new(self.unsol_tx).expect("unsol tx size");
        c.rx_buffer_size = BufferSize::new(self.rx).expect("rx size");
        c.confirm_timeout = Timeout::from_millis(self.confirm_timeout_ms).expect("confirm timeout");
        c.select_timeout = Timeout::from_millis(self.select_timeout_ms).expect("select timeout");
        let f = |b: bool| {
            if b {
                Feature::Enabled
            } else {
                Feature::Disabled
            }
        };
        c.features = Features {
            self_address: f(self.self_address),
            broadcast: f(self.broadcast),
            unsolicited: f(self.unsolicited),
            respond_to_any_master: f(self.any_master),
        };
        c.max_unsolicited_retries = self.max_unsol_retries;
        c.unsolicited_retry_delay = Duration::from_millis(self.unsol_retry_delay_ms);
        c.keep_alive_timeout = self.keep_alive_ms.map(Duration::from_millis);
        c.max_controls_per_request = self.max_controls;
        c.max_read_request_headers = self.max_read_headers;
        let mut cz = ClassZeroConfig::default();
        cz.octet_string = self.class_zero_octet_strings;
        c.class_zero = cz;
        if self.decode_all {
            c.decode_level = DecodeLevel::new(
                AppDecodeLevel::ObjectValues,
                TransportDecodeLevel::Payload,
                LinkDecodeLevel::Payload,
                PhysDecodeLevel::Data,
            );
        }
        c
    }
}

/// one recorded user callback
#[derive(Clone, Debug, PartialEq)]
pub enum Cb {
    BeginConfirm,
    EventCleared(u64),
    EndConfirm {
        classes: [usize; 3],
        types: [usize; 8],
    },
    BeginFragment,
    EndFragment,
    Select {
        group: u8,
        var: u8,
        index: u16,
        repr: String,
        status: u8,
    },
    Operate {
        group: u8,
        var: u8,
        index: u16,
        repr: String,
        op: u8,
        status: u8,
    },
    WriteAbsTime(u64),
    ColdRestart,
    WarmRestart,
    Freeze(String),
    DeadBand(u16, f64),
    WriteAttr,
    Info(String),
    Connection(bool),
}

impl Cb {
    /// callbacks that change application state (used by C05 / C07)
    pub fn is_mutating(&self) -> bool {
        matches!(
            self,
            Cb::Select { .. }
                | Cb::Operate { .. }
                | Cb::WriteAbsTime(_)
                | Cb::ColdRestart
                | Cb::WarmRestart
                | Cb::Freeze(_)
                | Cb::DeadBand(..)
                | Cb::WriteAttr
                | Cb::BeginFragment
                | Cb::EndFragment
        ) || matches!(self, Cb::Info(s) if s == "clear_restart_iin")
    }
}

/// how the control handler stub answers
#[derive(Clone, Debug, Serialize, Deserialize, PartialEq)]
pub enum CtrlAnswers {
    AllSuccess,
    /// each call answers SUCCESS with probability num/8, otherwise a random error status
    Random {
        seed: u64,
        success_eighths: u8,
    },
}

pub struct Recorder {
    pub log: Vec<(u64, Cb)>,
    /// world-wide sequence number of each log entry
    pub orders: Vec<u64>,
    pub app_iin: ApplicationIin,
    pub ctrl: CtrlAnswers,
    ctrl_rng: Rng,
    pub processing_delay_ms: u16,
    pub time_write_result: Result<(), RequestError>,
    pub restart_delay: Option<RestartDelay>,
    pub freeze_result: Result<(), RequestError>,
    pub support_dead_bands: bool,
    /// set by the driver when the control handler is to update the database: the tracker of static values and the log of
    /// applied updates it shares with the driver, and how many such updates were made
    pub db_on_operate: Option<DbOnOperate>,
}

pub type UpdateLog = Arc<Mutex<Vec<(u64, u64, UpdateOp, UpdateInfo)>>>;

#[derive(Clone)]
pub struct DbOnOperate {
    pub tracker: Arc<Mutex<StaticTracker>>,
    pub updates: UpdateLog,
    pub count: u64,
}

impl Recorder {
    fn new(ctrl: CtrlAnswers) -> Self {
        let seed = match &ctrl {
            CtrlAnswers::AllSuccess => 0,
            CtrlAnswers::Random { seed, .. } => *seed,
        };
        Self {
            log: Vec::new(),
            orders: Vec::new(),
            app_iin: ApplicationIin::default(),
            ctrl,
            ctrl_rng: Rng::new(seed),
            processing_delay_ms: 0,
            time_write_result: Ok(()),
            restart_delay: Some(RestartDelay::Seconds(1)),
            freeze_result: Ok(()),
            support_dead_bands: true,
            db_on_operate: None,
        }
    }

    fn push(&mut self, cb: Cb) {
        let t = crate::verif::kernel::current()
            .map(|c| c.now_ms())
            .unwrap_or(0);
        if let Some(core) = crate::verif::kernel::current() {
            if core.log_enabled() {
                core.log(format!("  callback {:?}", cb));
            }
        }
        let order = crate::verif::kernel::current()
            .map(|c| c.next_order())
            .unwrap_or(0);
        self.orders.push(order);
        self.log.push((t, cb));
    }

    fn next_status(&mut self) -> CommandStatus {
        match self.ctrl.clone() {
            CtrlAnswers::AllSuccess => CommandStatus::Success,
            CtrlAnswers::Random {
                success_eighths, ..
            } => {
                if self.ctrl_rng.below(8) < success_eighths as u64 {
                    CommandStatus::Success
                } else {
                    // includes NotSupported (which also sets IIN2.2 in the response)
                    CommandStatus::from(*self.ctrl_rng.pick(&[1u8, 3, 4, 5, 6, 7, 9, 10, 12, 126]))
                }
            }
        }
    }
}

pub type Rec = Arc<Mutex<Recorder>>;

struct App(Rec);
struct Info(Rec);
struct Ctrl(Rec);

impl OutstationApplication for App {
    fn get_processing_delay_ms(&self) -> u16 {
        self.0.lock().unwrap().processing_delay_ms
    }
    fn write_absolute_time(&mut self, time: Timestamp) -> Result<(), RequestError> {
        let mut r = self.0.lock().unwrap();
        r.push(Cb::WriteAbsTime(time.raw_value()));
        r.time_write_result
    }
    fn get_application_iin(&self) -> ApplicationIin {
        self.0.lock().unwrap().app_iin
    }
    fn cold_restart(&mut self) -> Option<RestartDelay> {
        let mut r = self.0.lock().unwrap();
        r.push(Cb::ColdRestart);
        r.restart_delay
    }
    fn warm_restart(&mut self) -> Option<RestartDelay> {
        let mut r = self.0.lock().unwrap();
        r.push(Cb::WarmRestart);
        r.restart_delay
    }
    fn freeze_counter(
        &mut self,
        indices: FreezeIndices,
        freeze_type: FreezeType,
        _database: &mut DatabaseHandle,
    ) -> Result<(), RequestError> {
        let mut r = self.0.lock().unwrap();
        r.push(Cb::Freeze(format!("{:?} {:?}", indices, freeze_type)));
        r.freeze_result
    }
    fn support_write_analog_dead_bands(&mut self) -> bool {
        self.0.lock().unwrap().support_dead_bands
    }
    fn write_analog_dead_band(&mut self, index: u16, dead_band: f64) {
        self.0.lock().unwrap().push(Cb::DeadBand(index, dead_band));
    }
    fn write_device_attr(&mut self, _attr: crate::app::attr::Attribute) -> MaybeAsync<bool> {
        self.0.lock().unwrap().push(Cb::WriteAttr);
        MaybeAsync::ready(true)
    }
    fn begin_confirm(&mut self) {
        self.0.lock().unwrap().push(Cb::BeginConfirm);
    }
    fn event_cleared(&mut self, id: u64) {
        self.0.lock().unwrap().push(Cb::EventCleared(id));
    }
    fn end_confirm(&mut self, state: BufferState) -> MaybeAsync<()> {
        let t = state.types;
        self.0.lock().unwrap().push(Cb::EndConfirm {
            classes: [
                state.classes.num_class_1,
                state.classes.num_class_2,
                state.classes.num_class_3,
            ],
            types: [
                t.num_binary_input,
                t.num_double_bit_binary_input,
                t.num_binary_output_status,
                t.num_counter,
                t.num_frozen_counter,
                t.num_analog,
                t.num_analog_output_status,
                t.num_octet_string,
            ],
        });
        MaybeAsync::ready(())
    }
}

impl OutstationInformation for Info {
    fn process_request_from_idle(&mut self, header: RequestHeader) {
        self.0.lock().unwrap().push(Cb::Info(format!(
            "process_request_from_idle {:?}",
            header.function
        )));
    }
    fn broadcast_received(&mut self, function: FunctionCode, action: BroadcastAction) {
        self.0.lock().unwrap().push(Cb::Info(format!(
            "broadcast_received {:?} {:?}",
            function, action
        )));
    }
    fn enter_solicited_confirm_wait(&mut self, ecsn: Sequence) {
        self.0.lock().unwrap().push(Cb::Info(format!(
            "enter_solicited_confirm_wait {}",
            ecsn.value()
        )));
    }
    fn solicited_confirm_timeout(&mut self, ecsn: Sequence) {
        self.0.lock().unwrap().push(Cb::Info(format!(
            "solicited_confirm_timeout {}",
            ecsn.value()
        )));
    }
    fn solicited_confirm_received(&mut self, ecsn: Sequence) {
        self.0.lock().unwrap().push(Cb::Info(format!(
            "solicited_confirm_received {}",
            ecsn.value()
        )));
    }
    fn solicited_confirm_wait_new_request(&mut self) {
        self.0
            .lock()
            .unwrap()
            .push(Cb::Info("solicited_confirm_wait_new_request".to_string()));
    }
    fn wrong_solicited_confirm_seq(&mut self, ecsn: Sequence, seq: Sequence) {
        self.0.lock().unwrap().push(Cb::Info(format!(
            "wrong_solicited_confirm_seq {} {}",
            ecsn.value(),
            seq.value()
        )));
    }
    fn unexpected_confirm(&mut self, unsolicited: bool, seq: Sequence) {
        self.0.lock().unwrap().push(Cb::Info(format!(
            "unexpected_confirm {} {}",
            unsolicited,
            seq.value()
        )));
    }
    fn enter_unsolicited_confirm_wait(&mut self, ecsn: Sequence) {
        self.0.lock().unwrap().push(Cb::Info(format!(
            "enter_unsolicited_confirm_wait {}",
            ecsn.value()
        )));
    }
    fn unsolicited_confirm_timeout(&mut self, ecsn: Sequence, retry: bool) {
        self.0.lock().unwrap().push(Cb::Info(format!(
            "unsolicited_confirm_timeout {} {}",
            ecsn.value(),
            retry
        )));
    }
    fn unsolicited_confirmed(&mut self, ecsn: Sequence) {
        self.0
            .lock()
            .unwrap()
            .push(Cb::Info(format!("unsolicited_confirmed {}", ecsn.value())));
    }
    fn clear_restart_iin(&mut self) {
        self.0
            .lock()
            .unwrap()
            .push(Cb::Info("clear_restart_iin".to_string()));
    }
}

fn op_code(op: OperateType) -> u8 {
    match op {
        OperateType::SelectBeforeOperate => 0,
        OperateType::DirectOperate => 1,
        OperateType::DirectOperateNoAck => 2,
    }
}

macro_rules! control_support {
    ($t:ty, $g:expr, $v:expr) => {
        impl ControlSupport<$t> for Ctrl {
            fn select(
                &mut self,
                control: $t,
                index: u16,
                _database: &mut DatabaseHandle,
            ) -> CommandStatus {
                let mut r = self.0.lock().unwrap();
                let status = r.next_status();
                r.push(Cb::Select {
                    group: $g,
                    var: $v,
                    index,
                    repr: format!("{:?}", control),
                    status: status.as_u8(),
                });
                status
            }
            fn operate(
                &mut self,
                control: $t,
                index: u16,
                op_type: OperateType,
                _database: &mut DatabaseHandle,
            ) -> CommandStatus {
                let mut r = self.0.lock().unwrap();
                let status = r.next_status();
                r.push(Cb::Operate {
                    group: $g,
                    var: $v,
                    index,
                    repr: format!("{:?}", control),
                    op: op_code(op_type),
                    status: status.as_u8(),
                });
                let db = if status == CommandStatus::Success {
                    r.db_on_operate.as_mut().map(|d| {
                        d.count += 1;
                        d.clone()
                    })
                } else {
                    None
                };
                drop(r);
                if let Some(d) = db {
                    let op = UpdateOp {
                        ptype: if $g == 12 { PointType::BinaryOutputStatus } else { PointType::AnalogOutputStatus },
                        index,
                        value: if $g == 12 { (d.count % 2) as f64 } else { (d.count % 50) as f64 },
                        bytes: Vec::new(),
                        flags: 0x01,
                        time: None,
                        synchronized: false,
                        update_static: true,
                        event_mode: 1,
                        flags_only: false,
                    };
                    // (the tracker is taken inside the transaction, after the lock-point hook - which takes it too - has run)
                    let mut result = None;
                    _database.transaction(|db| {
                        let mut tr = d.tracker.lock().unwrap();
                        result = Some(tr.apply(&op, db));
                    });
                    if let (Some((eff, info)), Some(core)) = (result, crate::verif::kernel::current()) {
                        core.count("fault.update_inside_control_callback", 1);
                        if core.log_enabled() {
                            core.log(format!("  database update from the control callback: {:?} -> {:?}", eff, info));
                        }
                        d.updates.lock().unwrap().push((core.now_ms(), core.next_order(), eff, info));
                    }
                }
                status
            }
        }
    };
}

control_support!(Group12Var1, 12, 1);
control_support!(Group41Var1, 41, 1);
control_support!(Group41Var2, 41, 2);
control_support!(Group41Var3, 41, 3);
control_support!(Group41Var4, 41, 4);

impl ControlHandler for Ctrl {
    fn begin_fragment(&mut self) {
        self.0.lock().unwrap().push(Cb::BeginFragment);
    }
    fn end_fragment(&mut self, _database: &mut DatabaseHandle) -> MaybeAsync<()> {
        self.0.lock().unwrap().push(Cb::EndFragment);
        MaybeAsync::ready(())
    }
}

struct ConnListener(Rec);

impl crate::app::Listener<ConnectionState> for ConnListener {
    fn update(&mut self, value: ConnectionState) -> MaybeAsync<()> {
        self.0
            .lock()
            .unwrap()
            .push(Cb::Connection(value == ConnectionState::Connected));
        MaybeAsync::ready(())
    }
}

/// one database update as the workload describes it
#[derive(Clone, Debug, Serialize, Deserialize, PartialEq)]
pub struct UpdateOp {
    pub ptype: PointType,
    pub index: u16,
    /// numeric value (binary 0/1, double-bit 0..3, counters, analogs); octet strings use `bytes`
    pub value: f64,
    pub bytes: Vec<u8>,
    pub flags: u8,
    /// None = no time supplied
    pub time: Option<u64>,
    pub synchronized: bool,
    pub update_static: bool,
    /// 0 detect, 1 force, 2 suppress
    pub event_mode: u8,
    /// `Database::update_flags`: flags and time change, the value stays what it is. In recorded timelines `value`
    /// holds the value the harness's own `StaticTracker` says the point had (the library is not asked).
    #[serde(default)]
    pub flags_only: bool,
}

/// the harness's own idea of every point's current static value, kept by the drivers in application order, so that a
/// flags-only update can be logged with the value it must carry
#[derive(Default)]
pub struct StaticTracker {
    map: std::collections::BTreeMap<(PointType, u16), f64>,
}

impl StaticTracker {
    pub fn new(cfg: &OutCfg) -> Self {
        let mut map = std::collections::BTreeMap::new();
        for p in &cfg.points {
            map.entry((p.ptype, p.index))
                .or_insert(if p.ptype == PointType::DoubleBit { 3.0 } else { 0.0 });
        }
        Self { map }
    }

    /// apply `op` to the real database; returns the effective operation (value filled in for flags-only updates)
    pub fn apply(&mut self, op: &UpdateOp, db: &mut Database) -> (UpdateOp, UpdateInfo) {
        let mut eff = op.clone();
        let key = (op.ptype, op.index);
        if op.flags_only {
            if let Some(v) = self.map.get(&key) {
                eff.value = *v;
            }
        }
        let info = op.apply(db);
        if op.flags_only {
            if let Some(core) = crate::verif::kernel::current() {
                core.count(
                    match info {
                        UpdateInfo::NoPoint => "probe.update_flags_no_point",
                        UpdateInfo::NoEvent => "probe.update_flags_no_event",
                        _ => "probe.update_flags_event",
                    },
                    1,
                );
            }
        }
        if eff.update_static && self.map.contains_key(&key) && !matches!(info, UpdateInfo::NoPoint) {
            self.map.insert(key, eff.value);
        }
        (eff, info)
    }
}

impl UpdateOp {
    pub fn options(&self) -> UpdateOptions {
        UpdateOptions::new(
            self.update_static,
            match self.event_mode {
                0 => EventMode::Detect,
                1 => EventMode::Force,
                _ => EventMode::Suppress,
            },
        )
    }

    pub fn time(&self) -> Option<Time> {
        self.time.map(|t| {
            if self.synchronized {
                Time::synchronized(t)
            } else {
                Time::unsynchronized(t)
            }
        })
    }

    pub fn apply(&self, db: &mut Database) -> UpdateInfo {
        let flags = Flags::new(self.flags);
        let time = self.time();
        let opts = self.options();
        if self.flags_only {
            let t = match self.ptype {
                PointType::Binary => UpdateFlagsType::BinaryInput,
                PointType::DoubleBit => UpdateFlagsType::DoubleBitBinaryInput,
                PointType::BinaryOutputStatus => UpdateFlagsType::BinaryOutputStatus,
                PointType::Counter => UpdateFlagsType::Counter,
                PointType::FrozenCounter => UpdateFlagsType::FrozenCounter,
                PointType::Analog => UpdateFlagsType::AnalogInput,
                PointType::AnalogOutputStatus => UpdateFlagsType::AnalogOutputStatus,
                PointType::OctetString => return UpdateInfo::NoPoint,
            };
            return db.update_flags(self.index, t, flags, time, opts);
        }
        match self.ptype {
            PointType::Binary => db.update2(
                self.index,
                &BinaryInput {
                    value: self.value != 0.0,
                    flags,
                    time,
                },
                opts,
            ),
            PointType::DoubleBit => db.update2(
                self.index,
                &DoubleBitBinaryInput {
                    value: match self.value as u8 {
                        0 => DoubleBit::Intermediate,
                        1 => DoubleBit::DeterminedOff,
                        2 => DoubleBit::DeterminedOn,
                        _ => DoubleBit::Indeterminate,
                    },
                    flags,
                    time,
                },
                opts,
            ),
            PointType::BinaryOutputStatus => db.update2(
                self.index,
                &BinaryOutputStatus {
                    value: self.value != 0.0,
                    flags,
                    time,
                },
                opts,
            ),
            PointType::Counter => db.update2(
                self.index,
                &Counter {
                    value: self.value as u32,
                    flags,
                    time,
                },
                opts,
            ),
            PointType::FrozenCounter => db.update2(
                self.index,
                &FrozenCounter {
                    value: self.value as u32,
                    flags,
                    time,
                },
                opts,
            ),
            PointType::Analog => db.update2(
                self.index,
                &AnalogInput {
                    value: self.value,
                    flags,
                    time,
                },
                opts,
            ),
            PointType::AnalogOutputStatus => db.update2(
                self.index,
                &AnalogOutputStatus {
                    value: self.value,
                    flags,
                    time,
                },
                opts,
            ),
            PointType::OctetString => match OctetString::new(&self.bytes) {
                Ok(s) => db.update2(self.index, &s, opts),
                Err(_) => UpdateInfo::NoPoint,
            },
        }
    }
}

pub fn add_point(db: &mut Database, p: &PointCfg) -> bool {
    let class = match p.class {
        1 => Some(EventClass::Class1),
        2 => Some(EventClass::Class2),
        3 => Some(EventClass::Class3),
        _ => None,
    };
    match p.ptype {
        PointType::Binary => db.add(
            p.index,
            class,
            BinaryInputConfig::new(
                if p.svar == 1 {
                    StaticBinaryInputVariation::Group1Var1
                } else {
                    StaticBinaryInputVariation::Group1Var2
                },
                match p.evar {
                    1 => EventBinaryInputVariation::Group2Var1,
                    2 => EventBinaryInputVariation::Group2Var2,
                    _ => EventBinaryInputVariation::Group2Var3,
                },
            ),
        ),
        PointType::DoubleBit => db.add(
            p.index,
            class,
            DoubleBitBinaryInputConfig::new(
                if p.svar == 1 {
                    StaticDoubleBitBinaryInputVariation::Group3Var1
                } else {
                    StaticDoubleBitBinaryInputVariation::Group3Var2
                },
                match p.evar {
                    1 => EventDoubleBitBinaryInputVariation::Group4Var1,
                    2 => EventDoubleBitBinaryInputVariation::Group4Var2,
                    _ => EventDoubleBitBinaryInputVariation::Group4Var3,
                },
            ),
        ),
        PointType::BinaryOutputStatus => db.add(
            p.index,
            class,
            BinaryOutputStatusConfig::new(
                if p.svar == 1 {
                    StaticBinaryOutputStatusVariation::Group10Var1
                } else {
                    StaticBinaryOutputStatusVariation::Group10Var2
                },
                if p.evar == 1 {
                    EventBinaryOutputStatusVariation::Group11Var1
                } else {
                    EventBinaryOutputStatusVariation::Group11Var2
                },
            ),
        ),
        PointType::Counter => db.add(
            p.index,
            class,
            CounterConfig::new(
                match p.svar {
                    1 => StaticCounterVariation::Group20Var1,
                    2 => StaticCounterVariation::Group20Var2,
                    5 => StaticCounterVariation::Group20Var5,
                    _ => StaticCounterVariation::Group20Var6,
                },
                match p.evar {
                    1 => EventCounterVariation::Group22Var1,
                    2 => EventCounterVariation::Group22Var2,
                    5 => EventCounterVariation::Group22Var5,
                    _ => EventCounterVariation::Group22Var6,
                },
                0,
            ),
        ),
        PointType::FrozenCounter => db.add(
            p.index,
            class,
            FrozenCounterConfig::new(
                match p.svar {
                    1 => StaticFrozenCounterVariation::Group21Var1,
                    2 => StaticFrozenCounterVariation::Group21Var2,
                    5 => StaticFrozenCounterVariation::Group21Var5,
                    6 => StaticFrozenCounterVariation::Group21Var6,
                    9 => StaticFrozenCounterVariation::Group21Var9,
                    _ => StaticFrozenCounterVariation::Group21Var10,
                },
                match p.evar {
                    1 => EventFrozenCounterVariation::Group23Var1,
                    2 => EventFrozenCounterVariation::Group23Var2,
                    5 => EventFrozenCounterVariation::Group23Var5,
                    _ => EventFrozenCounterVariation::Group23Var6,
                },
                0,
            ),
        ),
        PointType::Analog => db.add(
            p.index,
            class,
            AnalogInputConfig::new(
                match p.svar {
                    1 => StaticAnalogInputVariation::Group30Var1,
                    2 => StaticAnalogInputVariation::Group30Var2,
                    3 => StaticAnalogInputVariation::Group30Var3,
                    4 => StaticAnalogInputVariation::Group30Var4,
                    5 => StaticAnalogInputVariation::Group30Var5,
                    _ => StaticAnalogInputVariation::Group30Var6,
                },
                match p.evar {
                    1 => EventAnalogInputVariation::Group32Var1,
                    2 => EventAnalogInputVariation::Group32Var2,
                    3 => EventAnalogInputVariation::Group32Var3,
                    4 => EventAnalogInputVariation::Group32Var4,
                    5 => EventAnalogInputVariation::Group32Var5,
                    6 => EventAnalogInputVariation::Group32Var6,
                    7 => EventAnalogInputVariation::Group32Var7,
                    _ => EventAnalogInputVariation::Group32Var8,
                },
                p.deadband as f64,
            ),
        ),
        PointType::AnalogOutputStatus => db.add(
            p.index,
            class,
            AnalogOutputStatusConfig::new(
                match p.svar {
                    1 => StaticAnalogOutputStatusVariation::Group40Var1,
                    2 => StaticAnalogOutputStatusVariation::Group40Var2,
                    3 => StaticAnalogOutputStatusVariation::Group40Var3,
                    _ => StaticAnalogOutputStatusVariation::Group40Var4,
                },
                match p.evar {
                    1 => EventAnalogOutputStatusVariation::Group42Var1,
                    2 => EventAnalogOutputStatusVariation::Group42Var2,
                    3 => EventAnalogOutputStatusVariation::Group42Var3,
                    4 => EventAnalogOutputStatusVariation::Group42Var4,
                    5 => EventAnalogOutputStatusVariation::Group42Var5,
                    6 => EventAnalogOutputStatusVariation::Group42Var6,
                    7 => EventAnalogOutputStatusVariation::Group42Var7,
                    _ => EventAnalogOutputStatusVariation::Group42Var8,
                },
                0.0,
            ),
        ),
        PointType::OctetString => db.add(p.index, class, OctetStringConfig),
    }
}

/// legal static / event variation numbers per point type (what the generators draw from)
pub fn static_vars(t: PointType) -> &'static [u8] {
    match t {
        PointType::Binary => &[1, 2],
        PointType::DoubleBit => &[1, 2],
        PointType::BinaryOutputStatus => &[1, 2],
        PointType::Counter => &[1, 2, 5, 6],
        PointType::FrozenCounter => &[1, 2, 5, 6, 9, 10],
        PointType::Analog => &[1, 2, 3, 4, 5, 6],
        PointType::AnalogOutputStatus => &[1, 2, 3, 4],
        PointType::OctetString => &[0],
    }
}

pub fn event_vars(t: PointType) -> &'static [u8] {
    match t {
        PointType::Binary => &[1, 2, 3],
        PointType::DoubleBit => &[1, 2, 3],
        PointType::BinaryOutputStatus => &[1, 2],
        PointType::Counter => &[1, 2, 5, 6],
        PointType::FrozenCounter => &[1, 2, 5, 6],
        PointType::Analog => &[1, 2, 3, 4, 5, 6, 7, 8],
        PointType::AnalogOutputStatus => &[1, 2, 3, 4, 5, 6, 7, 8],
        PointType::OctetString => &[0],
    }
}

pub fn static_group(t: PointType) -> u8 {
    match t {
        PointType::Binary => 1,
        PointType::DoubleBit => 3,
        PointType::BinaryOutputStatus => 10,
        PointType::Counter => 20,
        PointType::FrozenCounter => 21,
        PointType::Analog => 30,
        PointType::AnalogOutputStatus => 40,
        PointType::OctetString => 110,
    }
}

pub fn event_group(t: PointType) -> u8 {
    match t {
        PointType::Binary => 2,
        PointType::DoubleBit => 4,
        PointType::BinaryOutputStatus => 11,
        PointType::Counter => 22,
        PointType::FrozenCounter => 23,
        PointType::Analog => 32,
        PointType::AnalogOutputStatus => 42,
        PointType::OctetString => 111,
    }
}

pub fn type_slot(t: PointType) -> usize {
    crate::verif::refcodec::app::ALL_TYPES
        .iter()
        .position(|x| *x == t)
        .unwrap()
}

/// the running node
pub struct OutNode {
    pub handle: OutstationHandle,
    pub rec: Rec,
    pub cfg: OutCfg,
    pub task: usize,
    new_session: Sender<NewSession>,
    next_session_id: u64,
    /// bytes toward the outstation / from the outstation on the current connection
    pub to_out: ChanRef,
    pub from_out: ChanRef,
    pub connected: bool,
}

impl OutNode {
    pub fn start(sim: &Sim, cfg: &OutCfg, ctrl: CtrlAnswers) -> OutNode {
        let rec: Rec = Arc::new(Mutex::new(Recorder::new(ctrl)));
        rec.lock().unwrap().restart_delay = match cfg.restart_answer {
            0 => Some(RestartDelay::Seconds(1)),
            1 => Some(RestartDelay::Milliseconds(500)),
            _ => None,
        };
        let config = cfg.to_config();
        let modes = LinkModes {
            error_mode: if cfg.close_mode {
                LinkErrorMode::Close
            } else {
                LinkErrorMode::Discard
            },
            read_mode: LinkReadMode::Stream,
        };
        let (task, handle) = OutstationTask::create(
            Enabled::Yes,
            modes,
            ParseOptions::get_static(),
            config,
            PhysAddr::None,
            Box::new(App(rec.clone())),
            Box::new(Info(rec.clone())),
            Box::new(Ctrl(rec.clone())),
        );
        let with_attrs = cfg.attrs;
        handle.transaction(|db| {
            for p in &cfg.points {
                add_point(db, p);
            }
            if with_attrs {
                use crate::app::attr::{AttrProp, AttrSet, FloatType, OwnedAttrValue, OwnedAttribute};
                let ro = AttrProp::default();
                let rw = AttrProp::writable();
                let defs: Vec<(AttrProp, u8, u8, OwnedAttrValue)> = vec![
                    (ro, 0, 250, OwnedAttrValue::VisibleString("model".to_string())),
                    (rw, 0, 245, OwnedAttrValue::VisibleString("somewhere".to_string())),
                    (ro, 0, 252, OwnedAttrValue::VisibleString("maker".to_string())),
                    (rw, 1, 1, OwnedAttrValue::UnsignedInt(7)),
                    (rw, 1, 2, OwnedAttrValue::SignedInt(-7)),
                    (rw, 1, 3, OwnedAttrValue::FloatingPoint(FloatType::F32(1.5))),
                    (ro, 1, 4, OwnedAttrValue::OctetString(vec![1, 2, 3])),
                    (rw, 1, 5, OwnedAttrValue::BitString(vec![0xA5])),
                    (rw, 1, 6, OwnedAttrValue::Dnp3Time(crate::app::Timestamp::new(1_700_000_000_000))),
                ];
                for (prop, set, var, value) in defs {
                    let _ = db.define_attr(prop, OwnedAttribute::new(AttrSet::new(set), var, value));
                }
            }
        });
        let (mut server, tx) = ServerTask::create(
            Session::outstation(task),
            Box::new(ConnListener(rec.clone())),
        );
        let id = sim.spawn("outstation", async move {
            let _ = server.run().await;
        });
        OutNode {
            handle,
            rec,
            cfg: cfg.clone(),
            task: id,
            new_session: tx,
            next_session_id: 0,
            to_out: io::new_chan(),
            from_out: io::new_chan(),
            connected: false,
        }
    }

    /// hand a fresh simulated connection to the server task (pre-empts a running session, as a new TCP accept does)
    pub async fn connect(&mut self, chunk: ChunkMode, chunk_seed: u64) {
        self.to_out = io::new_chan();
        self.from_out = io::new_chan();
        let sock = SimSocket::new(
            "outstation",
            self.to_out.clone(),
            self.from_out.clone(),
            chunk,
            chunk_seed,
        );
        let id = self.next_session_id;
        self.next_session_id += 1;
        let mut tx = self.new_session.clone();
        let _ = tx
            .send(NewSession::new(id, PhysLayer::Sim(Box::new(sock))))
            .await;
        self.connected = true;
    }

    /// a handle with which another simulated task (the S-PAIR acceptor) can hand connections to the server task
    pub fn connector(&self) -> OutConnector {
        OutConnector {
            new_session: self.new_session.clone(),
            next_id: Arc::new(Mutex::new(1000)),
        }
    }

    /// hand a connection made of existing channels to the server task (S-PAIR: the other ends belong to the master's socket)
    pub async fn connect_with(
        &mut self,
        inbox: ChanRef,
        outbox: ChanRef,
        chunk: ChunkMode,
        chunk_seed: u64,
    ) {
        self.to_out = inbox;
        self.from_out = outbox;
        let sock = SimSocket::new(
            "outstation",
            self.to_out.clone(),
            self.from_out.clone(),
            chunk,
            chunk_seed,
        )
        .closing_on_drop();
        let id = self.next_session_id;
        self.next_session_id += 1;
        let mut tx = self.new_session.clone();
        let _ = tx
            .send(NewSession::new(id, PhysLayer::Sim(Box::new(sock))))
            .await;
        self.connected = true;
    }

    /// cut the current connection
    pub fn disconnect(&mut self, kind: CloseKind) {
        io::chan_close(&self.to_out, kind);
        io::chan_close(&self.from_out, kind);
        self.connected = false;
    }

    pub fn callbacks(&self) -> Vec<(u64, Cb)> {
        self.rec.lock().unwrap().log.clone()
    }

    pub fn callbacks_since(&self, n: usize) -> Vec<(u64, Cb)> {
        self.rec.lock().unwrap().log[n..].to_vec()
    }

    pub fn callback_orders_since(&self, n: usize) -> Vec<u64> {
        self.rec.lock().unwrap().orders[n..].to_vec()
    }

    pub fn callback_count(&self) -> usize {
        self.rec.lock().unwrap().log.len()
    }
}

#[derive(Clone)]
pub struct OutConnector {
    new_session: Sender<NewSession>,
    next_id: Arc<Mutex<u64>>,
}

impl OutConnector {
    /// a new connection for the outstation: `inbox` carries the octets written by the master, `outbox` those for the master
    pub async fn connect_with(
        &self,
        inbox: ChanRef,
        outbox: ChanRef,
        chunk: ChunkMode,
        chunk_seed: u64,
    ) {
        let sock = SimSocket::new("outstation", inbox, outbox, chunk, chunk_seed).closing_on_drop();
        let id = {
            let mut n = self.next_id.lock().unwrap();
            *n += 1;
            *n
        };
        let mut tx = self.new_session.clone();
        let _ = tx
            .send(NewSession::new(id, PhysLayer::Sim(Box::new(sock))))
            .await;
    }
}
